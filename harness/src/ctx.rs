//! Per-shard run context: arguments, statistics, fingerprints, samples, violations,
//! crash witness file, hang watchdog. One process = one shard.

use crate::prng::Rng;
use serde_json::{json, Map, Value};
use std::collections::{BTreeMap, BTreeSet, HashSet};
use std::io::{Seek, SeekFrom, Write};
use std::path::PathBuf;
use std::sync::atomic::{AtomicU64, Ordering};
use std::sync::Mutex;
use std::time::Instant;

#[derive(Clone, Copy, PartialEq, Eq, Debug)]
pub enum Tier {
    Quick,
    Thorough,
}

pub struct Violation {
    pub sig: String,
    pub what: String,
    pub replay: Value,
    pub count: u64,
}

pub struct Ctx {
    pub prop: String,
    pub seed: u64,
    pub tier: Tier,
    pub shard: usize,
    pub nshards: usize,
    pub out: PathBuf,
    pub replay: Option<PathBuf>,
    pub rng: Rng,
    pub evaluations: u64,
    stats: BTreeMap<String, u64>,
    maxes: BTreeMap<String, u64>,
    sets: BTreeMap<String, BTreeSet<String>>,
    fps: HashSet<u64>,
    fp_cap: usize,
    fp_overflow: u64,
    samples: Vec<Value>,
    violations: Vec<Violation>,
    inconclusive: Vec<String>,
    notes: Map<String, Value>,
    current: Option<std::fs::File>,
    start: Instant,
    pub scale: f64,
}

static CASE_START_MS: AtomicU64 = AtomicU64::new(0); // 0 = no case running
static CASE_START_CPU_MS: AtomicU64 = AtomicU64::new(0);
static CASE_LIMIT_MS: AtomicU64 = AtomicU64::new(0);
static CASE_DESC: Mutex<String> = Mutex::new(String::new());
static T0: Mutex<Option<Instant>> = Mutex::new(None);

fn now_ms() -> u64 {
    let g = T0.lock().unwrap();
    g.map(|t| t.elapsed().as_millis() as u64 + 1).unwrap_or(1)
}

pub fn process_cpu_ms() -> u64 {
    unsafe {
        let mut ts: libc::timespec = std::mem::zeroed();
        libc::clock_gettime(libc::CLOCK_PROCESS_CPUTIME_ID, &mut ts);
        ts.tv_sec as u64 * 1000 + ts.tv_nsec as u64 / 1_000_000
    }
}

pub fn thread_cpu_us() -> u64 {
    unsafe {
        let mut ts: libc::timespec = std::mem::zeroed();
        libc::clock_gettime(libc::CLOCK_THREAD_CPUTIME_ID, &mut ts);
        ts.tv_sec as u64 * 1_000_000 + ts.tv_nsec as u64 / 1000
    }
}

impl Ctx {
    /// Parse `--seed S --tier quick|thorough --shard i/n --out dir [--replay file] [--scale f]`
    pub fn from_args(prop: &str) -> Ctx {
        let args: Vec<String> = std::env::args().collect();
        let mut seed = 1u64;
        let mut tier = Tier::Quick;
        let mut shard = 0usize;
        let mut nshards = 1usize;
        let mut out = PathBuf::from(".");
        let mut replay = None;
        let mut scale = 1.0f64;
        let mut i = 1;
        while i < args.len() {
            match args[i].as_str() {
                "--seed" => {
                    seed = args[i + 1].parse().expect("seed");
                    i += 1;
                }
                "--tier" => {
                    tier = if args[i + 1] == "thorough" { Tier::Thorough } else { Tier::Quick };
                    i += 1;
                }
                "--shard" => {
                    let (a, b) = args[i + 1].split_once('/').expect("shard i/n");
                    shard = a.parse().unwrap();
                    nshards = b.parse().unwrap();
                    i += 1;
                }
                "--out" => {
                    out = PathBuf::from(&args[i + 1]);
                    i += 1;
                }
                "--replay" => {
                    replay = Some(PathBuf::from(&args[i + 1]));
                    i += 1;
                }
                "--scale" => {
                    scale = args[i + 1].parse().unwrap();
                    i += 1;
                }
                other => panic!("unknown arg {other}"),
            }
            i += 1;
        }
        *T0.lock().unwrap() = Some(Instant::now());
        std::fs::create_dir_all(&out).ok();
        crate::panics::install();
        let rng = Rng::derive(seed, prop, shard as u64);
        let ctx = Ctx {
            prop: prop.to_string(),
            seed,
            tier,
            shard,
            nshards,
            out,
            replay,
            rng,
            evaluations: 0,
            stats: BTreeMap::new(),
            maxes: BTreeMap::new(),
            sets: BTreeMap::new(),
            fps: HashSet::new(),
            fp_cap: 60_000,
            fp_overflow: 0,
            samples: vec![],
            violations: vec![],
            inconclusive: vec![],
            notes: Map::new(),
            current: None,
            start: Instant::now(),
            scale,
        };
        ctx.spawn_watchdog();
        ctx
    }

    pub fn quick(&self) -> bool {
        self.tier == Tier::Quick
    }

    /// number of cases this shard should run, given the total for the tier
    pub fn budget(&self, quick_total: u64, thorough_total: u64) -> u64 {
        let t = if self.quick() { quick_total } else { thorough_total };
        let t = (t as f64 * self.scale) as u64;
        let per = t / self.nshards as u64;
        let extra = if (self.shard as u64) < t % self.nshards as u64 { 1 } else { 0 };
        per + extra
    }

    /// does this shard own item `idx` of an enumerated (non-random) space?
    pub fn owns(&self, idx: u64) -> bool {
        idx % self.nshards as u64 == self.shard as u64
    }

    pub fn sub_rng(&self, label: &str, idx: u64) -> Rng {
        Rng::derive(self.seed ^ (self.shard as u64).wrapping_mul(0xA24BAED4963EE407), label, idx)
    }

    pub fn eval(&mut self) {
        self.evaluations += 1;
    }
    pub fn evals(&mut self, n: u64) {
        self.evaluations += n;
    }
    pub fn count(&mut self, key: &str) {
        *self.stats.entry(key.to_string()).or_insert(0) += 1;
    }
    pub fn add(&mut self, key: &str, n: u64) {
        *self.stats.entry(key.to_string()).or_insert(0) += n;
    }
    pub fn stat(&self, key: &str) -> u64 {
        self.stats.get(key).copied().unwrap_or(0)
    }
    pub fn max(&mut self, key: &str, n: u64) {
        let e = self.maxes.entry(key.to_string()).or_insert(0);
        if n > *e {
            *e = n;
        }
    }
    pub fn set_insert(&mut self, set: &str, item: &str) {
        let s = self.sets.entry(set.to_string()).or_default();
        if s.len() < 5000 {
            s.insert(item.to_string());
        }
    }
    pub fn has_in_set(&self, set: &str, item: &str) -> bool {
        self.sets.get(set).map(|s| s.contains(item)).unwrap_or(false)
    }
    pub fn set_len(&self, set: &str) -> usize {
        self.sets.get(set).map(|s| s.len()).unwrap_or(0)
    }
    /// record a distinct non-trivial case fingerprint
    pub fn nontrivial(&mut self, fp: u64) {
        if self.fps.len() < self.fp_cap {
            self.fps.insert(fp);
        } else if !self.fps.contains(&fp) {
            self.fp_overflow += 1;
        }
    }
    pub fn sample(&mut self, v: Value) {
        if self.samples.len() < 4 {
            self.samples.push(v);
        }
    }
    pub fn want_sample(&self) -> bool {
        self.samples.len() < 4
    }
    pub fn note(&mut self, k: &str, v: Value) {
        self.notes.insert(k.to_string(), v);
    }
    pub fn inconclusive(&mut self, why: &str) {
        if self.inconclusive.len() < 20 {
            self.inconclusive.push(why.to_string());
        }
    }
    pub fn violation(&mut self, sig: &str, what: &str, replay: Value) {
        for v in self.violations.iter_mut() {
            if v.sig == sig {
                v.count += 1;
                return;
            }
        }
        if self.violations.len() < 200 {
            self.violations.push(Violation { sig: sig.to_string(), what: what.to_string(), replay, count: 1 });
        }
    }
    pub fn n_violations(&self) -> usize {
        self.violations.len()
    }

    /// Announce the case about to run (crash / hang witness). `limit_s` = CPU-seconds
    /// bound for a single case (0 = none).
    pub fn begin_case(&mut self, desc: &str, limit_s: u64) {
        if self.current.is_none() {
            let p = self.out.join(format!("shard-{}.current", self.shard));
            self.current = std::fs::File::create(p).ok();
        }
        if let Some(f) = self.current.as_mut() {
            let _ = f.seek(SeekFrom::Start(0));
            let _ = f.write_all(desc.as_bytes());
            let _ = f.set_len(desc.len() as u64);
        }
        if limit_s > 0 {
            if let Ok(mut d) = CASE_DESC.lock() {
                d.clear();
                d.push_str(desc);
            }
            CASE_START_CPU_MS.store(process_cpu_ms(), Ordering::SeqCst);
            CASE_LIMIT_MS.store(limit_s * 1000, Ordering::SeqCst);
            CASE_START_MS.store(now_ms(), Ordering::SeqCst);
        }
    }
    pub fn end_case(&mut self) {
        CASE_START_MS.store(0, Ordering::SeqCst);
        if let Some(f) = self.current.as_mut() {
            let _ = f.set_len(0);
        }
    }

    fn spawn_watchdog(&self) {
        let hang_path = self.out.join(format!("shard-{}.hang", self.shard));
        std::thread::spawn(move || loop {
            std::thread::sleep(std::time::Duration::from_millis(250));
            let st = CASE_START_MS.load(Ordering::SeqCst);
            if st == 0 {
                continue;
            }
            let lim = CASE_LIMIT_MS.load(Ordering::SeqCst);
            let cpu = process_cpu_ms().saturating_sub(CASE_START_CPU_MS.load(Ordering::SeqCst));
            // decided on CPU time actually consumed since the case began, not on wall-clock
            if cpu > lim {
                // re-check that the same case is still running
                if CASE_START_MS.load(Ordering::SeqCst) != st {
                    continue;
                }
                let d = CASE_DESC.lock().map(|d| d.clone()).unwrap_or_default();
                let _ = std::fs::write(&hang_path, d);
                std::process::exit(97);
            }
        });
    }

    pub fn elapsed_s(&self) -> f64 {
        self.start.elapsed().as_secs_f64()
    }

    /// write the shard result and exit(0)
    pub fn finish(self) -> ! {
        let fps: Vec<u64> = self.fps.iter().copied().collect();
        let v = json!({
            "property": self.prop,
            "shard": self.shard,
            "nshards": self.nshards,
            "seed": self.seed,
            "evaluations": self.evaluations,
            "stats": self.stats,
            "max": self.maxes,
            "sets": self.sets,
            "fps": fps,
            "fp_overflow": self.fp_overflow,
            "samples": self.samples,
            "violations": self.violations.iter().map(|v| json!({"sig": v.sig, "what": v.what, "replay": v.replay, "count": v.count})).collect::<Vec<_>>(),
            "inconclusive": self.inconclusive,
            "notes": self.notes,
            "wall_s": self.start.elapsed().as_secs_f64(),
        });
        let p = self.out.join(format!("shard-{}.json", self.shard));
        std::fs::write(&p, serde_json::to_vec(&v).unwrap()).expect("write shard result");
        std::process::exit(0)
    }
}

pub fn hexs(b: &[u8]) -> String {
    hex::encode(b)
}

/// hex, truncated for samples / messages
pub fn hex_short(b: &[u8]) -> String {
    if b.len() <= 96 {
        hex::encode(b)
    } else {
        format!("{}..({} bytes)", hex::encode(&b[..96]), b.len())
    }
}
