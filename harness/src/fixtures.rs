//! Validation fixtures: the 24 "successful_*" transactions of `pallas-validate/tests`
//! (byron.rs, shelley_ma.rs, alonzo.rs, babbage.rs, conway.rs) re-created inside the harness.
//!
//! # What is here
//!
//! * tx bytes are loaded at run time from `pv::corpus::test_data()/<file>.tx` (hex);
//! * UTxO tables are copied from the tests into a harness-owned plain representation
//!   ([`UtxoEntry`] / [`Out`]); the transaction inputs they belong to are located in the tx
//!   with the own CBOR walker (`pv::cbor`), not with pallas;
//! * protocol-parameter tables are copied mechanically into `fixture_params.rs`; the
//!   [`EnvSpec`] of a fixture is cloneable and all its fields are public, so a check can move
//!   limits (`max_transaction_size`, `minfee_a/b`, `max_tx_ex_units` ...) before validating;
//! * pallas values (`UTxOs`, `Environment`, `CertState`, `MultiEraTx`) are only built inside
//!   [`Fixture::validate`] & friends.
//!
//! # API (stable; additive changes only)
//!
//! ```text
//! all_fixtures() -> Vec<Fixture>              the 24 fixtures, original keys and witnesses
//! usable_rekeyed() -> Vec<Fixture>            re-keyed fixtures whose unmutated form is accepted
//! rekey_report() -> Vec<(String, String)>     (fixture name, "ok" | why it is not usable re-keyed)
//!
//! Fixture { name, file, era, tx_bytes, utxo: Vec<UtxoEntry>, env: EnvSpec, cert: CertPreset,
//!           keys: Vec<OwnKey>, rekeyed: bool, plutus: bool }
//!   .rekeyed() -> Fixture                     payment / required-signer / native-script key hashes replaced by
//!                                             hashes of harness-owned Ed25519 keys, witnesses regenerated
//!   .resign(&tx) -> Vec<u8>                   regenerate the signature of every vkey witness whose key is
//!                                             harness-owned, over the (new) tx id; same length, other bytes identical
//!   .validate(&tx) -> Verdict                 validate_tx with the fixture's UTxO / env / cert-state preset
//!   .validate_with(&tx, &utxo, &env) -> Verdict
//!   .validate_full(&tx, &utxo, &env, &mut CertState) -> Verdict
//!   .cert_state() -> CertState                the preset the test installs before validating
//!   .style() -> OutStyle                      how UTxO outputs of this fixture are encoded
//!   .own_key(hash) / .key_for_vk(vk)
//!
//! Verdict::{Accepted, Rejected(String /* Debug of ValidationError */), Undecodable(String), Panicked(PanicInfo)}
//!   .accepted() .rejected_with("FeeBelowMin") .label()
//!
//! UtxoStore::new(&[UtxoEntry], OutStyle) / .utxos() -> UTxOs<'_>      (for checks that call pallas themselves)
//! EnvSpec::build() -> Environment;  EnvSpec::{minfee, max_tx_size, set_max_tx_size, max_ex_units, set_max_ex_units, set_minfee}
//!
//! tx-level helpers (bytes -> bytes, built on pv::cbor parse -> to_node -> edit -> to_vec; every
//! byte that is not edited stays identical):
//!   tx_parts(&tx) -> TxParts {body, wits, valid, aux: spans}        (post-Byron layout; Byron: body = tx, wits = witnesses)
//!   tx_id(&tx) -> [u8;32]                      ref Blake2b-256 of the body span
//!   ledger_size(&tx) -> usize                  1 + |body| + |wits| + (|aux| or 1)   (Byron: |tx| + |witnesses|)
//!   body_get(&tx,key) -> Option<Node>;  body_set(&tx,key,Option<Node>) -> Vec<u8>
//!   wits_get(&tx,key) -> Option<Node>;  wits_set(&tx,key,Option<Node>) -> Vec<u8>
//!   fee(&tx) -> u64; set_fee(&tx,fee)
//!   output_count(&tx); output_coin(&tx,i) -> u64; set_output_coin(&tx,i,coin)
//!   vkey_witnesses(&tx) -> Vec<(vk,sig)>;  set_vkey_witnesses(&tx,&[(vk,sig)])
//!   redeemers(&tx) -> Option<Node>;  set_redeemers(&tx,Node)
//!   aux(&tx) -> Option<Vec<u8>>;  set_aux(&tx,Option<Node>)   (raw slot only)
//!   set_aux_with_hash(&tx,Option<Node>)       also sets / removes body key 7
//!   replace_body(&tx,Node) / replace_wits(&tx,Node)
//!   sign(sk, msg) -> [u8;64];  vk_of(sk);  key_hash(vk) -> [u8;28];  dalek_verify(vk,msg,sig) -> bool
//!   script_data_hash_for(&fixture, &tx) -> Option<[u8;32]>  own computation from the fixture's cost models
//! ```
//!
//! State on the pinned tree (`cargo run --bin fixtures_report`): all 24 originals are accepted; all 22
//! post-Byron fixtures are accepted re-keyed; the 2 Byron fixtures are not re-keyed (`rekeyed()` returns them
//! unchanged). The own script-integrity hash reproduces the on-chain hash of every Plutus fixture except
//! babbage13 (preprod: pallas' Babbage validator uses built-in language views, not the parameter table).
//!
//! A fixture is *usable* for mutation checks only if the unmutated re-keyed version is accepted
//! by `validate_tx`; `rekey_report()` says which are not and why. Those are still returned by
//! `all_fixtures()` for the checks that need no re-signing (limits moved in the environment).

use crate::cbor::{self, Item, Node};
use crate::fixture_params as fp;
use crate::panics::{self, PanicInfo};
use crate::refhash;
use pallas_primitives::alonzo as pa;
use pallas_traverse::{Era, MultiEraInput, MultiEraOutput, MultiEraTx};
use pallas_validate::phase1::validate_tx;
use pallas_validate::utils::{AccountState, CertState, Environment, MultiEraProtocolParameters, PoolParam, UTxOs};
use std::borrow::Cow;

// ---------------------------------------------------------------------------------------
// plain representation
// ---------------------------------------------------------------------------------------

#[derive(Clone, Debug, PartialEq)]
pub enum Datum {
    None,
    Hash([u8; 32]),
    /// CBOR of the plutus data
    Inline(Vec<u8>),
}

#[derive(Clone, Debug, PartialEq)]
pub struct Out {
    /// raw address bytes (Shelley-style) or, for `OutStyle::Byron`, the Byron address payload
    pub address: Vec<u8>,
    pub coin: u64,
    /// (policy id, [(asset name, quantity)])
    pub assets: Vec<(Vec<u8>, Vec<(Vec<u8>, u64)>)>,
    pub datum: Datum,
    /// (language tag 0 = native, 1..3 = Plutus V1..V3, script bytes as they appear inside the reference)
    pub script_ref: Option<(u8, Vec<u8>)>,
}

#[derive(Clone, Copy, Debug, PartialEq, Eq)]
pub enum Role {
    Input,
    Collateral,
    Reference,
}

#[derive(Clone, Debug, PartialEq)]
pub struct UtxoEntry {
    pub role: Role,
    pub tx_hash: [u8; 32],
    pub index: u64,
    pub out: Out,
}

#[derive(Clone, Copy, Debug, PartialEq, Eq)]
pub enum OutStyle {
    Byron,
    /// `[address, value, ?datum_hash]`, MultiEraOutput::AlonzoCompatible(_, Era::Alonzo) as in the tests
    AlonzoCompat,
    /// post-Alonzo map form decoded as a Babbage output
    Babbage,
    /// post-Alonzo map form decoded as a Conway output
    Conway,
}

#[derive(Clone, Debug)]
pub struct EnvSpec {
    pub params: MultiEraProtocolParameters,
    pub prot_magic: u32,
    pub block_slot: u64,
    pub network_id: u8,
    /// (treasury, reserves)
    pub acnt: Option<(u64, u64)>,
}

impl EnvSpec {
    pub fn build(&self) -> Environment {
        Environment {
            prot_params: self.params.clone(),
            prot_magic: self.prot_magic,
            block_slot: self.block_slot,
            network_id: self.network_id,
            acnt: self.acnt.map(|(t, r)| AccountState { treasury: t, reserves: r }),
        }
    }
    /// (a, b) of the linear fee a*size + b
    pub fn minfee(&self) -> (u64, u64) {
        match &self.params {
            MultiEraProtocolParameters::Byron(p) => (p.multiplier, p.summand),
            MultiEraProtocolParameters::Shelley(p) => (p.minfee_a as u64, p.minfee_b as u64),
            MultiEraProtocolParameters::Alonzo(p) => (p.minfee_a as u64, p.minfee_b as u64),
            MultiEraProtocolParameters::Babbage(p) => (p.minfee_a as u64, p.minfee_b as u64),
            MultiEraProtocolParameters::Conway(p) => (p.minfee_a as u64, p.minfee_b as u64),
            _ => (0, 0),
        }
    }
    pub fn set_minfee(&mut self, a: u64, b: u64) {
        match &mut self.params {
            MultiEraProtocolParameters::Byron(p) => {
                p.multiplier = a;
                p.summand = b;
            }
            MultiEraProtocolParameters::Shelley(p) => {
                p.minfee_a = a as u32;
                p.minfee_b = b as u32;
            }
            MultiEraProtocolParameters::Alonzo(p) => {
                p.minfee_a = a as u32;
                p.minfee_b = b as u32;
            }
            MultiEraProtocolParameters::Babbage(p) => {
                p.minfee_a = a as u32;
                p.minfee_b = b as u32;
            }
            MultiEraProtocolParameters::Conway(p) => {
                p.minfee_a = a as u32;
                p.minfee_b = b as u32;
            }
            _ => {}
        }
    }
    pub fn max_tx_size(&self) -> u64 {
        match &self.params {
            MultiEraProtocolParameters::Byron(p) => p.max_tx_size,
            MultiEraProtocolParameters::Shelley(p) => p.max_transaction_size as u64,
            MultiEraProtocolParameters::Alonzo(p) => p.max_transaction_size as u64,
            MultiEraProtocolParameters::Babbage(p) => p.max_transaction_size as u64,
            MultiEraProtocolParameters::Conway(p) => p.max_transaction_size as u64,
            _ => 0,
        }
    }
    pub fn set_max_tx_size(&mut self, n: u64) {
        match &mut self.params {
            MultiEraProtocolParameters::Byron(p) => p.max_tx_size = n,
            MultiEraProtocolParameters::Shelley(p) => p.max_transaction_size = n as u32,
            MultiEraProtocolParameters::Alonzo(p) => p.max_transaction_size = n as u32,
            MultiEraProtocolParameters::Babbage(p) => p.max_transaction_size = n as u32,
            MultiEraProtocolParameters::Conway(p) => p.max_transaction_size = n as u32,
            _ => {}
        }
    }
    /// (mem, steps) of max_tx_ex_units
    pub fn max_ex_units(&self) -> Option<(u64, u64)> {
        match &self.params {
            MultiEraProtocolParameters::Alonzo(p) => Some((p.max_tx_ex_units.mem, p.max_tx_ex_units.steps)),
            MultiEraProtocolParameters::Babbage(p) => Some((p.max_tx_ex_units.mem, p.max_tx_ex_units.steps)),
            MultiEraProtocolParameters::Conway(p) => Some((p.max_tx_ex_units.mem, p.max_tx_ex_units.steps)),
            _ => None,
        }
    }
    pub fn set_max_ex_units(&mut self, mem: u64, steps: u64) {
        match &mut self.params {
            MultiEraProtocolParameters::Alonzo(p) => {
                p.max_tx_ex_units.mem = mem;
                p.max_tx_ex_units.steps = steps;
            }
            MultiEraProtocolParameters::Babbage(p) => {
                p.max_tx_ex_units.mem = mem;
                p.max_tx_ex_units.steps = steps;
            }
            MultiEraProtocolParameters::Conway(p) => {
                p.max_tx_ex_units.mem = mem;
                p.max_tx_ex_units.steps = steps;
            }
            _ => {}
        }
    }
    /// cost model (list of integers) of Plutus language `lang` (1..3) in the parameter table
    pub fn cost_model(&self, lang: u8) -> Option<Vec<i64>> {
        match &self.params {
            MultiEraProtocolParameters::Alonzo(p) => {
                if lang == 1 {
                    p.cost_models_for_script_languages.iter().next().map(|(_, v)| v.clone())
                } else {
                    None
                }
            }
            MultiEraProtocolParameters::Babbage(p) => match lang {
                1 => p.cost_models_for_script_languages.plutus_v1.clone(),
                2 => p.cost_models_for_script_languages.plutus_v2.clone(),
                _ => None,
            },
            MultiEraProtocolParameters::Conway(p) => match lang {
                1 => p.cost_models_for_script_languages.plutus_v1.clone(),
                2 => p.cost_models_for_script_languages.plutus_v2.clone(),
                3 => p.cost_models_for_script_languages.plutus_v3.clone(),
                _ => None,
            },
            _ => None,
        }
    }
}

/// certificate-state entries the test installs before validating
#[derive(Clone, Debug, Default)]
pub struct CertPreset {
    /// stake key hashes registered with 0 rewards
    pub rewards: Vec<[u8; 28]>,
    /// registered pool ids (with an arbitrary parameter record)
    pub pools: Vec<[u8; 28]>,
}

#[derive(Clone, Debug)]
pub struct OwnKey {
    pub sk: [u8; 32],
    pub vk: [u8; 32],
    pub hash: [u8; 28],
    /// the key of the original transaction this one replaces
    pub old_vk: [u8; 32],
    pub old_hash: [u8; 28],
}

#[derive(Clone, Debug)]
pub struct Fixture {
    pub name: &'static str,
    pub file: &'static str,
    pub era: Era,
    pub tx_bytes: Vec<u8>,
    pub utxo: Vec<UtxoEntry>,
    pub env: EnvSpec,
    pub cert: CertPreset,
    pub keys: Vec<OwnKey>,
    pub rekeyed: bool,
    /// the transaction carries redeemers
    pub plutus: bool,
}

#[derive(Debug)]
pub enum Verdict {
    Accepted,
    /// `format!("{:?}", ValidationError)`
    Rejected(String),
    Undecodable(String),
    Panicked(PanicInfo),
}

impl Verdict {
    pub fn accepted(&self) -> bool {
        matches!(self, Verdict::Accepted)
    }
    pub fn rejected_with(&self, needle: &str) -> bool {
        matches!(self, Verdict::Rejected(e) if e.contains(needle))
    }
    pub fn rejected(&self) -> bool {
        matches!(self, Verdict::Rejected(_))
    }
    pub fn label(&self) -> String {
        match self {
            Verdict::Accepted => "accepted".into(),
            Verdict::Rejected(e) => format!("rejected:{e}"),
            Verdict::Undecodable(_) => "undecodable".into(),
            Verdict::Panicked(p) => format!("panic:{}", p.site()),
        }
    }
}

// ---------------------------------------------------------------------------------------
// keys, hashes (dalek + reference Blake2b; nothing of pallas-crypto)
// ---------------------------------------------------------------------------------------

pub fn vk_of(sk: &[u8; 32]) -> [u8; 32] {
    ed25519_dalek::SigningKey::from_bytes(sk).verifying_key().to_bytes()
}
pub fn sign(sk: &[u8; 32], msg: &[u8]) -> [u8; 64] {
    use ed25519_dalek::Signer;
    ed25519_dalek::SigningKey::from_bytes(sk).sign(msg).to_bytes()
}
pub fn key_hash(vk: &[u8]) -> [u8; 28] {
    refhash::blake2b_224(vk)
}
/// RFC 8032 verification with ed25519-dalek (strict about lengths: anything but 32 / 64 bytes is invalid)
pub fn dalek_verify(vk: &[u8], msg: &[u8], sig: &[u8]) -> bool {
    use ed25519_dalek::Verifier;
    let (Ok(vk), Ok(sig)): (Result<[u8; 32], _>, Result<[u8; 64], _>) = (vk.try_into(), sig.try_into()) else {
        return false;
    };
    let Ok(vk) = ed25519_dalek::VerifyingKey::from_bytes(&vk) else {
        return false;
    };
    vk.verify(msg, &ed25519_dalek::Signature::from_bytes(&sig)).is_ok()
}

// ---------------------------------------------------------------------------------------
// tx layout
// ---------------------------------------------------------------------------------------

#[derive(Clone, Debug)]
pub struct TxParts {
    pub top: Item,
    /// index of the children in `top`
    pub body: Item,
    pub wits: Item,
    /// validity flag (Alonzo and later)
    pub valid: Option<Item>,
    /// auxiliary data slot (None for Byron); the slot may hold `null`
    pub aux: Option<Item>,
    pub byron: bool,
}

pub fn tx_parts(tx: &[u8]) -> Option<TxParts> {
    let top = cbor::parse(tx).ok()?;
    if top.major != 4 {
        return None;
    }
    let c = &top.children;
    match c.len() {
        2 => Some(TxParts { body: c[0].clone(), wits: c[1].clone(), valid: None, aux: None, byron: true, top }),
        3 => Some(TxParts { body: c[0].clone(), wits: c[1].clone(), valid: None, aux: Some(c[2].clone()), byron: false, top }),
        4 => Some(TxParts { body: c[0].clone(), wits: c[1].clone(), valid: Some(c[2].clone()), aux: Some(c[3].clone()), byron: false, top }),
        _ => None,
    }
}

/// reference transaction id: Blake2b-256 of the bytes of the body as they appear in `tx`
pub fn tx_id(tx: &[u8]) -> [u8; 32] {
    let p = tx_parts(tx).expect("tx layout");
    refhash::blake2b_256(p.body.bytes(tx))
}

/// The ledger's size of a transaction for fee / max-size purposes:
/// post-Byron = the serialisation without the validity flag = 1 (array head) + |body| + |witness set|
/// + (|aux data| or 1 for `null`); Byron = |tx| + |witnesses| (the TxAux payload without its array head, as the
/// Byron fee rule of pallas-validate counts it).
pub fn ledger_size(tx: &[u8]) -> usize {
    let p = tx_parts(tx).expect("tx layout");
    let b = p.body.end - p.body.start;
    let w = p.wits.end - p.wits.start;
    if p.byron {
        return b + w;
    }
    let a = match &p.aux {
        Some(a) if !a.is_null() => a.end - a.start,
        _ => 1,
    };
    1 + b + w + a
}

fn top_node(tx: &[u8]) -> (Vec<Node>, u8) {
    let top = cbor::parse(tx).expect("tx cbor");
    match cbor::to_node(tx, &top) {
        Node::Array(xs, w) => (xs, w),
        Node::ArrayIndef(xs) => (xs, 255),
        _ => panic!("tx is not an array"),
    }
}
fn from_top(xs: Vec<Node>, w: u8) -> Vec<u8> {
    if w == 255 {
        Node::ArrayIndef(xs).to_vec()
    } else {
        Node::Array(xs, w).to_vec()
    }
}

pub fn replace_body(tx: &[u8], body: Node) -> Vec<u8> {
    let (mut xs, w) = top_node(tx);
    xs[0] = body;
    from_top(xs, w)
}
pub fn replace_wits(tx: &[u8], wits: Node) -> Vec<u8> {
    let (mut xs, w) = top_node(tx);
    xs[1] = wits;
    from_top(xs, w)
}

fn map_entries(n: &Node) -> Option<&Vec<(Node, Node)>> {
    match n {
        Node::Map(xs, _) | Node::MapIndef(xs) => Some(xs),
        _ => None,
    }
}
fn map_entries_mut(n: &mut Node) -> Option<&mut Vec<(Node, Node)>> {
    match n {
        Node::Map(xs, _) | Node::MapIndef(xs) => Some(xs),
        _ => None,
    }
}
fn key_of(n: &Node) -> Option<u64> {
    match n {
        Node::UInt(v, _) => Some(*v),
        _ => None,
    }
}
/// value of the entry with unsigned key `k` of a map node
pub fn map_get(n: &Node, k: u64) -> Option<&Node> {
    map_entries(n)?.iter().find(|(key, _)| key_of(key) == Some(k)).map(|(_, v)| v)
}
/// set / replace / remove (None) the entry with unsigned key `k`; new keys are inserted in ascending key order
pub fn map_set(n: &mut Node, k: u64, v: Option<Node>) {
    let xs = map_entries_mut(n).expect("map node");
    let pos = xs.iter().position(|(key, _)| key_of(key) == Some(k));
    match (pos, v) {
        (Some(i), Some(v)) => xs[i].1 = v,
        (Some(i), None) => {
            xs.remove(i);
        }
        (None, Some(v)) => {
            let at = xs.iter().position(|(key, _)| key_of(key).map(|x| x > k).unwrap_or(false)).unwrap_or(xs.len());
            xs.insert(at, (Node::u(k), v));
        }
        (None, None) => {}
    }
}
/// elements of an array node, looking through tag 258
pub fn elems(n: &Node) -> Option<&Vec<Node>> {
    match n {
        Node::Array(xs, _) | Node::ArrayIndef(xs) => Some(xs),
        Node::Tag(258, _, inner) => elems(inner),
        _ => None,
    }
}
pub fn elems_mut(n: &mut Node) -> Option<&mut Vec<Node>> {
    match n {
        Node::Array(xs, _) | Node::ArrayIndef(xs) => Some(xs),
        Node::Tag(258, _, inner) => elems_mut(inner),
        _ => None,
    }
}
pub fn node_u64(n: &Node) -> Option<u64> {
    key_of(n)
}
pub fn node_bytes(n: &Node) -> Option<Vec<u8>> {
    match n {
        Node::Bytes(b, _) => Some(b.clone()),
        Node::BytesIndef(cs) => Some(cs.concat()),
        _ => None,
    }
}

pub fn body_node(tx: &[u8]) -> Node {
    top_node(tx).0.swap_remove(0)
}
pub fn wits_node(tx: &[u8]) -> Node {
    top_node(tx).0.swap_remove(1)
}
pub fn body_get(tx: &[u8], key: u64) -> Option<Node> {
    map_get(&body_node(tx), key).cloned()
}
pub fn body_set(tx: &[u8], key: u64, v: Option<Node>) -> Vec<u8> {
    let mut b = body_node(tx);
    map_set(&mut b, key, v);
    replace_body(tx, b)
}
pub fn wits_get(tx: &[u8], key: u64) -> Option<Node> {
    map_get(&wits_node(tx), key).cloned()
}
pub fn wits_set(tx: &[u8], key: u64, v: Option<Node>) -> Vec<u8> {
    let mut b = wits_node(tx);
    map_set(&mut b, key, v);
    replace_wits(tx, b)
}

pub fn fee(tx: &[u8]) -> u64 {
    body_get(tx, 2).and_then(|n| node_u64(&n)).expect("fee")
}
pub fn set_fee(tx: &[u8], fee: u64) -> Vec<u8> {
    body_set(tx, 2, Some(Node::u(fee)))
}

pub fn output_count(tx: &[u8]) -> usize {
    body_get(tx, 1).and_then(|n| elems(&n).map(|x| x.len())).unwrap_or(0)
}
fn value_slot(out: &mut Node) -> Option<&mut Node> {
    match out {
        Node::Array(xs, _) | Node::ArrayIndef(xs) => xs.get_mut(1),
        Node::Map(..) | Node::MapIndef(..) => map_entries_mut(out)?.iter_mut().find(|(k, _)| key_of(k) == Some(1)).map(|(_, v)| v),
        _ => None,
    }
}
fn coin_slot(val: &mut Node) -> Option<&mut Node> {
    match val {
        Node::UInt(..) => Some(val),
        Node::Array(xs, _) | Node::ArrayIndef(xs) => xs.get_mut(0),
        _ => None,
    }
}
pub fn output_coin(tx: &[u8], i: usize) -> u64 {
    let mut outs = body_get(tx, 1).expect("outputs");
    let o = elems_mut(&mut outs).and_then(|x| x.get_mut(i)).expect("output index");
    let c = value_slot(o).and_then(coin_slot).expect("coin slot");
    node_u64(c).expect("coin")
}
pub fn set_output_coin(tx: &[u8], i: usize, coin: u64) -> Vec<u8> {
    let mut outs = body_get(tx, 1).expect("outputs");
    {
        let o = elems_mut(&mut outs).and_then(|x| x.get_mut(i)).expect("output index");
        let c = value_slot(o).and_then(coin_slot).expect("coin slot");
        *c = Node::u(coin);
    }
    body_set(tx, 1, Some(outs))
}

/// (vkey, signature) of every entry of witness-set key 0, in order
pub fn vkey_witnesses(tx: &[u8]) -> Vec<(Vec<u8>, Vec<u8>)> {
    let Some(n) = wits_get(tx, 0) else { return vec![] };
    let mut out = vec![];
    for w in elems(&n).cloned().unwrap_or_default() {
        if let Some(xs) = elems(&w) {
            if xs.len() == 2 {
                out.push((node_bytes(&xs[0]).unwrap_or_default(), node_bytes(&xs[1]).unwrap_or_default()));
            }
        }
    }
    out
}
/// replace the list of vkey witnesses (keeps the container style of the existing list; an empty list removes key 0)
pub fn set_vkey_witnesses(tx: &[u8], ws: &[(Vec<u8>, Vec<u8>)]) -> Vec<u8> {
    let items: Vec<Node> = ws.iter().map(|(vk, sig)| Node::arr(vec![Node::bytes(vk), Node::bytes(sig)])).collect();
    let new = match wits_get(tx, 0) {
        Some(Node::Tag(258, w, inner)) => Node::Tag(
            258,
            w,
            Box::new(match *inner {
                Node::ArrayIndef(_) => Node::ArrayIndef(items),
                _ => Node::arr(items),
            }),
        ),
        Some(Node::ArrayIndef(_)) => Node::ArrayIndef(items),
        _ => Node::arr(items),
    };
    wits_set(tx, 0, if ws.is_empty() { None } else { Some(new) })
}
pub fn redeemers(tx: &[u8]) -> Option<Node> {
    wits_get(tx, 5)
}
pub fn set_redeemers(tx: &[u8], r: Node) -> Vec<u8> {
    wits_set(tx, 5, Some(r))
}
/// raw bytes of the auxiliary data (None if the slot holds null / the era has none)
pub fn aux(tx: &[u8]) -> Option<Vec<u8>> {
    let p = tx_parts(tx)?;
    let a = p.aux?;
    if a.is_null() {
        None
    } else {
        Some(a.bytes(tx).to_vec())
    }
}
pub fn set_aux(tx: &[u8], a: Option<Node>) -> Vec<u8> {
    let (mut xs, w) = top_node(tx);
    let last = xs.len() - 1;
    xs[last] = a.unwrap_or(Node::Null);
    from_top(xs, w)
}
/// set / remove auxiliary data and keep body key 7 (auxiliary data hash) in step
pub fn set_aux_with_hash(tx: &[u8], a: Option<Node>) -> Vec<u8> {
    let h = a.as_ref().map(|n| Node::bytes(&refhash::blake2b_256(&n.to_vec())));
    let t = set_aux(tx, a);
    body_set(&t, 7, h)
}

// ---------------------------------------------------------------------------------------
// UTxO encoding and pallas values
// ---------------------------------------------------------------------------------------

fn value_node(o: &Out) -> Node {
    if o.assets.is_empty() {
        Node::u(o.coin)
    } else {
        let ma = o
            .assets
            .iter()
            .map(|(p, xs)| (Node::bytes(p), Node::map(xs.iter().map(|(n, q)| (Node::bytes(n), Node::u(*q))).collect())))
            .collect();
        Node::arr(vec![Node::u(o.coin), Node::map(ma)])
    }
}

impl Out {
    pub fn key(address_hex: &str, coin: u64) -> Out {
        Out { address: hex::decode(address_hex).expect("address hex"), coin, assets: vec![], datum: Datum::None, script_ref: None }
    }
    pub fn with_asset(mut self, policy_hex: &str, name_hex: &str, q: u64) -> Out {
        let p = hex::decode(policy_hex).unwrap();
        let n = hex::decode(name_hex).unwrap();
        if let Some(e) = self.assets.iter_mut().find(|(pp, _)| *pp == p) {
            e.1.push((n, q));
        } else {
            self.assets.push((p, vec![(n, q)]));
        }
        self
    }
    pub fn with_datum_hash(mut self, h: &str) -> Out {
        self.datum = Datum::Hash(hex::decode(h).unwrap().try_into().unwrap());
        self
    }
    pub fn with_inline_datum(mut self, cbor_hex: &str) -> Out {
        self.datum = Datum::Inline(hex::decode(cbor_hex).unwrap());
        self
    }
    pub fn with_script_ref(mut self, lang: u8, script_hex: &str) -> Out {
        self.script_ref = Some((lang, hex::decode(script_hex.trim()).unwrap()));
        self
    }
    /// CBOR of the output in the given style (own encoder)
    pub fn encode(&self, style: OutStyle) -> Vec<u8> {
        match style {
            OutStyle::Byron => Node::arr(vec![
                Node::arr(vec![Node::tag(24, Node::bytes(&self.address)), Node::u(refhash::crc32(&self.address) as u64)]),
                Node::u(self.coin),
            ])
            .to_vec(),
            OutStyle::AlonzoCompat => {
                let mut xs = vec![Node::bytes(&self.address), value_node(self)];
                if let Datum::Hash(h) = &self.datum {
                    xs.push(Node::bytes(h));
                }
                Node::arr(xs).to_vec()
            }
            OutStyle::Babbage | OutStyle::Conway => {
                let mut m = vec![(Node::u(0), Node::bytes(&self.address)), (Node::u(1), value_node(self))];
                match &self.datum {
                    Datum::None => {}
                    Datum::Hash(h) => m.push((Node::u(2), Node::arr(vec![Node::u(0), Node::bytes(h)]))),
                    Datum::Inline(d) => m.push((Node::u(2), Node::arr(vec![Node::u(1), Node::tag(24, Node::bytes(d))]))),
                }
                if let Some((lang, s)) = &self.script_ref {
                    let inner = if *lang == 0 { Node::arr(vec![Node::u(0), Node::raw(s)]) } else { Node::arr(vec![Node::u(*lang as u64), Node::bytes(s)]) };
                    m.push((Node::u(3), Node::tag(24, Node::bytes(&inner.to_vec()))));
                }
                Node::map(m).to_vec()
            }
        }
    }
    /// payment credential of a Shelley-style address: (is_key, 28-byte hash)
    pub fn payment_cred(&self) -> Option<(bool, [u8; 28])> {
        payment_cred(&self.address)
    }
}

/// payment credential of raw Shelley address bytes: (is_key, hash); None for Byron / stake addresses
pub fn payment_cred(addr: &[u8]) -> Option<(bool, [u8; 28])> {
    if addr.len() < 29 {
        return None;
    }
    let t = addr[0] >> 4;
    if t > 7 {
        return None;
    }
    Some((t & 1 == 0, addr[1..29].try_into().unwrap()))
}

/// Owns the encoded outputs so that pallas' borrowed `UTxOs` can be built from it.
pub struct UtxoStore {
    items: Vec<(bool, [u8; 32], u64, Vec<u8>)>,
    era: Era,
}

impl UtxoStore {
    pub fn new(entries: &[UtxoEntry], style: OutStyle) -> UtxoStore {
        let era = match style {
            OutStyle::Byron => Era::Byron,
            OutStyle::AlonzoCompat => Era::Alonzo,
            OutStyle::Babbage => Era::Babbage,
            OutStyle::Conway => Era::Conway,
        };
        UtxoStore { items: entries.iter().map(|e| (style == OutStyle::Byron, e.tx_hash, e.index, e.out.encode(style))).collect(), era }
    }
    /// later entries with the same input overwrite earlier ones (as `HashMap::insert` does in the tests)
    pub fn utxos(&self) -> Result<UTxOs<'_>, String> {
        let mut m = UTxOs::new();
        for (byron, h, ix, bytes) in &self.items {
            let input = if *byron {
                MultiEraInput::Byron(Box::new(Cow::Owned(pallas_primitives::byron::TxIn::Variant0(pallas_codec::utils::CborWrap((
                    pallas_crypto::hash::Hash::<32>::from(*h),
                    *ix as u32,
                ))))))
            } else {
                MultiEraInput::AlonzoCompatible(Box::new(Cow::Owned(pa::TransactionInput { transaction_id: pallas_crypto::hash::Hash::<32>::from(*h), index: *ix })))
            };
            let out = MultiEraOutput::decode(self.era, bytes).map_err(|e| format!("harness-built output does not decode: {e}"))?;
            m.insert(input, out);
        }
        Ok(m)
    }
}

// ---------------------------------------------------------------------------------------
// Fixture
// ---------------------------------------------------------------------------------------

impl Fixture {
    pub fn style(&self) -> OutStyle {
        match self.era {
            Era::Byron => OutStyle::Byron,
            Era::Shelley | Era::Allegra | Era::Mary | Era::Alonzo => OutStyle::AlonzoCompat,
            Era::Babbage => OutStyle::Babbage,
            _ => OutStyle::Conway,
        }
    }

    pub fn cert_state(&self) -> CertState {
        let mut cs = CertState::default();
        for r in &self.cert.rewards {
            cs.dstate.rewards.insert(pa::StakeCredential::AddrKeyhash(pallas_crypto::hash::Hash::<28>::from(*r)), 0);
        }
        for p in &self.cert.pools {
            cs.pstate.pool_params.insert(
                pallas_crypto::hash::Hash::<28>::from(*p),
                PoolParam {
                    vrf_keyhash: pallas_crypto::hash::Hash::<32>::from([0x1e; 32]),
                    pledge: 1_000_000_000,
                    cost: 340_000_000,
                    margin: pa::RationalNumber { numerator: 3, denominator: 100 },
                    reward_account: vec![0xe1; 29].into(),
                    pool_owners: vec![],
                    relays: vec![],
                    pool_metadata: None,
                },
            );
        }
        cs
    }

    pub fn validate(&self, tx: &[u8]) -> Verdict {
        self.validate_with(tx, &self.utxo, &self.env)
    }

    pub fn validate_with(&self, tx: &[u8], utxo: &[UtxoEntry], env: &EnvSpec) -> Verdict {
        let mut cs = self.cert_state();
        self.validate_full(tx, utxo, env, &mut cs)
    }

    /// `validate_tx(tx, 0, env, utxos, cert_state)`; panics are caught and reported as a verdict
    pub fn validate_full(&self, tx: &[u8], utxo: &[UtxoEntry], env: &EnvSpec, cs: &mut CertState) -> Verdict {
        let store = UtxoStore::new(utxo, self.style());
        let era = self.era;
        let envv = env.build();
        let r = panics::catch(move || {
            let utxos = match store.utxos() {
                Ok(u) => u,
                Err(e) => return Verdict::Undecodable(e),
            };
            let metx = match MultiEraTx::decode_for_era(era, tx) {
                Ok(t) => t,
                Err(e) => return Verdict::Undecodable(format!("{e}")),
            };
            match validate_tx(&metx, 0, &envv, &utxos, cs) {
                Ok(()) => Verdict::Accepted,
                Err(e) => Verdict::Rejected(format!("{e:?}")),
            }
        });
        match r {
            Ok(v) => v,
            Err(p) => Verdict::Panicked(p),
        }
    }

    pub fn own_key(&self, hash: &[u8]) -> Option<&OwnKey> {
        self.keys.iter().find(|k| k.hash[..] == *hash)
    }
    pub fn key_for_vk(&self, vk: &[u8]) -> Option<&OwnKey> {
        self.keys.iter().find(|k| k.vk[..] == *vk)
    }

    /// Regenerate the signature of every vkey witness made with a harness-owned key, over the
    /// reference tx id of `tx`. Witnesses of foreign keys are left untouched.
    pub fn resign(&self, tx: &[u8]) -> Vec<u8> {
        let id = tx_id(tx);
        let ws = vkey_witnesses(tx);
        if ws.is_empty() {
            return tx.to_vec();
        }
        let mut n = wits_get(tx, 0).expect("witnesses");
        if let Some(list) = elems_mut(&mut n) {
            for w in list.iter_mut() {
                if let Node::Array(xs, _) | Node::ArrayIndef(xs) = w {
                    if xs.len() == 2 {
                        if let Some(vk) = node_bytes(&xs[0]) {
                            if let Some(k) = self.key_for_vk(&vk) {
                                let s = sign(&k.sk, &id);
                                xs[1] = match &xs[1] {
                                    Node::Bytes(_, w) => Node::Bytes(s.to_vec(), *w),
                                    _ => Node::bytes(&s),
                                };
                            }
                        }
                    }
                }
            }
        }
        wits_set(tx, 0, Some(n))
    }

    /// Re-key: every key of a vkey witness of the transaction is replaced by a harness-owned key;
    /// its 28-byte hash is substituted wherever it occurs in the body, in the witness-set native
    /// scripts and in the UTxO addresses / certificate preset; hashes of native scripts that changed
    /// are substituted likewise (script addresses, policy ids); witnesses are regenerated.
    pub fn rekeyed(&self) -> Fixture {
        let mut f = self.clone();
        if self.era == Era::Byron || self.rekeyed {
            return f;
        }
        let ws = vkey_witnesses(&self.tx_bytes);
        let mut subs: Vec<(Vec<u8>, Vec<u8>)> = vec![];
        let mut keys = vec![];
        for (i, (vk, _)) in ws.iter().enumerate() {
            if vk.len() != 32 {
                continue;
            }
            let mut seed = b"pv-fixture-key:".to_vec();
            seed.extend_from_slice(self.name.as_bytes());
            seed.push(b'#');
            seed.extend_from_slice(&(i as u32).to_be_bytes());
            let sk = refhash::blake2b_256(&seed);
            let nvk = vk_of(&sk);
            let k = OwnKey { sk, vk: nvk, hash: key_hash(&nvk), old_vk: vk.clone().try_into().unwrap(), old_hash: key_hash(vk) };
            subs.push((k.old_hash.to_vec(), k.hash.to_vec()));
            keys.push(k);
        }
        // --- body: blanket substitution of the key hashes
        let parts = tx_parts(&self.tx_bytes).expect("layout");
        let mut body = parts.body.bytes(&self.tx_bytes).to_vec();
        for (a, b) in &subs {
            replace_all(&mut body, a, b);
        }
        // --- witness set: vkeys, native scripts
        let mut wn = wits_node(&self.tx_bytes);
        let mut script_subs: Vec<(Vec<u8>, Vec<u8>)> = vec![];
        if let Some(Node::Map(..) | Node::MapIndef(..)) = Some(&wn) {
            if let Some(mut v) = map_get(&wn, 0).cloned() {
                if let Some(list) = elems_mut(&mut v) {
                    for w in list.iter_mut() {
                        if let Node::Array(xs, _) | Node::ArrayIndef(xs) = w {
                            if let Some(vk) = node_bytes(&xs[0]) {
                                if let Some(k) = keys.iter().find(|k| k.old_vk[..] == vk[..]) {
                                    xs[0] = Node::bytes(&k.vk);
                                }
                            }
                        }
                    }
                }
                map_set(&mut wn, 0, Some(v));
            }
            if let Some(mut v) = map_get(&wn, 1).cloned() {
                if let Some(list) = elems_mut(&mut v) {
                    for s in list.iter_mut() {
                        let old = s.to_vec();
                        let mut new = old.clone();
                        for (a, b) in &subs {
                            replace_all(&mut new, a, b);
                        }
                        if new != old {
                            let oh = refhash::blake2b_224(&[&[0u8][..], &old].concat());
                            let nh = refhash::blake2b_224(&[&[0u8][..], &new].concat());
                            script_subs.push((oh.to_vec(), nh.to_vec()));
                            *s = Node::raw(&new);
                        }
                    }
                }
                map_set(&mut wn, 1, Some(v));
            }
        }
        for (a, b) in &script_subs {
            replace_all(&mut body, a, b);
        }
        let bi = cbor::parse(&body).expect("body still parses");
        let t = replace_body(&self.tx_bytes, cbor::to_node(&body, &bi));
        let t = replace_wits(&t, wn);
        // --- UTxO and preset
        let all: Vec<(Vec<u8>, Vec<u8>)> = subs.iter().chain(script_subs.iter()).cloned().collect();
        for e in f.utxo.iter_mut() {
            for (a, b) in &all {
                replace_all(&mut e.out.address, a, b);
                for (p, names) in e.out.assets.iter_mut() {
                    replace_all(p, a, b);
                    // asset names that embed a key hash (babbage12) follow the body, where they were substituted too
                    for (n, _) in names.iter_mut() {
                        replace_all(n, a, b);
                    }
                }
            }
        }
        for r in f.cert.rewards.iter_mut().chain(f.cert.pools.iter_mut()) {
            for (a, b) in &all {
                if r[..] == a[..] {
                    r.copy_from_slice(b);
                }
            }
        }
        f.keys = keys;
        f.rekeyed = true;
        f.tx_bytes = f.resign(&t);
        f
    }
}

fn replace_all(hay: &mut [u8], from: &[u8], to: &[u8]) -> usize {
    assert_eq!(from.len(), to.len());
    if from.is_empty() || hay.len() < from.len() {
        return 0;
    }
    let mut n = 0;
    let mut i = 0;
    while i + from.len() <= hay.len() {
        if &hay[i..i + from.len()] == from {
            hay[i..i + from.len()].copy_from_slice(to);
            i += from.len();
            n += 1;
        } else {
            i += 1;
        }
    }
    n
}

// ---------------------------------------------------------------------------------------
// script integrity hash (own computation; used to keep a transaction acceptable after its
// redeemers were edited — it is not an oracle)
// ---------------------------------------------------------------------------------------

fn int_node(v: i64) -> Node {
    Node::int(v as i128)
}

/// language views encoding for the given languages (1..3) from the fixture's cost models
pub fn language_views(env: &EnvSpec, langs: &[u8]) -> Option<Vec<u8>> {
    let mut entries: Vec<(Vec<u8>, Vec<u8>)> = vec![];
    for l in langs {
        let cm = env.cost_model(*l)?;
        match l {
            1 => {
                // key = bytes(0x00); value = bytes(indefinite list of ints)
                let inner = Node::ArrayIndef(cm.iter().map(|v| int_node(*v)).collect()).to_vec();
                entries.push((Node::bytes(&[0]).to_vec(), Node::bytes(&inner).to_vec()));
            }
            _ => {
                entries.push((Node::u((*l - 1) as u64).to_vec(), Node::arr(cm.iter().map(|v| int_node(*v)).collect()).to_vec()));
            }
        }
    }
    // canonical: shorter keys first, then bytewise
    entries.sort_by(|a, b| (a.0.len(), &a.0).cmp(&(b.0.len(), &b.0)));
    let mut out = vec![];
    cbor::head(5, entries.len() as u64, 0, &mut out);
    for (k, v) in entries {
        out.extend(k);
        out.extend(v);
    }
    Some(out)
}

/// languages (1..3) of the Plutus scripts a transaction uses: witness-set keys 3, 6, 7 and
/// reference scripts of the fixture's reference-input UTxO entries
pub fn tx_languages(f: &Fixture, tx: &[u8]) -> Vec<u8> {
    let mut l = vec![];
    let w = wits_node(tx);
    for (key, lang) in [(3u64, 1u8), (6, 2), (7, 3)] {
        if map_get(&w, key).and_then(elems).map(|x| !x.is_empty()).unwrap_or(false) {
            l.push(lang);
        }
    }
    for e in &f.utxo {
        if e.role == Role::Reference {
            if let Some((lang, _)) = &e.out.script_ref {
                if *lang > 0 && !l.contains(lang) {
                    l.push(*lang);
                }
            }
        }
    }
    l.sort();
    l
}

/// Script integrity hash of `tx` = Blake2b-256(redeemers bytes ‖ datums bytes (if any) ‖ language views),
/// with the redeemer / datum bytes exactly as they appear in `tx`.
pub fn script_data_hash_for(f: &Fixture, tx: &[u8]) -> Option<[u8; 32]> {
    let p = tx_parts(tx)?;
    let red = p.wits.map_get_uint(5)?;
    let langs = tx_languages(f, tx);
    let views = language_views(&f.env, &langs)?;
    let mut pre = red.bytes(tx).to_vec();
    if let Some(d) = p.wits.map_get_uint(4) {
        pre.extend_from_slice(d.bytes(tx));
    }
    pre.extend(views);
    Some(refhash::blake2b_256(&pre))
}

// ---------------------------------------------------------------------------------------
// the table
// ---------------------------------------------------------------------------------------

fn load_tx(file: &str) -> Vec<u8> {
    let p = crate::corpus::test_data().join(format!("{file}.tx"));
    let s = std::fs::read_to_string(&p).unwrap_or_else(|e| panic!("{}: {e}", p.display()));
    hex::decode(s.trim()).expect("tx hex")
}

/// (tx hash, index) of the inputs of body key `key` (0 inputs, 13 collateral, 18 reference inputs), in body order
pub fn body_inputs(tx: &[u8], key: u64) -> Vec<([u8; 32], u64)> {
    let Some(p) = tx_parts(tx) else { return vec![] };
    let mut out = vec![];
    if p.byron {
        // tx = [inputs, outputs, attrs]; input = [0, 24(bytes .cbor [txid, ix])]
        if key != 0 {
            return out;
        }
        if let Some(ins) = p.body.children.first() {
            for i in &ins.children {
                if i.children.len() == 2 && i.children[1].major == 6 {
                    let inner = i.children[1].children[0].str_payload(tx);
                    if let Ok(it) = cbor::parse(&inner) {
                        if it.children.len() == 2 {
                            let h = it.children[0].str_payload(&inner);
                            if h.len() == 32 {
                                out.push((h.try_into().unwrap(), it.children[1].arg));
                            }
                        }
                    }
                }
            }
        }
        return out;
    }
    let Some(mut ins) = p.body.map_get_uint(key) else { return out };
    if ins.major == 6 {
        ins = &ins.children[0];
    }
    for i in &ins.children {
        if i.children.len() == 2 {
            let h = i.children[0].str_payload(tx);
            if h.len() == 32 {
                out.push((h.try_into().unwrap(), i.children[1].arg));
            }
        }
    }
    out
}

fn zip_entries(tx: &[u8], role: Role, outs: Vec<Out>) -> Vec<UtxoEntry> {
    let key = match role {
        Role::Input => 0,
        Role::Collateral => 13,
        Role::Reference => 18,
    };
    body_inputs(tx, key).into_iter().zip(outs).map(|((h, i), o)| UtxoEntry { role, tx_hash: h, index: i, out: o }).collect()
}

fn h28(s: &str) -> [u8; 28] {
    hex::decode(s).unwrap().try_into().unwrap()
}

const ACNT: Option<(u64, u64)> = Some((261_254_564_000_000, 0));

fn byron_env() -> EnvSpec {
    EnvSpec {
        params: MultiEraProtocolParameters::Byron(pallas_validate::utils::ByronProtParams {
            block_version: (1, 0, 0),
            start_time: 1506203091,
            script_version: 0,
            slot_duration: 20000,
            max_block_size: 2000000,
            max_header_size: 2000000,
            max_tx_size: 4096,
            max_proposal_size: 700,
            mpc_thd: 20000000000000,
            heavy_del_thd: 300000000000,
            update_vote_thd: 1000000000000,
            update_proposal_thd: 100000000000000,
            update_implicit: 10000,
            soft_fork_rule: (900000000000000, 600000000000000, 50000000000000),
            summand: 155381,
            multiplier: 44,
            unlock_stake_epoch: 18446744073709551615,
        }),
        prot_magic: 764824073,
        block_slot: 6341,
        network_id: 1,
        acnt: None,
    }
}

fn shelley_params(max_tx: u32, mary3: bool) -> pallas_validate::utils::ShelleyProtParams {
    let one = pa::RationalNumber { numerator: 1, denominator: 1 };
    let r = |n, d| pa::RationalNumber { numerator: n, denominator: d };
    pallas_validate::utils::ShelleyProtParams {
        system_start: chrono::DateTime::parse_from_rfc3339("2017-09-23T21:44:51Z").unwrap(),
        epoch_length: 432000,
        slot_length: 1,
        minfee_b: 155381,
        minfee_a: 44,
        max_block_body_size: 65536,
        max_transaction_size: max_tx,
        max_block_header_size: 1100,
        key_deposit: 2000000,
        pool_deposit: 500000000,
        maximum_epoch: 18,
        desired_number_of_stake_pools: if mary3 { 500 } else { 150 },
        pool_pledge_influence: if mary3 { r(3, 10) } else { one.clone() },
        expansion_rate: if mary3 { r(3, 1000) } else { one.clone() },
        treasury_growth_rate: if mary3 { r(2, 10) } else { one.clone() },
        decentralization_constant: if mary3 { r(0, 1) } else { one },
        extra_entropy: pa::Nonce { variant: pa::NonceVariant::NeutralNonce, hash: None },
        protocol_version: if mary3 { (4, 0) } else { (0, 2) },
        min_utxo_value: 1000000,
        min_pool_cost: 340000000,
    }
}

fn shelley_env(max_tx: u32, slot: u64) -> EnvSpec {
    EnvSpec { params: MultiEraProtocolParameters::Shelley(shelley_params(max_tx, false)), prot_magic: 764824073, block_slot: slot, network_id: 1, acnt: ACNT }
}

fn mk(name: &'static str, file: &'static str, era: Era, env: EnvSpec, groups: Vec<(Role, Vec<Out>)>) -> Fixture {
    let tx_bytes = load_tx(file);
    let mut utxo = vec![];
    for (role, outs) in groups {
        utxo.extend(zip_entries(&tx_bytes, role, outs));
    }
    let plutus = !tx_parts(&tx_bytes).map(|p| p.byron).unwrap_or(true) && wits_get(&tx_bytes, 5).is_some();
    Fixture { name, file, era, tx_bytes, utxo, env, cert: CertPreset::default(), keys: vec![], rekeyed: false, plutus }
}

/// The 24 fixtures with their original keys and witnesses, in the order of the test files.
pub fn all_fixtures() -> Vec<Fixture> {
    use Role::*;
    let mut v = vec![];
    let main = 764824073u32;

    // ---- byron.rs -------------------------------------------------------------------
    v.push(mk(
        "byron::successful_mainnet_tx_with_genesis_utxos",
        "byron2",
        Era::Byron,
        byron_env(),
        vec![(Input, vec![Out::key("83581CDC7E4DD6A44886816DEC9A4B2021056A8FCAF500C09E316028F2985FA002", 19999000000)])],
    ));
    v.push(mk(
        "byron::successful_mainnet_tx",
        "byron1",
        Era::Byron,
        byron_env(),
        vec![(
            Input,
            vec![Out::key(
                "83581cff66e7549ee0706abe5ce63ba325f792f2c1145d918baf563db2b457a101581e581cca3e553c9c63c5927480e7434620200eb3a162ef0b6cf6f671ba925100",
                19999000000,
            )],
        )],
    ));

    // ---- shelley_ma.rs ----------------------------------------------------------------
    v.push(mk(
        "shelley_ma::successful_mainnet_shelley_tx",
        "shelley1",
        Era::Shelley,
        shelley_env(4096, 5281340),
        vec![(Input, vec![Out::key("0129bb156d52d014bb444a14138cbee36044c6faed37d0c2d49d2358315c465cbf8c5536970e8a29bb7adcda0d663b20007d481813694c64ef", 2332267427205)])],
    ));
    v.push(mk(
        "shelley_ma::successful_mainnet_shelley_tx_with_script",
        "shelley2",
        Era::Shelley,
        shelley_env(4096, 5281340),
        vec![(Input, vec![Out::key("7165c197d565e88a20885e535f93755682444d3c02fd44dd70883fe89e", 2000000)])],
    ));
    {
        // shelley4.tx with only its second vkey witness kept (the test removes the other one)
        let mut f = mk(
            "shelley_ma::successful_mainnet_shelley_tx_with_changed_script",
            "shelley4",
            Era::Shelley,
            shelley_env(4096, 5281340),
            vec![(Input, vec![Out::key("711245ed0e86bc58578e4b06958d5b0ef856ed42e5ee8fa811e0745aba", 2000000)])],
        );
        let ws = vkey_witnesses(&f.tx_bytes);
        if ws.len() > 1 {
            f.tx_bytes = set_vkey_witnesses(&f.tx_bytes, &[ws[1].clone()]);
        }
        v.push(f);
    }
    v.push(mk(
        "shelley_ma::successful_mainnet_shelley_tx_with_metadata",
        "shelley3",
        Era::Shelley,
        shelley_env(4096, 5281340),
        vec![(Input, vec![Out::key("61c96001f4a4e10567ac18be3c47663a00a858f51c56779e94993d30ef", 10000000)])],
    ));
    v.push(mk(
        "shelley_ma::successful_mainnet_mary_tx_with_minting",
        "mary1",
        Era::Mary,
        shelley_env(4096, 5281340),
        vec![(Input, vec![Out::key("611489ac0c22c04abc9c6de7f95d71e1ba2c95c9b4e2f6f2900f682285", 3500000)])],
    ));
    {
        let mut f = mk(
            "shelley_ma::successful_mainnet_mary_tx_with_pool_reg",
            "mary2",
            Era::Mary,
            shelley_env(4096, 5281340),
            vec![(Input, vec![Out::key("018e8f7a7073b8a95a4c1f1cf412b1042fca4945b89eb11754b3481b29fb2b631db76384f64dd94b47f97fc8c2a206764c17a1de7da2f70e83", 1_507_817_955)])],
        );
        f.cert.rewards.push(h28("FB2B631DB76384F64DD94B47F97FC8C2A206764C17A1DE7DA2F70E83"));
        v.push(f);
    }
    {
        let env = EnvSpec {
            params: MultiEraProtocolParameters::Shelley(shelley_params(16384, true)),
            prot_magic: main,
            block_slot: 29_035_358,
            network_id: 1,
            acnt: Some((374_930_989_230_000, 12_618_536_190_580_000)),
        };
        let mut f = mk(
            "shelley_ma::successful_mainnet_mary_tx_with_stk_deleg",
            "mary3",
            Era::Mary,
            env,
            vec![(Input, vec![Out::key("014faace6b1de3b825da7c7f4308917822049cdedb5868f7623f892d4e39cf0461807b986a6477205e376dac280d7f150eb497025f67c49757", 627_760_000)])],
        );
        f.cert.pools.push(h28("59EBE72AE96462018FBE04633100F90B3066688D85F00F3BD254707F"));
        v.push(f);
    }
    v.push(mk(
        "shelley_ma::successful_mainnet_allegra_tx_with_mir",
        "allegra1",
        Era::Mary, // the test decodes allegra1.tx with Era::Mary
        shelley_env(16384, 19282133),
        vec![(Input, vec![Out::key("61b651c2062463499961b9cd594da399a5ec910fceb5c63f9eb55a224a", 96_400_000)])],
    ));

    // ---- alonzo.rs ---------------------------------------------------------------------
    let alonzo_env = |p: pallas_validate::utils::AlonzoProtParams, slot: u64| EnvSpec { params: MultiEraProtocolParameters::Alonzo(p), prot_magic: main, block_slot: slot, network_id: 1, acnt: ACNT };
    v.push(mk(
        "alonzo::successful_mainnet_tx",
        "alonzo1",
        Era::Alonzo,
        alonzo_env(fp::alonzo::mk_params_epoch_334(), 44237276),
        vec![(Input, vec![Out::key("018c9ae79bca586ac36dcfdbbf4d2826c685a6969411c338c14973cc7f7bdb37706cd03711fe64747f8cfcfd574c7445cc0378781e77a8cc00", 1549646822)])],
    ));
    {
        let a = "01c81ffcbc08ff49965d74f90c391541ff1cc2b043ffe41c81d840be8729f2ae5ed49a1734823ba37fd09923f5f7d494ae0efa23dd98ce02da";
        v.push(mk(
            "alonzo::successful_mainnet_tx_with_plutus_script",
            "alonzo2",
            Era::Alonzo,
            alonzo_env(fp::alonzo::mk_params_epoch_300(), 58924928),
            vec![
                (
                    Input,
                    vec![
                        Out::key("714a59ebd93ea53d1bbf7f82232c7b012700a0cf4bb78d879dabb1a20a", 1724100)
                            .with_asset("b001076b34a87e7d48ec46703a6f50f93289582ad9bdbeff7f1e3295", "4879706562656173747332343233", 1)
                            .with_datum_hash("0C125EDC771B9E590D96B3C7B01CC24F906BD552CECE6D861BFA5F23281E0BBE"),
                        Out::key(a, 20292207),
                        Out::key(a, 20292207),
                        Out::key(a, 29792207),
                        Out::key(a, 29792207),
                        Out::key(a, 61233231),
                        Out::key(a, 20292207),
                    ],
                ),
                (Collateral, vec![Out::key(a, 5000000)]),
            ],
        ));
    }
    v.push(mk(
        "alonzo::successful_mainnet_tx_with_minting",
        "alonzo3",
        Era::Alonzo,
        alonzo_env(fp::alonzo::mk_params_epoch_300(), 6447035),
        vec![(Input, vec![Out::key("612e137a27a74aca6caff726fb9da65c371ad2d7f1cc8645648fcc11d1", 100107582)])],
    ));
    v.push(mk(
        "alonzo::successful_mainnet_tx_with_metadata",
        "alonzo4",
        Era::Alonzo,
        alonzo_env(fp::alonzo::mk_params_epoch_300(), 6447038),
        vec![(Input, vec![Out::key("01f64b141bfa7761c00a48a137b15d433af02c9275dbf52ea95566b59cb4f05ecc9fd8c9066ef7fd907db854c76caf6462b132ce133dc7cc44", 3224834468)])],
    ));

    // ---- babbage.rs ----------------------------------------------------------------------
    let bab_env = |p: pallas_validate::utils::BabbageProtParams, magic: u32, slot: u64, net: u8| EnvSpec { params: MultiEraProtocolParameters::Babbage(p), prot_magic: magic, block_slot: slot, network_id: net, acnt: ACNT };
    v.push(mk(
        "babbage::successful_mainnet_tx",
        "babbage3",
        Era::Babbage,
        bab_env(fp::babbage::mk_mainnet_params_epoch_365(), main, 72316896, 1),
        vec![(Input, vec![Out::key("011be1f490912af2fc39f8e3637a2bade2ecbebefe63e8bfef10989cd6f593309a155b0ebb45ff830747e61f98e5b77feaf7529ce9df351382", 103324335)])],
    ));
    {
        let a = "01f1e126304308006938d2e8571842ff87302fff95a037b3fd838451b8b3c9396d0680d912487139cb7fc85aa279ea70e8cdacee4c6cae40fd";
        v.push(mk(
            "babbage::successful_mainnet_tx_with_plutus_v1_script",
            "babbage4",
            Era::Babbage,
            bab_env(fp::babbage::mk_mainnet_params_epoch_365(), main, 72317003, 1),
            vec![
                (
                    Input,
                    vec![
                        Out::key("11a55f409501bf65805bb0dc76f6f9ae90b61e19ed870bc0025681360881728e7ed4cf324e1323135e7e6d931f01e30792d9cdf17129cb806d", 25000000)
                            .with_datum_hash("3e8c4b1d396bb8132e5097f5a2f012d97900cbc496a3745db4226cea4cb66465"),
                        Out::key(a, 1795660).with_asset("787f0c946b98153500edc0a753e65457250544da8486b17c85708135", "506572666563744c6567656e64617279446572705365616c", 1),
                    ],
                ),
                (Collateral, vec![Out::key(a, 5000000)]),
            ],
        ));
    }
    {
        let a = "01a7d37f1d43d1197a994d95b3ce15d9af3b4697cc7cdf9bcd1f81688d3499ac08066b36bc6c2d86a21243b940e84dbe5cac3fab5f76ab9229";
        let s = "119068a7a3f008803edac87af1619860f2cdcde40c26987325ace138ad81728e7ed4cf324e1323135e7e6d931f01e30792d9cdf17129cb806d";
        v.push(mk(
            "babbage::successful_mainnet_tx_with_plutus_v2_script",
            "babbage7",
            Era::Babbage,
            bab_env(fp::babbage::mk_mainnet_params_epoch_380(), main, 78797255, 1),
            vec![
                (
                    Input,
                    vec![
                        Out::key(s, 1318860)
                            .with_asset("95ab9a125c900c14cf7d39093e3577b0c8e39c9f7548a8301a28ee2d", "4164614964696f7431313235", 1)
                            .with_datum_hash("d75ad82787a8d45b85c156c97736d2c6525d6b3a09b5d6297d1b45c6a63bccd3"),
                        Out::key(a, 231630402),
                    ],
                ),
                (Collateral, vec![Out::key(a, 5000000)]),
                (Reference, vec![Out::key(s, 40000000).with_script_ref(2, include_str!("../data/babbage7_refscript_v2.hex"))]),
            ],
        ));
    }
    {
        let a = "60b5f82aaebdc942bb0c8774dc712338b82e5133fe69ebbc3b6312098e";
        v.push(mk(
            "babbage::successful_preview_tx_with_plutus_v2_script",
            "babbage12",
            Era::Babbage,
            bab_env(fp::babbage::mk_preview_params_epoch_30(), 2, 2592005, 0),
            vec![
                (
                    Input,
                    vec![
                        Out::key(a, 20000000),
                        Out::key("708D73F125395466F1D68570447E4F4B87CD633C6728F3802B2DCFCA20", 2000000)
                            .with_asset("7F5AC1926607F0D6C000E088CEA67A1EDFDF5CB21F8B7F73412319B0", "B5F82AAEBDC942BB0C8774DC712338B82E5133FE69EBBC3B6312098E", 1)
                            .with_datum_hash("923918E403BF43C34B4EF6B48EB2EE04BABED17320D8D1B9FF9AD086E86F44EC"),
                    ],
                ),
                (Collateral, vec![Out::key(a, 20000000)]),
            ],
        ));
    }
    {
        let a = "0028B3E2B8259FAABB566361635C4F8BBF31FE1388B15565F917C33C85700D57DE08040F55793195E7ED87E693DBFCF4A62CF3597B1BC93567";
        v.push(mk(
            "babbage::successful_preprod_tx_with_plutus_v2_script",
            "babbage13",
            Era::Babbage,
            bab_env(fp::babbage::mk_preprod_params_epoch_100(), 1, 41558438, 0),
            vec![
                (
                    Input,
                    vec![
                        Out::key("30DAB18165AE50399C5E477E0CFB38D0B35B32C75F7EB150EBC7874A5EDAB18165AE50399C5E477E0CFB38D0B35B32C75F7EB150EBC7874A5E", 2000000)
                            .with_asset("CCFC2EFE9C1C360EF60D7D2E35CDD359FAD373A62A8905345F8A8BC4", "4F7261636C65546872656164546F6B656E", 1)
                            .with_inline_datum("D8799FD8799F1A1DCD650019300BFF1B0000018B2B449D97581C28B3E2B8259FAABB566361635C4F8BBF31FE1388B15565F917C33C85FF"),
                        Out::key(a, 86112645),
                    ],
                ),
                (Collateral, vec![Out::key(a, 70884589)]),
            ],
        ));
    }
    {
        let a = "0121316dbc84420a5ee7461438483564c41fae876029319b3ee641fe4422339411d2df4c9c7c50b3d8f88db98d475e9d1bccd4244b412fbe5e";
        v.push(mk(
            "babbage::successful_mainnet_tx_with_minting",
            "babbage5",
            Era::Babbage,
            bab_env(fp::babbage::mk_mainnet_params_epoch_365(), main, 72316896, 1),
            vec![
                (
                    Input,
                    vec![
                        Out::key("719b85d5e8611945505f078aeededcbed1d6ca11053f61e3f9d999fe44", 2034438)
                            .with_asset("D195CA7DB29F0F13A00CAC7FCA70426FF60BAD4E1E87D3757FAE8484", "323738333331333737", 1)
                            .with_asset("E4214B7CCE62AC6FBBA385D164DF48E157EAE5863521B4B67CA71D86", "39B9B709AC8605FC82116A2EFC308181BA297C11950F0F350001E28F0E50868B", 42555569)
                            .with_datum_hash("BB6F798DF7709327DB5BEB6C7A20BA5F170DE1841DDC38F98E192CD36E857B22"),
                        Out::key(a, 197714998).with_asset("29D222CE763455E3D7A09A665CE554F00AC89D2E99A1A83D267170C6", "4D494E", 4913396066),
                    ],
                ),
                (Collateral, vec![Out::key(a, 5000000)]),
            ],
        ));
    }
    {
        let a = "01eda33318624ade03d53b7e954713d9e69440891f0d02e823267b610d6018dc6c7989a46ec26822425a3d2bac60eec2682a022740361ed957";
        v.push(mk(
            "babbage::successful_mainnet_tx_with_metadata",
            "babbage6",
            Era::Babbage,
            bab_env(fp::babbage::mk_mainnet_params_epoch_365(), main, 72316896, 1),
            vec![
                (
                    Input,
                    vec![
                        Out::key("11A55F409501BF65805BB0DC76F6F9AE90B61E19ED870BC0025681360881728E7ED4CF324E1323135E7E6D931F01E30792D9CDF17129CB806D", 1689618)
                            .with_asset("dc8f23301b0e3d71af9ac5d1559a060271aa6cf56ac98bdaeea19e18", "303734", 1)
                            .with_datum_hash("d5b534d58e737861bac5135b5242297b3465c146cc0ddae0bd52547c52305ee7"),
                        Out::key(a, 5000000),
                    ],
                ),
                (Collateral, vec![Out::key(a, 5000000)]),
            ],
        ));
    }

    // ---- conway.rs --------------------------------------------------------------------------
    let con_env = |p: pallas_validate::utils::ConwayProtParams, magic: u32, slot: u64, net: u8| EnvSpec { params: MultiEraProtocolParameters::Conway(p), prot_magic: magic, block_slot: slot, network_id: net, acnt: ACNT };
    v.push(mk(
        "conway::successful_mainnet_tx",
        "conway3",
        Era::Conway,
        con_env(fp::conway::mk_mainnet_params_epoch_365(), main, 137806612, 1),
        vec![(Input, vec![Out::key("015c5c318d01f729e205c95eb1b02d623dd10e78ea58f72d0c13f892b2e8904edc699e2f0ce7b72be7cec991df651a222e2ae9244eb5975cba", 20000000)])],
    ));
    {
        let a = "005c5c318d01f729e205c95eb1b02d623dd10e78ea58f72d0c13f892b2e8904edc699e2f0ce7b72be7cec991df651a222e2ae9244eb5975cba";
        let s = "70faae60072c45d121b6e58ae35c624693ee3dad9ea8ed765eb6f76f9f";
        v.push(mk(
            "conway::successful_preview_tx_with_plutus_v3_script",
            "conway4",
            Era::Conway,
            con_env(fp::conway::mk_preview_params_epoch_380(), 2, 74735000, 0),
            vec![
                (Input, vec![Out::key(a, 2554710123), Out::key(s, 100270605).with_inline_datum("d8799f4568656c6c6fff")]),
                (Reference, vec![Out::key(s, 1624870).with_script_ref(3, include_str!("../data/conway_refscript_v3.hex"))]),
                (Collateral, vec![Out::key(a, 2554439518)]),
            ],
        ));
    }
    {
        let s = "71faae60072c45d121b6e58ae35c624693ee3dad9ea8ed765eb6f76f9f";
        v.push(mk(
            "conway::successful_mainnet_tx_with_plutus_v3_script",
            "conway5",
            Era::Conway,
            con_env(fp::conway::mk_mainnet_params_epoch_380(), main, 149807950, 1),
            vec![
                (Input, vec![Out::key(s, 2000000).with_inline_datum("d8799f4568656c6c6fff")]),
                (Reference, vec![Out::key(s, 1624870).with_script_ref(3, include_str!("../data/conway_refscript_v3.hex"))]),
                (Collateral, vec![Out::key("015c5c318d01f729e205c95eb1b02d623dd10e78ea58f72d0c13f892b2e8904edc699e2f0ce7b72be7cec991df651a222e2ae9244eb5975cba", 49731771)]),
            ],
        ));
    }
    v
}

/// (fixture name, "ok" | reason) for the unmutated re-keyed version of every fixture
pub fn rekey_report() -> Vec<(String, String)> {
    all_fixtures()
        .iter()
        .map(|f| {
            let why = if f.era == Era::Byron {
                "not re-keyed: Byron witnesses (extended public keys hashed into the address root) are not regenerated; usable only where no re-signing is needed".to_string()
            } else {
                let r = f.rekeyed();
                match r.validate(&r.tx_bytes) {
                    Verdict::Accepted => "ok".to_string(),
                    other => format!("re-keyed version not accepted: {}", other.label()),
                }
            };
            (f.name.to_string(), why)
        })
        .collect()
}

/// re-keyed fixtures whose unmutated form `validate_tx` accepts
pub fn usable_rekeyed() -> Vec<Fixture> {
    all_fixtures()
        .iter()
        .filter(|f| f.era != Era::Byron)
        .map(|f| f.rekeyed())
        .filter(|r| r.validate(&r.tx_bytes).accepted())
        .collect()
}
