//! PlutusData generators shared by C06 (redeemers, datums inside era values) and C07.
//! Only *representable* values are produced: `any_constructor` is `Some` exactly when the
//! tag is 102, tags are in 121..=127 | 1280..=1400 | 102.

use crate::prng::Rng;
use pallas_primitives::{BigInt, BoundedBytes, Constr, Int, KeyValuePairs, MaybeIndefArray, PlutusData};

/// byte-string lengths around the 64-byte chunk boundary and its multiples
pub const BYTE_LENS: &[usize] = &[0, 1, 2, 8, 28, 32, 63, 64, 65, 66, 100, 127, 128, 129, 130, 191, 192, 193, 256, 257, 320];

pub fn gen_len(rng: &mut Rng) -> usize {
    match rng.below(10) {
        0..=4 => *rng.pick(BYTE_LENS),
        5..=7 => rng.usize_below(6),
        8 => 60 + rng.usize_below(10),
        _ => rng.usize_below(300),
    }
}

pub fn gen_bytes(rng: &mut Rng) -> Vec<u8> {
    let n = gen_len(rng);
    match rng.below(4) {
        0 => vec![0u8; n],
        1 => vec![0xffu8; n],
        _ => rng.bytes(n),
    }
}

pub fn int_of(v: i128) -> Int {
    Int::try_from(v).expect("in CBOR int range")
}

/// an i128 inside the CBOR integer range [-2^64, 2^64-1], biased to boundaries
pub fn gen_cbor_int(rng: &mut Rng) -> i128 {
    match rng.below(10) {
        0 => *rng.pick(&[
            0i128,
            1,
            -1,
            2,
            -2,
            23,
            24,
            -24,
            -25,
            255,
            256,
            -256,
            -257,
            i64::MAX as i128,
            i64::MAX as i128 + 1,
            i64::MIN as i128,
            i64::MIN as i128 - 1,
            u64::MAX as i128,
            u64::MAX as i128 - 1,
            -(u64::MAX as i128),
            -(u64::MAX as i128) - 1,
        ]),
        1..=3 => rng.irange(-6, 6) as i128,
        4..=6 => {
            let m = rng.edgy_u64() as i128;
            if rng.bool() {
                m
            } else {
                -m - 1
            }
        }
        _ => rng.edgy_i64() as i128,
    }
}

fn magnitude_bytes(m: u128) -> Vec<u8> {
    m.to_be_bytes().iter().copied().skip_while(|b| *b == 0).collect()
}

/// a BigInt in any of the three representations; small magnitudes are frequent so that
/// the same number shows up as `Int`, `BigUInt` and `BigNInt` (with and without leading zeros)
pub fn gen_bigint(rng: &mut Rng) -> BigInt {
    match rng.below(10) {
        0..=4 => BigInt::Int(int_of(gen_cbor_int(rng))),
        5..=7 => {
            // magnitude as bytes, maybe with leading zeros
            let m: u128 = match rng.below(4) {
                0 => rng.below(8) as u128,
                1 => rng.edgy_u64() as u128,
                2 => (rng.edgy_u64() as u128) << rng.below(60),
                _ => ((1i128 << 64) + rng.irange(-3, 3) as i128) as u128,
            };
            let mut b = vec![0u8; if rng.chance(1, 3) { 1 + rng.usize_below(3) } else { 0 }];
            b.extend(magnitude_bytes(m));
            if rng.bool() {
                BigInt::BigUInt(BoundedBytes::from(b))
            } else {
                BigInt::BigNInt(BoundedBytes::from(b))
            }
        }
        _ => {
            // long magnitudes (chunking inside bignums)
            let mut b = gen_bytes(rng);
            if rng.bool() && !b.is_empty() {
                b[0] = 0;
            }
            if rng.bool() {
                BigInt::BigUInt(BoundedBytes::from(b))
            } else {
                BigInt::BigNInt(BoundedBytes::from(b))
            }
        }
    }
}

pub fn gen_constr_tag(rng: &mut Rng) -> (u64, Option<u64>) {
    match rng.below(10) {
        0..=3 => (121 + rng.below(7), None),
        4..=5 => (1280 + rng.below(121), None),
        6 => (*rng.pick(&[121u64, 127, 1280, 1281, 1399, 1400]), None),
        7..=8 => (102, Some(rng.below(130))),
        _ => (102, Some(rng.edgy_u64())),
    }
}

fn arr(rng: &mut Rng, xs: Vec<PlutusData>) -> MaybeIndefArray<PlutusData> {
    if rng.bool() {
        MaybeIndefArray::Def(xs)
    } else {
        MaybeIndefArray::Indef(xs)
    }
}

pub fn gen_pd(rng: &mut Rng, depth: usize) -> PlutusData {
    let k = if depth == 0 { rng.below(2) } else { rng.below(6) };
    match k {
        0 => PlutusData::BigInt(gen_bigint(rng)),
        1 => PlutusData::BoundedBytes(BoundedBytes::from(gen_bytes(rng))),
        2 | 5 => {
            let (tag, any_constructor) = gen_constr_tag(rng);
            let n = rng.usize_below(4);
            let xs = (0..n).map(|_| gen_pd(rng, depth - 1)).collect();
            PlutusData::Constr(Constr { tag, any_constructor, fields: arr(rng, xs) })
        }
        3 => {
            let n = rng.usize_below(4);
            let xs: Vec<(PlutusData, PlutusData)> = (0..n).map(|_| (gen_pd(rng, depth - 1), gen_pd(rng, depth - 1))).collect();
            PlutusData::Map(if rng.bool() { KeyValuePairs::Def(xs) } else { KeyValuePairs::Indef(xs) })
        }
        _ => {
            let n = rng.usize_below(4);
            let xs = (0..n).map(|_| gen_pd(rng, depth - 1)).collect();
            PlutusData::Array(arr(rng, xs))
        }
    }
}

/// small PlutusData for embedding into other generated values (redeemers…)
pub fn gen_pd_small(rng: &mut Rng) -> PlutusData {
    let d = rng.usize_below(3);
    gen_pd(rng, d)
}
