//! xoshiro256** PRNG (own implementation, no dependency on the `rand` API).

#[derive(Clone, Debug)]
pub struct Rng {
    s: [u64; 4],
}

fn splitmix(x: &mut u64) -> u64 {
    *x = x.wrapping_add(0x9E3779B97F4A7C15);
    let mut z = *x;
    z = (z ^ (z >> 30)).wrapping_mul(0xBF58476D1CE4E5B9);
    z = (z ^ (z >> 27)).wrapping_mul(0x94D049BB133111EB);
    z ^ (z >> 31)
}

impl Rng {
    pub fn new(seed: u64) -> Self {
        let mut x = seed;
        let s = [splitmix(&mut x), splitmix(&mut x), splitmix(&mut x), splitmix(&mut x)];
        Rng { s }
    }
    /// derive an independent stream from (seed, label, index)
    pub fn derive(seed: u64, label: &str, idx: u64) -> Self {
        let mut h = seed ^ 0x51_7c_c1_b7_27_22_0a_95;
        for b in label.bytes() {
            h = (h ^ b as u64).wrapping_mul(0x100000001b3);
        }
        h ^= idx.wrapping_mul(0x9E3779B97F4A7C15);
        Rng::new(h)
    }
    pub fn next_u64(&mut self) -> u64 {
        let r = self.s[1].wrapping_mul(5).rotate_left(7).wrapping_mul(9);
        let t = self.s[1] << 17;
        self.s[2] ^= self.s[0];
        self.s[3] ^= self.s[1];
        self.s[1] ^= self.s[2];
        self.s[0] ^= self.s[3];
        self.s[2] ^= t;
        self.s[3] = self.s[3].rotate_left(45);
        r
    }
    pub fn next_u32(&mut self) -> u32 {
        (self.next_u64() >> 32) as u32
    }
    pub fn next_u8(&mut self) -> u8 {
        (self.next_u64() >> 56) as u8
    }
    /// uniform in [0, n) ; n > 0
    pub fn below(&mut self, n: u64) -> u64 {
        if n == 0 {
            return 0;
        }
        // multiply-shift; bias negligible for our purposes
        ((self.next_u64() as u128 * n as u128) >> 64) as u64
    }
    pub fn usize_below(&mut self, n: usize) -> usize {
        self.below(n as u64) as usize
    }
    /// uniform in [lo, hi] inclusive
    pub fn range(&mut self, lo: u64, hi: u64) -> u64 {
        if hi <= lo {
            return lo;
        }
        let span = hi - lo;
        if span == u64::MAX {
            return self.next_u64();
        }
        lo + self.below(span + 1)
    }
    pub fn irange(&mut self, lo: i64, hi: i64) -> i64 {
        let span = (hi as i128 - lo as i128) as u64;
        (lo as i128 + self.range(0, span) as i128) as i64
    }
    pub fn bool(&mut self) -> bool {
        self.next_u64() & 1 == 1
    }
    /// true with probability num/den
    pub fn chance(&mut self, num: u64, den: u64) -> bool {
        self.below(den) < num
    }
    pub fn bytes(&mut self, n: usize) -> Vec<u8> {
        let mut v = Vec::with_capacity(n);
        while v.len() + 8 <= n {
            v.extend_from_slice(&self.next_u64().to_le_bytes());
        }
        while v.len() < n {
            v.push(self.next_u8());
        }
        v
    }
    pub fn fill(&mut self, buf: &mut [u8]) {
        for b in buf.iter_mut() {
            *b = self.next_u8();
        }
    }
    pub fn array<const N: usize>(&mut self) -> [u8; N] {
        let mut a = [0u8; N];
        self.fill(&mut a);
        a
    }
    pub fn pick<'a, T>(&mut self, xs: &'a [T]) -> &'a T {
        &xs[self.usize_below(xs.len())]
    }
    pub fn shuffle<T>(&mut self, xs: &mut [T]) {
        for i in (1..xs.len()).rev() {
            let j = self.usize_below(i + 1);
            xs.swap(i, j);
        }
    }
    /// a u64 biased towards boundary values of all widths
    pub fn edgy_u64(&mut self) -> u64 {
        match self.below(10) {
            0 => *self.pick(&[
                0u64,
                1,
                2,
                22,
                23,
                24,
                25,
                127,
                128,
                254,
                255,
                256,
                257,
                65534,
                65535,
                65536,
                65537,
                (1 << 31) - 1,
                1 << 31,
                (1 << 32) - 1,
                1 << 32,
                (1 << 32) + 1,
                (1 << 53) - 1,
                1 << 53,
                (1 << 62),
                (1 << 63) - 1,
                1 << 63,
                (1 << 63) + 1,
                u64::MAX - 1,
                u64::MAX,
            ]),
            1 => self.below(24),
            2 => self.below(256),
            3 => self.below(65536),
            4 => self.below(1 << 32),
            5 => {
                let k = self.below(64);
                (1u64 << k).wrapping_add(self.below(3)).wrapping_sub(1)
            }
            6 => u64::MAX - self.below(1000),
            7 => (1u64 << 63).wrapping_add(self.below(2001)).wrapping_sub(1000),
            _ => {
                let bits = self.below(65);
                if bits == 0 {
                    0
                } else if bits == 64 {
                    self.next_u64()
                } else {
                    self.next_u64() >> (64 - bits)
                }
            }
        }
    }
    pub fn edgy_i64(&mut self) -> i64 {
        match self.below(8) {
            0 => *self.pick(&[0i64, 1, -1, 2, -2, i64::MAX, i64::MIN, i64::MAX - 1, i64::MIN + 1, 23, 24, -24, -25, 255, 256, -256, -257]),
            1 => self.irange(-30, 30),
            _ => {
                let v = self.edgy_u64();
                let v = (v >> 1) as i64;
                if self.bool() {
                    v
                } else {
                    -v - 1
                }
            }
        }
    }
}

/// FNV-1a 64 fingerprint helper
pub fn fp(bytes: &[u8]) -> u64 {
    let mut h: u64 = 0xcbf29ce484222325;
    for b in bytes {
        h ^= *b as u64;
        h = h.wrapping_mul(0x100000001b3);
    }
    // final avalanche
    h ^= h >> 33;
    h = h.wrapping_mul(0xff51afd7ed558ccd);
    h ^= h >> 33;
    h
}

pub fn fp_mix(a: u64, b: u64) -> u64 {
    let mut h = a ^ b.wrapping_mul(0x9E3779B97F4A7C15).rotate_left(23);
    h ^= h >> 29;
    h = h.wrapping_mul(0xBF58476D1CE4E5B9);
    h ^ (h >> 32)
}
