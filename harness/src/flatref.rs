//! Independent bit-level reference for the `flat` format used by pallas-codec (C01, C02).
//!
//! Written from the format description (Quid2 flat / Plutus Core appendix), not from the
//! pallas sources:
//!   bool      1 bit (1 = true)
//!   u8        8 bits, most significant first, at any bit offset
//!   bits(n,v) n bits, most significant first
//!   word      groups of 7 bits, least significant group first, each group written as 8 bits:
//!             continuation flag (1 = more groups follow) then the 7 bits
//!   integer   zigzag (0,-1,1,-2,.. -> 0,1,2,3,..) then word
//!   char      word of the scalar value
//!   filler    0 bits up to the last bit of the current byte, which is 1 (a whole 0000_0001 byte
//!             when already aligned)
//!   bytes     filler, then blocks `len(1..=255) payload`, terminated by a 0 length byte
//!   utf8      bytes of the UTF-8 encoding
//!   list      for every item a 1 bit followed by the item, then a 0 bit
//! The writer below produces one bit at a time; the reader consumes one bit at a time. Nothing
//! here shares code or structure (used_bits / current_byte) with the implementation under test.

use num_bigint::{BigInt, BigUint};
use serde_json::{json, Value};

// ---------------------------------------------------------------------------------------
// bit writer
// ---------------------------------------------------------------------------------------

#[derive(Default, Clone)]
pub struct BitW {
    out: Vec<u8>,
    nbits: usize,
}

impl BitW {
    pub fn new() -> Self {
        Self::default()
    }
    pub fn len_bits(&self) -> usize {
        self.nbits
    }
    pub fn bit(&mut self, b: bool) {
        if self.nbits % 8 == 0 {
            self.out.push(0);
        }
        if b {
            let last = self.out.len() - 1;
            self.out[last] |= 0x80 >> (self.nbits % 8);
        }
        self.nbits += 1;
    }
    /// `n` bits of `v`, most significant first
    pub fn bits(&mut self, n: u32, v: u64) {
        for i in (0..n).rev() {
            self.bit((v >> i) & 1 == 1);
        }
    }
    pub fn word_big(&mut self, v: &BigUint) {
        let mut groups: Vec<u8> = vec![];
        let mut rest = v.clone();
        let m = BigUint::from(128u32);
        loop {
            let g = (&rest % &m).to_u32_digits().first().copied().unwrap_or(0) as u8;
            groups.push(g);
            rest = rest / &m;
            if rest == BigUint::from(0u32) {
                break;
            }
        }
        let last = groups.len() - 1;
        for (i, g) in groups.iter().enumerate() {
            self.bit(i != last);
            self.bits(7, *g as u64);
        }
    }
    pub fn word(&mut self, v: u128) {
        self.word_big(&BigUint::from(v));
    }
    pub fn integer(&mut self, i: i128) {
        let z: u128 = if i >= 0 { (i as u128) * 2 } else { ((-(i + 1)) as u128) * 2 + 1 };
        self.word(z);
    }
    pub fn integer_big(&mut self, i: &BigInt) {
        let zero = BigInt::from(0);
        let one = BigInt::from(1);
        let z: BigInt = if *i >= zero { i * BigInt::from(2) } else { (-(i + &one)) * BigInt::from(2) + &one };
        self.word_big(&z.to_biguint().expect("zigzag is non-negative"));
    }
    pub fn filler(&mut self) {
        while self.nbits % 8 != 7 {
            self.bit(false);
        }
        self.bit(true);
    }
    pub fn bytes(&mut self, b: &[u8]) {
        self.filler();
        let mut i = 0;
        while i < b.len() {
            let n = (b.len() - i).min(255);
            self.bits(8, n as u64);
            for x in &b[i..i + n] {
                self.bits(8, *x as u64);
            }
            i += n;
        }
        self.bits(8, 0);
    }
    /// the bytes written so far (the last one zero-padded when not aligned)
    pub fn to_vec(&self) -> Vec<u8> {
        self.out.clone()
    }
}

// ---------------------------------------------------------------------------------------
// values of a sequence (C01)
// ---------------------------------------------------------------------------------------

#[derive(Clone, Debug, PartialEq)]
pub enum Item {
    Bool(bool),
    U8(u8),
    Word(usize),
    Int(isize),
    Char(char),
    Bytes(Vec<u8>),
    Str(String),
    /// `encode_list_with` over bools
    BoolList(Vec<bool>),
    /// `encode_list_with` over bytes
    U8List(Vec<u8>),
    /// `encode_list_with` over words
    WordList(Vec<usize>),
    /// `Encoder::string`: 1-prefixed chars, 0 terminated
    CharStr(String),
    /// `Encoder::bits(n, v)` with 1 <= n <= 8 and v < 2^n
    Bits(u8, u8),
    BigInt(BigInt),
    /// an explicit filler in the middle of a sequence
    Filler,
}

pub const KINDS: [&str; 14] =
    ["bool", "u8", "word", "integer", "char", "bytes", "utf8", "boollist", "u8list", "wordlist", "charstring", "bits", "bigint", "filler"];

impl Item {
    pub fn kind(&self) -> &'static str {
        match self {
            Item::Bool(_) => "bool",
            Item::U8(_) => "u8",
            Item::Word(_) => "word",
            Item::Int(_) => "integer",
            Item::Char(_) => "char",
            Item::Bytes(_) => "bytes",
            Item::Str(_) => "utf8",
            Item::BoolList(_) => "boollist",
            Item::U8List(_) => "u8list",
            Item::WordList(_) => "wordlist",
            Item::CharStr(_) => "charstring",
            Item::Bits(..) => "bits",
            Item::BigInt(_) => "bigint",
            Item::Filler => "filler",
        }
    }
    pub fn write_ref(&self, w: &mut BitW) {
        match self {
            Item::Bool(b) => w.bit(*b),
            Item::U8(x) => w.bits(8, *x as u64),
            Item::Word(x) => w.word(*x as u128),
            Item::Int(i) => w.integer(*i as i128),
            Item::Char(c) => w.word(*c as u32 as u128),
            Item::Bytes(b) => w.bytes(b),
            Item::Str(s) => w.bytes(s.as_bytes()),
            Item::BoolList(xs) => {
                for x in xs {
                    w.bit(true);
                    w.bit(*x);
                }
                w.bit(false);
            }
            Item::U8List(xs) => {
                for x in xs {
                    w.bit(true);
                    w.bits(8, *x as u64);
                }
                w.bit(false);
            }
            Item::WordList(xs) => {
                for x in xs {
                    w.bit(true);
                    w.word(*x as u128);
                }
                w.bit(false);
            }
            Item::CharStr(s) => {
                for c in s.chars() {
                    w.bit(true);
                    w.word(c as u32 as u128);
                }
                w.bit(false);
            }
            Item::Bits(n, v) => w.bits(*n as u32, *v as u64),
            Item::BigInt(i) => w.integer_big(i),
            Item::Filler => w.filler(),
        }
    }
    pub fn to_json(&self) -> Value {
        match self {
            Item::Bool(b) => json!({"k": "bool", "v": b}),
            Item::U8(x) => json!({"k": "u8", "v": x}),
            Item::Word(x) => json!({"k": "word", "v": x.to_string()}),
            Item::Int(x) => json!({"k": "integer", "v": x.to_string()}),
            Item::Char(c) => json!({"k": "char", "v": *c as u32}),
            Item::Bytes(b) => json!({"k": "bytes", "v": hex::encode(b)}),
            Item::Str(s) => json!({"k": "utf8", "v": hex::encode(s.as_bytes())}),
            Item::BoolList(xs) => json!({"k": "boollist", "v": xs}),
            Item::U8List(xs) => json!({"k": "u8list", "v": hex::encode(xs)}),
            Item::WordList(xs) => json!({"k": "wordlist", "v": xs.iter().map(|x| x.to_string()).collect::<Vec<_>>()}),
            Item::CharStr(s) => json!({"k": "charstring", "v": hex::encode(s.as_bytes())}),
            Item::Bits(n, v) => json!({"k": "bits", "n": n, "v": v}),
            Item::BigInt(i) => json!({"k": "bigint", "v": i.to_string()}),
            Item::Filler => json!({"k": "filler"}),
        }
    }
    pub fn from_json(v: &Value) -> Option<Item> {
        let k = v["k"].as_str()?;
        let s = || v["v"].as_str().map(|x| x.to_string());
        Some(match k {
            "bool" => Item::Bool(v["v"].as_bool()?),
            "u8" => Item::U8(v["v"].as_u64()? as u8),
            "word" => Item::Word(s()?.parse().ok()?),
            "integer" => Item::Int(s()?.parse().ok()?),
            "char" => Item::Char(char::from_u32(v["v"].as_u64()? as u32)?),
            "bytes" => Item::Bytes(hex::decode(s()?).ok()?),
            "utf8" => Item::Str(String::from_utf8(hex::decode(s()?).ok()?).ok()?),
            "boollist" => Item::BoolList(v["v"].as_array()?.iter().filter_map(|b| b.as_bool()).collect()),
            "u8list" => Item::U8List(hex::decode(s()?).ok()?),
            "wordlist" => Item::WordList(v["v"].as_array()?.iter().filter_map(|x| x.as_str()?.parse().ok()).collect()),
            "charstring" => Item::CharStr(String::from_utf8(hex::decode(s()?).ok()?).ok()?),
            "bits" => Item::Bits(v["n"].as_u64()? as u8, v["v"].as_u64()? as u8),
            "bigint" => Item::BigInt(s()?.parse().ok()?),
            "filler" => Item::Filler,
            _ => return None,
        })
    }
}

/// Reference encoding of a sequence followed by the terminating filler.
/// Returns the buffer and, for every item, the bit position where it starts (+ the position of
/// the final filler as last element).
pub fn encode_ref(items: &[Item]) -> (Vec<u8>, Vec<usize>) {
    let mut w = BitW::new();
    let mut starts = Vec::with_capacity(items.len() + 1);
    for it in items {
        starts.push(w.len_bits());
        it.write_ref(&mut w);
    }
    starts.push(w.len_bits());
    w.filler();
    (w.to_vec(), starts)
}

// ---------------------------------------------------------------------------------------
// bit reader: reference decoder (C02 oracle)
// ---------------------------------------------------------------------------------------

#[derive(Clone, Copy, Debug, PartialEq, Eq)]
pub enum Op {
    Bool,
    U8,
    Word,
    Integer,
    Char,
    Bytes,
    Utf8,
    Filler,
    Bits8(usize),
    BoolList,
    U8List,
    WordList,
    CharString,
    BigWord,
    BigInteger,
}

impl Op {
    pub fn name(&self) -> String {
        match self {
            Op::Bits8(n) => format!("bits8({n})"),
            o => format!("{o:?}").to_lowercase(),
        }
    }
    /// label without the argument (for signatures)
    pub fn label(&self) -> &'static str {
        match self {
            Op::Bool => "bool",
            Op::U8 => "u8",
            Op::Word => "word",
            Op::Integer => "integer",
            Op::Char => "char",
            Op::Bytes => "bytes",
            Op::Utf8 => "utf8",
            Op::Filler => "filler",
            Op::Bits8(_) => "bits8",
            Op::BoolList => "boollist",
            Op::U8List => "u8list",
            Op::WordList => "wordlist",
            Op::CharString => "charstring",
            Op::BigWord => "bigword",
            Op::BigInteger => "biginteger",
        }
    }
    pub fn from_name(s: &str) -> Option<Op> {
        Some(match s {
            "bool" => Op::Bool,
            "u8" => Op::U8,
            "word" => Op::Word,
            "integer" => Op::Integer,
            "char" => Op::Char,
            "bytes" => Op::Bytes,
            "utf8" => Op::Utf8,
            "filler" => Op::Filler,
            "boollist" => Op::BoolList,
            "u8list" => Op::U8List,
            "wordlist" => Op::WordList,
            "charstring" => Op::CharString,
            "bigword" => Op::BigWord,
            "biginteger" => Op::BigInteger,
            x if x.starts_with("bits8(") => Op::Bits8(x[6..x.len() - 1].parse().ok()?),
            _ => return None,
        })
    }
}

/// what a well-formed read denotes
#[derive(Clone, Debug, PartialEq)]
pub enum Val {
    Unit,
    Bool(bool),
    U8(u8),
    /// unbounded: the number the 7-bit groups denote, and how many groups were read
    Word(BigUint, usize),
    Int(BigInt, usize),
    Bytes(Vec<u8>),
    List(Vec<Val>),
}

/// why the reference cannot read the value
#[derive(Clone, Copy, Debug, PartialEq, Eq)]
pub enum RefErr {
    /// the buffer ends before the value does
    End,
    /// byte array requested while not byte aligned / filler did not end on a byte boundary
    Unaligned,
    /// the API contract rejects the argument (bits8 with n > 8)
    BadArg,
    /// the bits are all there but do not denote a value of the type (bad scalar value, bad UTF-8)
    Invalid,
}

pub struct BitR<'a> {
    pub buf: &'a [u8],
    /// position in bits
    pub pos: usize,
}

impl<'a> BitR<'a> {
    pub fn new(buf: &'a [u8], pos: usize) -> Self {
        BitR { buf, pos }
    }
    fn total(&self) -> usize {
        self.buf.len() * 8
    }
    fn bit(&mut self) -> Result<bool, RefErr> {
        if self.pos >= self.total() {
            return Err(RefErr::End);
        }
        let b = (self.buf[self.pos / 8] >> (7 - self.pos % 8)) & 1 == 1;
        self.pos += 1;
        Ok(b)
    }
    fn bits(&mut self, n: usize) -> Result<u64, RefErr> {
        if self.pos + n > self.total() {
            return Err(RefErr::End);
        }
        let mut v = 0u64;
        for _ in 0..n {
            v = (v << 1) | self.bit()? as u64;
        }
        Ok(v)
    }
    fn word(&mut self) -> Result<(BigUint, usize), RefErr> {
        let mut v = BigUint::from(0u32);
        let mut k = 0usize;
        loop {
            let g = self.bits(8)?;
            v += BigUint::from(g & 0x7f) << (7 * k);
            k += 1;
            if g & 0x80 == 0 {
                return Ok((v, k));
            }
        }
    }
    fn filler(&mut self) -> Result<(), RefErr> {
        while !self.bit()? {}
        Ok(())
    }
    fn byte_array(&mut self) -> Result<Vec<u8>, RefErr> {
        if self.pos % 8 != 0 {
            return Err(RefErr::Unaligned);
        }
        let mut out = vec![];
        loop {
            let n = self.bits(8)? as usize;
            if n == 0 {
                return Ok(out);
            }
            // the block and the following length byte must be present
            if self.pos + 8 * (n + 1) > self.total() {
                return Err(RefErr::End);
            }
            for _ in 0..n {
                out.push(self.bits(8)? as u8);
            }
        }
    }
    fn list(&mut self, item: Op) -> Result<Val, RefErr> {
        let mut xs = vec![];
        while self.bit()? {
            xs.push(self.read(item)?);
        }
        Ok(Val::List(xs))
    }
    fn unzigzag(z: &BigUint) -> BigInt {
        let zi = BigInt::from(z.clone());
        let two = BigInt::from(2);
        if (&zi % &two) == BigInt::from(0) {
            zi / two
        } else {
            -((zi + BigInt::from(1)) / two)
        }
    }
    /// read one value; on error the position is unspecified
    pub fn read(&mut self, op: Op) -> Result<Val, RefErr> {
        match op {
            Op::Bool => Ok(Val::Bool(self.bit()?)),
            Op::U8 => Ok(Val::U8(self.bits(8)? as u8)),
            Op::Bits8(n) => {
                if n > 8 {
                    Err(RefErr::BadArg)
                } else {
                    Ok(Val::U8(self.bits(n)? as u8))
                }
            }
            Op::Word | Op::BigWord => {
                let (v, k) = self.word()?;
                Ok(Val::Word(v, k))
            }
            Op::Integer | Op::BigInteger => {
                let (v, k) = self.word()?;
                Ok(Val::Int(Self::unzigzag(&v), k))
            }
            Op::Char => {
                let (v, k) = self.word()?;
                Ok(Val::Word(v, k))
            }
            Op::Filler => {
                self.filler()?;
                Ok(Val::Unit)
            }
            Op::Bytes => {
                self.filler()?;
                Ok(Val::Bytes(self.byte_array()?))
            }
            Op::Utf8 => {
                self.filler()?;
                let b = self.byte_array()?;
                if std::str::from_utf8(&b).is_err() {
                    return Err(RefErr::Invalid);
                }
                Ok(Val::Bytes(b))
            }
            Op::BoolList => self.list(Op::Bool),
            Op::U8List => self.list(Op::U8),
            Op::WordList => self.list(Op::Word),
            Op::CharString => self.list(Op::Char),
        }
    }
}

pub fn selftest() -> Result<(), String> {
    // vectors worked out by hand from the format description
    let (b, _) = encode_ref(&[Item::Bool(true), Item::U8(0xff)]);
    if b != vec![0xff, 0x81] {
        return Err(format!("flatref: bool+u8 -> {}", hex::encode(&b)));
    }
    let (b, _) = encode_ref(&[Item::Word(300)]);
    // 300 = 0b10_0101100 -> groups 0101100 (cont) , 0000010 -> ac 02, then filler 01
    if b != vec![0xac, 0x02, 0x01] {
        return Err(format!("flatref: word 300 -> {}", hex::encode(&b)));
    }
    let (b, _) = encode_ref(&[Item::Int(-1), Item::Int(1), Item::Int(-64)]);
    if b != vec![0x01, 0x02, 0x7f, 0x01] {
        return Err(format!("flatref: integers -> {}", hex::encode(&b)));
    }
    let (b, _) = encode_ref(&[Item::Bool(false), Item::Bytes(vec![1, 2, 3])]);
    if b != vec![0x01, 0x03, 1, 2, 3, 0x00, 0x01] {
        return Err(format!("flatref: bytes -> {}", hex::encode(&b)));
    }
    let (b, _) = encode_ref(&[Item::BoolList(vec![true, false])]);
    // 1 1 1 0 0 | pad 00 1 -> 1110_0001
    if b != vec![0xe1] {
        return Err(format!("flatref: list -> {}", hex::encode(&b)));
    }
    let mut r = BitR::new(&[0xac, 0x02, 0x01], 0);
    match r.read(Op::Word) {
        Ok(Val::Word(v, 2)) if v == BigUint::from(300u32) => {}
        o => return Err(format!("flatref: read word -> {o:?}")),
    }
    if r.read(Op::Filler) != Ok(Val::Unit) || r.pos != 24 {
        return Err("flatref: filler".into());
    }
    let mut r = BitR::new(&[0x01, 0x02, 0x7f], 0);
    for want in [-1i64, 1, -64] {
        match r.read(Op::Integer) {
            Ok(Val::Int(v, 1)) if v == BigInt::from(want) => {}
            o => return Err(format!("flatref: read integer {want} -> {o:?}")),
        }
    }
    Ok(())
}
