//! Independent model of the Cardano "sum" KES composition (MMM 2001, binary sum, nested d times)
//! used as the oracle of C12 and C13. Written from the specification, not from pallas:
//!
//! * a node of height k owns 2^k consecutive periods and has a 32-byte seed;
//!   the root seed is the master seed; children seeds are
//!   left = Blake2b-256(0x01 ‖ seed), right = Blake2b-256(0x02 ‖ seed);
//! * a leaf (height 0) is an Ed25519 key pair whose secret key *is* the leaf seed;
//! * the verification key of an inner node is Blake2b-256(vk_left ‖ vk_right).
//!
//! Signature layouts (height d, period t):
//! * Sum:      ed25519_sig(64) ‖ (vk_l ‖ vk_r) of the height-1 node on the path ‖ … ‖ (vk_l ‖ vk_r) of the root
//! * Compact:  ed25519_sig(64) ‖ leaf_vk(32) ‖ sibling vk at height 1 ‖ … ‖ sibling vk below the root
//!
//! Hashing is `crate::refhash` (own RFC 7693 code), Ed25519 is ed25519-dalek.

use crate::refhash::blake2b_256;
use ed25519_dalek::{Signature, Signer, SigningKey, VerifyingKey};
use sha2::{Digest, Sha512};

pub fn split_seed(seed: &[u8; 32]) -> ([u8; 32], [u8; 32]) {
    let mut l = Vec::with_capacity(33);
    l.push(1u8);
    l.extend_from_slice(seed);
    let mut r = Vec::with_capacity(33);
    r.push(2u8);
    r.extend_from_slice(seed);
    (blake2b_256(&l), blake2b_256(&r))
}

pub fn hash_pair(a: &[u8; 32], b: &[u8; 32]) -> [u8; 32] {
    let mut v = Vec::with_capacity(64);
    v.extend_from_slice(a);
    v.extend_from_slice(b);
    blake2b_256(&v)
}

/// Whole key tree of one master seed.
/// `seeds[k][j]` / `vks[k][j]`: node j of height k, owning periods [j·2^k, (j+1)·2^k).
pub struct Tree {
    pub depth: u32,
    pub seeds: Vec<Vec<[u8; 32]>>,
    pub vks: Vec<Vec<[u8; 32]>>,
}

impl Tree {
    pub fn build(master: &[u8; 32], depth: u32) -> Tree {
        let d = depth as usize;
        let mut seeds: Vec<Vec<[u8; 32]>> = vec![vec![]; d + 1];
        seeds[d] = vec![*master];
        for k in (1..=d).rev() {
            let mut below = Vec::with_capacity(seeds[k].len() * 2);
            for s in &seeds[k] {
                let (l, r) = split_seed(s);
                below.push(l);
                below.push(r);
            }
            seeds[k - 1] = below;
        }
        let mut vks: Vec<Vec<[u8; 32]>> = vec![vec![]; d + 1];
        vks[0] = seeds[0].iter().map(|s| SigningKey::from_bytes(s).verifying_key().to_bytes()).collect();
        for k in 1..=d {
            let below = &vks[k - 1];
            vks[k] = (0..below.len() / 2).map(|j| hash_pair(&below[2 * j], &below[2 * j + 1])).collect();
        }
        Tree { depth, seeds, vks }
    }

    pub fn periods(&self) -> u32 {
        1u32 << self.depth
    }

    pub fn root_vk(&self) -> [u8; 32] {
        self.vks[self.depth as usize][0]
    }

    pub fn leaf_seed(&self, t: u32) -> [u8; 32] {
        self.seeds[0][t as usize]
    }

    pub fn leaf_vk(&self, t: u32) -> [u8; 32] {
        self.vks[0][t as usize]
    }

    /// Expected Sum signature bytes of period t (Ed25519 is deterministic).
    pub fn sum_signature(&self, t: u32, msg: &[u8]) -> Vec<u8> {
        let sk = SigningKey::from_bytes(&self.seeds[0][t as usize]);
        let mut out = sk.sign(msg).to_bytes().to_vec();
        for k in 1..=self.depth as usize {
            let j = (t as usize) >> k; // node of height k on the path
            out.extend_from_slice(&self.vks[k - 1][2 * j]);
            out.extend_from_slice(&self.vks[k - 1][2 * j + 1]);
        }
        out
    }

    /// Expected CompactSum signature bytes of period t.
    pub fn compact_signature(&self, t: u32, msg: &[u8]) -> Vec<u8> {
        let sk = SigningKey::from_bytes(&self.seeds[0][t as usize]);
        let mut out = sk.sign(msg).to_bytes().to_vec();
        out.extend_from_slice(&self.vks[0][t as usize]);
        for k in 1..=self.depth as usize {
            let child = (t as usize) >> (k - 1); // path node of height k-1
            out.extend_from_slice(&self.vks[k - 1][child ^ 1]); // its sibling
        }
        out
    }

    /// Every secret of the tree with the first period of its node: (range start, value, label).
    /// Listed per node: its seed; for leaves also the SHA-512 expansion of the seed (clamped scalar,
    /// raw first half, scalar reduced mod l, nonce prefix), which signs equally well.
    pub fn secrets(&self) -> Vec<(u32, [u8; 32], String)> {
        let mut out = vec![];
        for k in 0..=self.depth as usize {
            for (j, s) in self.seeds[k].iter().enumerate() {
                let lo = (j << k) as u32;
                let kind = if k == 0 { "leaf-seed" } else if k == self.depth as usize { "master-seed" } else { "inner-seed" };
                out.push((lo, *s, format!("{kind}:height={k}:index={j}")));
                if k == 0 {
                    for (v, what) in expand_leaf(s) {
                        out.push((lo, v, format!("{what}:height=0:index={j}")));
                    }
                }
            }
        }
        out
    }

    /// Secrets that must be gone from a key evolved to period `t`: those of every node whose
    /// period range intersects [0, t), i.e. whose range starts before t.
    pub fn forbidden(&self, t: u32) -> Vec<([u8; 32], String)> {
        self.secrets().into_iter().filter(|(lo, _, _)| *lo < t).map(|(_, v, l)| (v, l)).collect()
    }

    /// Seeds that are legitimately still needed at period t (the right siblings along the path
    /// whose range starts after t) — used only as a positive control of the scanner.
    pub fn future_sibling_seeds(&self, t: u32) -> Vec<[u8; 32]> {
        let mut out = vec![];
        for k in 0..self.depth as usize {
            let j = (t as usize) >> k;
            if j & 1 == 0 {
                out.push(self.seeds[k][j + 1]);
            }
        }
        out
    }
}

/// SHA-512 expansion of an Ed25519 seed: (clamped scalar bytes, scalar reduced mod l, nonce prefix)
pub fn expand_leaf(seed: &[u8; 32]) -> Vec<([u8; 32], &'static str)> {
    let h = Sha512::digest(seed);
    let mut a = [0u8; 32];
    a.copy_from_slice(&h[..32]);
    let raw = a; // unclamped first half is listed too
    a[0] &= 248;
    a[31] &= 127;
    a[31] |= 64;
    let mut prefix = [0u8; 32];
    prefix.copy_from_slice(&h[32..]);
    let esk = ed25519_dalek::hazmat::ExpandedSecretKey::from(seed);
    let reduced = esk.scalar.to_bytes();
    vec![(a, "leaf-clamped-scalar"), (raw, "leaf-sha512-first-half"), (reduced, "leaf-reduced-scalar"), (prefix, "leaf-nonce-prefix")]
}

fn ed_verify(vk: &[u8; 32], msg: &[u8], sig: &[u8]) -> bool {
    let Ok(vk) = VerifyingKey::from_bytes(vk) else { return false };
    let Ok(sig) = Signature::from_slice(sig) else { return false };
    vk.verify_strict(msg, &sig).is_ok()
}

/// Independent verifier of a Sum signature given as bytes.
pub fn verify_sum(depth: u32, root_vk: &[u8; 32], period: u32, msg: &[u8], sig: &[u8]) -> bool {
    let d = depth as usize;
    if sig.len() != 64 + 64 * d || period as u64 >= 1u64 << depth {
        return false;
    }
    let mut expect = *root_vk;
    for k in (1..=d).rev() {
        // pair stored for the height-k node sits after the ed25519 signature and the k-1 lower pairs
        let off = 64 + 64 * (k - 1);
        let l: [u8; 32] = sig[off..off + 32].try_into().unwrap();
        let r: [u8; 32] = sig[off + 32..off + 64].try_into().unwrap();
        if hash_pair(&l, &r) != expect {
            return false;
        }
        expect = if (period >> (k - 1)) & 1 == 0 { l } else { r };
    }
    ed_verify(&expect, msg, &sig[..64])
}

/// Independent verifier of a CompactSum signature given as bytes.
pub fn verify_compact(depth: u32, root_vk: &[u8; 32], period: u32, msg: &[u8], sig: &[u8]) -> bool {
    let d = depth as usize;
    if sig.len() != 96 + 32 * d || period as u64 >= 1u64 << depth {
        return false;
    }
    let leaf: [u8; 32] = sig[64..96].try_into().unwrap();
    if !ed_verify(&leaf, msg, &sig[..64]) {
        return false;
    }
    let mut cur = leaf;
    for k in 1..=d {
        let off = 96 + 32 * (k - 1);
        let sib: [u8; 32] = sig[off..off + 32].try_into().unwrap();
        cur = if (period >> (k - 1)) & 1 == 0 { hash_pair(&cur, &sib) } else { hash_pair(&sib, &cur) };
    }
    cur == *root_vk
}

/// Key-buffer size pallas documents for depth d (without the 4 period bytes): used for sanity only.
pub fn key_size(depth: u32) -> usize {
    32 + 96 * depth as usize
}

/// Pin of this model to the Haskell implementation (cardano-base): the four signature files under
/// pallas-crypto/src/kes/data were produced by `signKES` of Sum6KES / CompactSum6KES for the seed
/// "test string of 32 byte of lenght", message "test message", periods 0 and 5.
/// Err = the pin could not be established (missing files or mismatch) -> the caller goes inconclusive.
pub fn pin_against_haskell() -> Result<u32, String> {
    let dir = crate::corpus::repo().join("pallas-crypto/src/kes/data");
    let master: [u8; 32] = *b"test string of 32 byte of lenght";
    let tr = Tree::build(&master, 6);
    let mut n = 0;
    for (file, t, compact) in [("key6Sig.bin", 0u32, false), ("key6Sig5.bin", 5, false), ("compactkey6Sig.bin", 0, true), ("compactkey6Sig5.bin", 5, true)] {
        let want = std::fs::read(dir.join(file)).map_err(|e| format!("{file}: {e}"))?;
        let got = if compact { tr.compact_signature(t, b"test message") } else { tr.sum_signature(t, b"test message") };
        if got != want {
            return Err(format!("reference model does not reproduce the cardano-base vector {file}"));
        }
        let ok = if compact { verify_compact(6, &tr.root_vk(), t, b"test message", &want) } else { verify_sum(6, &tr.root_vk(), t, b"test message", &want) };
        if !ok {
            return Err(format!("reference verifier rejects the cardano-base vector {file}"));
        }
        n += 1;
    }
    Ok(n)
}

pub fn selftest() -> Result<(), String> {
    // internal consistency of the model: every expected signature verifies at exactly its period
    let master = [7u8; 32];
    for depth in 1..=4u32 {
        let tr = Tree::build(&master, depth);
        for t in 0..tr.periods() {
            let s = tr.sum_signature(t, b"m");
            let c = tr.compact_signature(t, b"m");
            for u in 0..tr.periods() {
                if verify_sum(depth, &tr.root_vk(), u, b"m", &s) != (t == u) {
                    return Err(format!("kesref sum depth {depth} t={t} u={u}"));
                }
                if verify_compact(depth, &tr.root_vk(), u, b"m", &c) != (t == u) {
                    return Err(format!("kesref compact depth {depth} t={t} u={u}"));
                }
            }
        }
    }
    Ok(())
}
