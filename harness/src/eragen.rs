//! Generators for in-memory values of the era ledger types (C06 part b).
//! Only *representable* values are built: NonEmptySet non-empty, PositiveCoin > 0,
//! NonZeroInt != 0, Hash<N> exactly N bytes, byron `TxIn::Other` with a non-zero variant,
//! conway `CostModels.unknown` keys >= 3 (0..2 are the named fields), Int inside the CBOR range.

use crate::cbor::gen_text;
use crate::pdgen::{gen_cbor_int, gen_pd_small, int_of};
use crate::prng::Rng;
use pallas_codec::minicbor::bytes::ByteVec;
use pallas_codec::utils::{CborWrap, EmptyMap, TagWrap};
use pallas_primitives::{alonzo, babbage, byron, conway};
use pallas_primitives::{
    Bytes, ExUnitPrices, ExUnits, Hash, KeyValuePairs, MaybeIndefArray, Metadata, Metadatum, NetworkId, NonEmptySet, NonZeroInt, Nonce,
    NonceVariant, PlutusScript, PoolMetadata, PositiveCoin, RationalNumber, Relay, Set, StakeCredential, TransactionInput, VrfCert,
};
use std::collections::BTreeMap;

pub struct G<'a> {
    pub r: &'a mut Rng,
}

impl<'a> G<'a> {
    pub fn new(r: &'a mut Rng) -> Self {
        G { r }
    }
    pub fn h28(&mut self) -> Hash<28> {
        Hash::from(self.r.array::<28>())
    }
    pub fn h32(&mut self) -> Hash<32> {
        Hash::from(self.r.array::<32>())
    }
    pub fn nbytes(&mut self, n: usize) -> Bytes {
        Bytes::from(self.r.bytes(n))
    }
    pub fn bytes(&mut self, max: usize) -> Bytes {
        let n = match self.r.below(4) {
            0 => 0,
            1 => max,
            _ => self.r.usize_below(max + 1),
        };
        self.nbytes(n)
    }
    pub fn u64(&mut self) -> u64 {
        self.r.edgy_u64()
    }
    pub fn u32(&mut self) -> u32 {
        let v = self.r.edgy_u64();
        if v > u32::MAX as u64 {
            (v >> 32) as u32
        } else {
            v as u32
        }
    }
    pub fn i64(&mut self) -> i64 {
        self.r.edgy_i64()
    }
    pub fn some(&mut self) -> bool {
        self.r.chance(3, 5)
    }
    pub fn opt<T>(&mut self, f: impl FnOnce(&mut Self) -> T) -> Option<T> {
        if self.some() {
            Some(f(self))
        } else {
            None
        }
    }
    pub fn vec<T>(&mut self, min: usize, max: usize, mut f: impl FnMut(&mut Self) -> T) -> Vec<T> {
        let n = min + self.r.usize_below(max - min + 1);
        (0..n).map(|_| f(self)).collect()
    }
    pub fn text(&mut self, max: usize) -> String {
        match self.r.below(6) {
            0 => String::new(),
            1 => "x".repeat(if self.r.bool() { 64 } else { 65 }),
            _ => gen_text(self.r, max),
        }
    }

    // ---- shared types --------------------------------------------------------------------
    pub fn rational(&mut self) -> RationalNumber {
        RationalNumber { numerator: self.u64(), denominator: self.u64() }
    }
    pub fn relay(&mut self) -> Relay {
        match self.r.below(3) {
            0 => Relay::SingleHostAddr(self.opt(|g| g.u32()), self.opt(|g| g.nbytes(4)), self.opt(|g| g.nbytes(16))),
            1 => Relay::SingleHostName(self.opt(|g| g.u32()), self.text(40)),
            _ => Relay::MultiHostName(self.text(40)),
        }
    }
    pub fn pool_metadata(&mut self) -> PoolMetadata {
        PoolMetadata { url: self.text(64), hash: self.nbytes(32) }
    }
    pub fn nonce(&mut self) -> Nonce {
        if self.r.bool() {
            Nonce { variant: NonceVariant::NeutralNonce, hash: None }
        } else {
            Nonce { variant: NonceVariant::Nonce, hash: Some(self.h32()) }
        }
    }
    pub fn stake_cred(&mut self) -> StakeCredential {
        if self.r.bool() {
            StakeCredential::AddrKeyhash(self.h28())
        } else {
            StakeCredential::ScriptHash(self.h28())
        }
    }
    pub fn tx_input(&mut self) -> TransactionInput {
        TransactionInput { transaction_id: self.h32(), index: self.u64() }
    }
    pub fn ex_units(&mut self) -> ExUnits {
        ExUnits { mem: self.u64(), steps: self.u64() }
    }
    pub fn ex_unit_prices(&mut self) -> ExUnitPrices {
        ExUnitPrices { mem_price: self.rational(), step_price: self.rational() }
    }
    pub fn network_id(&mut self) -> NetworkId {
        if self.r.bool() {
            NetworkId::Testnet
        } else {
            NetworkId::Mainnet
        }
    }
    pub fn vrf_cert(&mut self) -> VrfCert {
        VrfCert(self.nbytes(64), self.nbytes(80))
    }
    pub fn cost_model(&mut self) -> Vec<i64> {
        self.vec(0, 6, |g| g.i64())
    }
    pub fn reward_account(&mut self) -> Bytes {
        self.nbytes(29)
    }
    pub fn withdrawals(&mut self) -> BTreeMap<Bytes, u64> {
        self.vec(0, 3, |g| (g.reward_account(), g.u64())).into_iter().collect()
    }

    pub fn metadatum(&mut self, depth: usize) -> Metadatum {
        let k = if depth == 0 { self.r.below(3) } else { self.r.below(6) };
        match k {
            0 => Metadatum::Int(int_of(gen_cbor_int(self.r))),
            1 => Metadatum::Bytes(self.bytes(70)),
            2 => Metadatum::Text(self.text(70)),
            3 => Metadatum::Array(self.vec(0, 3, |g| g.metadatum(depth - 1))),
            _ => {
                let kv = self.vec(0, 3, |g| (g.metadatum(depth - 1), g.metadatum(depth - 1)));
                Metadatum::Map(if self.r.bool() { KeyValuePairs::Def(kv) } else { KeyValuePairs::Indef(kv) })
            }
        }
    }
    pub fn metadata(&mut self) -> Metadata {
        self.vec(0, 3, |g| {
            let d = g.r.usize_below(5);
            (g.u64(), g.metadatum(d))
        })
        .into_iter()
        .collect()
    }
    pub fn native_script(&mut self, depth: usize) -> alonzo::NativeScript {
        use alonzo::NativeScript::*;
        let k = if depth == 0 { *self.r.pick(&[0u64, 4, 5]) } else { self.r.below(6) };
        match k {
            0 => ScriptPubkey(self.h28()),
            1 => ScriptAll(self.vec(0, 3, |g| g.native_script(depth - 1))),
            2 => ScriptAny(self.vec(0, 3, |g| g.native_script(depth - 1))),
            3 => ScriptNOfK(self.u32(), self.vec(0, 3, |g| g.native_script(depth - 1))),
            4 => InvalidBefore(self.u64()),
            _ => InvalidHereafter(self.u64()),
        }
    }
    pub fn plutus_script<const V: usize>(&mut self) -> PlutusScript<V> {
        PlutusScript(self.bytes(90))
    }
    pub fn aux_data(&mut self) -> alonzo::AuxiliaryData {
        match self.r.below(3) {
            0 => alonzo::AuxiliaryData::Shelley(self.metadata()),
            1 => alonzo::AuxiliaryData::ShelleyMa(alonzo::ShelleyMaAuxiliaryData {
                transaction_metadata: self.metadata(),
                auxiliary_scripts: self.opt(|g| g.vec(0, 2, |g| g.native_script(2))),
            }),
            _ => alonzo::AuxiliaryData::PostAlonzo(alonzo::PostAlonzoAuxiliaryData {
                metadata: self.opt(|g| g.metadata()),
                native_scripts: self.opt(|g| g.vec(0, 2, |g| g.native_script(2))),
                plutus_scripts: self.opt(|g| g.vec(0, 2, |g| g.plutus_script::<1>())),
            }),
        }
    }

    // ---- multi-asset ---------------------------------------------------------------------
    pub fn multiasset<A>(&mut self, mut f: impl FnMut(&mut Self) -> A) -> BTreeMap<Hash<28>, BTreeMap<Bytes, A>> {
        let np = self.r.usize_below(3);
        let mut m = BTreeMap::new();
        for _ in 0..np {
            let p = self.h28();
            let na = self.r.usize_below(3);
            let mut inner = BTreeMap::new();
            for _ in 0..na {
                inner.insert(self.bytes(32), f(self));
            }
            m.insert(p, inner);
        }
        m
    }
    pub fn alonzo_value(&mut self) -> alonzo::Value {
        if self.r.bool() {
            alonzo::Value::Coin(self.u64())
        } else {
            alonzo::Value::Multiasset(self.u64(), self.multiasset(|g| g.u64()))
        }
    }
    pub fn alonzo_mint(&mut self) -> alonzo::Mint {
        self.multiasset(|g| g.i64())
    }
    pub fn positive_coin(&mut self) -> PositiveCoin {
        PositiveCoin::try_from(self.u64().max(1)).unwrap()
    }
    pub fn non_zero_int(&mut self) -> NonZeroInt {
        let v = self.i64();
        NonZeroInt::try_from(if v == 0 { -1 } else { v }).unwrap()
    }
    pub fn conway_value(&mut self) -> conway::Value {
        if self.r.bool() {
            conway::Value::Coin(self.u64())
        } else {
            conway::Value::Multiasset(self.u64(), self.multiasset(|g| g.positive_coin()))
        }
    }
    pub fn conway_mint(&mut self) -> conway::Mint {
        self.multiasset(|g| g.non_zero_int())
    }

    // ---- alonzo --------------------------------------------------------------------------
    pub fn alonzo_tx_output(&mut self) -> alonzo::TransactionOutput {
        alonzo::TransactionOutput { address: self.bytes(57), amount: self.alonzo_value(), datum_hash: self.opt(|g| g.h32()) }
    }
    pub fn mir(&mut self) -> alonzo::MoveInstantaneousReward {
        alonzo::MoveInstantaneousReward {
            source: if self.r.bool() { alonzo::InstantaneousRewardSource::Reserves } else { alonzo::InstantaneousRewardSource::Treasury },
            target: if self.r.bool() {
                alonzo::InstantaneousRewardTarget::StakeCredentials(self.vec(0, 3, |g| (g.stake_cred(), g.i64())).into_iter().collect())
            } else {
                alonzo::InstantaneousRewardTarget::OtherAccountingPot(self.u64())
            },
        }
    }
    pub fn alonzo_cert(&mut self) -> alonzo::Certificate {
        use alonzo::Certificate::*;
        match self.r.below(7) {
            0 => StakeRegistration(self.stake_cred()),
            1 => StakeDeregistration(self.stake_cred()),
            2 => StakeDelegation(self.stake_cred(), self.h28()),
            3 => PoolRegistration {
                operator: self.h28(),
                vrf_keyhash: self.h32(),
                pledge: self.u64(),
                cost: self.u64(),
                margin: self.rational(),
                reward_account: self.reward_account(),
                pool_owners: self.vec(0, 3, |g| g.h28()),
                relays: self.vec(0, 3, |g| g.relay()),
                pool_metadata: self.opt(|g| g.pool_metadata()),
            },
            4 => PoolRetirement(self.h28(), self.u64()),
            5 => GenesisKeyDelegation(self.nbytes(28), self.nbytes(28), self.h32()),
            _ => MoveInstantaneousRewardsCert(self.mir()),
        }
    }
    pub fn alonzo_cost_models(&mut self) -> alonzo::CostModels {
        let mut m = BTreeMap::new();
        if self.some() {
            m.insert(alonzo::Language::PlutusV1, self.cost_model());
        }
        m
    }
    pub fn alonzo_ppu(&mut self) -> alonzo::ProtocolParamUpdate {
        alonzo::ProtocolParamUpdate {
            minfee_a: self.opt(|g| g.u32()),
            minfee_b: self.opt(|g| g.u32()),
            max_block_body_size: self.opt(|g| g.u32()),
            max_transaction_size: self.opt(|g| g.u32()),
            max_block_header_size: self.opt(|g| g.u32()),
            key_deposit: self.opt(|g| g.u64()),
            pool_deposit: self.opt(|g| g.u64()),
            maximum_epoch: self.opt(|g| g.u64()),
            desired_number_of_stake_pools: self.opt(|g| g.u32()),
            pool_pledge_influence: self.opt(|g| g.rational()),
            expansion_rate: self.opt(|g| g.rational()),
            treasury_growth_rate: self.opt(|g| g.rational()),
            decentralization_constant: self.opt(|g| g.rational()),
            extra_entropy: self.opt(|g| g.nonce()),
            protocol_version: self.opt(|g| (g.u64(), g.u64())),
            min_pool_cost: self.opt(|g| g.u64()),
            ada_per_utxo_byte: self.opt(|g| g.u64()),
            cost_models_for_script_languages: self.opt(|g| g.alonzo_cost_models()),
            execution_costs: self.opt(|g| g.ex_unit_prices()),
            max_tx_ex_units: self.opt(|g| g.ex_units()),
            max_block_ex_units: self.opt(|g| g.ex_units()),
            max_value_size: self.opt(|g| g.u32()),
            collateral_percentage: self.opt(|g| g.u32()),
            max_collateral_inputs: self.opt(|g| g.u32()),
        }
    }
    pub fn alonzo_update(&mut self) -> alonzo::Update {
        alonzo::Update {
            proposed_protocol_parameter_updates: self.vec(0, 2, |g| (g.nbytes(28), g.alonzo_ppu())).into_iter().collect(),
            epoch: self.u64(),
        }
    }
    pub fn alonzo_tx_body(&mut self) -> alonzo::TransactionBody {
        alonzo::TransactionBody {
            inputs: self.vec(0, 3, |g| g.tx_input()),
            outputs: self.vec(0, 3, |g| g.alonzo_tx_output()),
            fee: self.u64(),
            ttl: self.opt(|g| g.u64()),
            certificates: self.opt(|g| g.vec(0, 3, |g| g.alonzo_cert())),
            withdrawals: self.opt(|g| g.withdrawals()),
            update: self.opt(|g| g.alonzo_update()),
            auxiliary_data_hash: self.opt(|g| g.h32()),
            validity_interval_start: self.opt(|g| g.u64()),
            mint: self.opt(|g| g.alonzo_mint()),
            script_data_hash: self.opt(|g| g.h32()),
            collateral: self.opt(|g| g.vec(0, 2, |g| g.tx_input())),
            required_signers: self.opt(|g| g.vec(0, 2, |g| g.h28())),
            network_id: self.opt(|g| g.network_id()),
        }
    }
    pub fn alonzo_redeemer(&mut self) -> alonzo::Redeemer {
        alonzo::Redeemer {
            tag: *self.r.pick(&[alonzo::RedeemerTag::Spend, alonzo::RedeemerTag::Mint, alonzo::RedeemerTag::Cert, alonzo::RedeemerTag::Reward]),
            index: self.u32(),
            data: gen_pd_small(self.r),
            ex_units: self.ex_units(),
        }
    }
    pub fn alonzo_header(&mut self) -> alonzo::Header {
        alonzo::Header {
            header_body: alonzo::HeaderBody {
                block_number: self.u64(),
                slot: self.u64(),
                prev_hash: self.opt(|g| g.h32()),
                issuer_vkey: self.nbytes(32),
                vrf_vkey: self.nbytes(32),
                nonce_vrf: self.vrf_cert(),
                leader_vrf: self.vrf_cert(),
                block_body_size: self.u64(),
                block_body_hash: self.h32(),
                operational_cert_hot_vkey: self.nbytes(32),
                operational_cert_sequence_number: self.u64(),
                operational_cert_kes_period: self.u64(),
                operational_cert_sigma: self.nbytes(64),
                protocol_major: self.u64(),
                protocol_minor: self.u64(),
            },
            body_signature: self.nbytes(448),
        }
    }
    pub fn vkey_witness(&mut self) -> alonzo::VKeyWitness {
        alonzo::VKeyWitness { vkey: self.nbytes(32), signature: self.nbytes(64) }
    }
    pub fn bootstrap_witness(&mut self) -> alonzo::BootstrapWitness {
        alonzo::BootstrapWitness { public_key: self.nbytes(32), signature: self.nbytes(64), chain_code: self.nbytes(32), attributes: self.bytes(40) }
    }

    // ---- babbage -------------------------------------------------------------------------
    pub fn babbage_cost_models(&mut self) -> babbage::CostModels {
        babbage::CostModels { plutus_v1: self.opt(|g| g.cost_model()), plutus_v2: self.opt(|g| g.cost_model()) }
    }
    pub fn babbage_ppu(&mut self) -> babbage::ProtocolParamUpdate {
        babbage::ProtocolParamUpdate {
            minfee_a: self.opt(|g| g.u32()),
            minfee_b: self.opt(|g| g.u32()),
            max_block_body_size: self.opt(|g| g.u32()),
            max_transaction_size: self.opt(|g| g.u32()),
            max_block_header_size: self.opt(|g| g.u32()),
            key_deposit: self.opt(|g| g.u64()),
            pool_deposit: self.opt(|g| g.u64()),
            maximum_epoch: self.opt(|g| g.u64()),
            desired_number_of_stake_pools: self.opt(|g| g.u32()),
            pool_pledge_influence: self.opt(|g| g.rational()),
            expansion_rate: self.opt(|g| g.rational()),
            treasury_growth_rate: self.opt(|g| g.rational()),
            protocol_version: self.opt(|g| (g.u64(), g.u64())),
            min_pool_cost: self.opt(|g| g.u64()),
            ada_per_utxo_byte: self.opt(|g| g.u64()),
            cost_models_for_script_languages: self.opt(|g| g.babbage_cost_models()),
            execution_costs: self.opt(|g| g.ex_unit_prices()),
            max_tx_ex_units: self.opt(|g| g.ex_units()),
            max_block_ex_units: self.opt(|g| g.ex_units()),
            max_value_size: self.opt(|g| g.u32()),
            collateral_percentage: self.opt(|g| g.u32()),
            max_collateral_inputs: self.opt(|g| g.u32()),
        }
    }
    pub fn babbage_update(&mut self) -> babbage::Update {
        babbage::Update {
            proposed_protocol_parameter_updates: self.vec(0, 2, |g| (g.nbytes(28), g.babbage_ppu())).into_iter().collect(),
            epoch: self.u64(),
        }
    }
    pub fn babbage_header(&mut self) -> babbage::Header {
        babbage::Header {
            header_body: babbage::HeaderBody {
                block_number: self.u64(),
                slot: self.u64(),
                prev_hash: self.opt(|g| g.h32()),
                issuer_vkey: self.nbytes(32),
                vrf_vkey: self.nbytes(32),
                vrf_result: self.vrf_cert(),
                block_body_size: self.u64(),
                block_body_hash: self.h32(),
                operational_cert: babbage::OperationalCert {
                    operational_cert_hot_vkey: self.nbytes(32),
                    operational_cert_sequence_number: self.u64(),
                    operational_cert_kes_period: self.u64(),
                    operational_cert_sigma: self.nbytes(64),
                },
                protocol_version: (self.u64(), self.u64()),
            },
            body_signature: self.nbytes(448),
        }
    }

    // ---- conway --------------------------------------------------------------------------
    pub fn drep(&mut self) -> conway::DRep {
        match self.r.below(4) {
            0 => conway::DRep::Key(self.h28()),
            1 => conway::DRep::Script(self.h28()),
            2 => conway::DRep::Abstain,
            _ => conway::DRep::NoConfidence,
        }
    }
    pub fn anchor(&mut self) -> conway::Anchor {
        conway::Anchor { url: self.text(64), content_hash: self.h32() }
    }
    pub fn gov_action_id(&mut self) -> conway::GovActionId {
        conway::GovActionId { transaction_id: self.h32(), action_index: self.u32() }
    }
    pub fn voter(&mut self) -> conway::Voter {
        use conway::Voter::*;
        match self.r.below(5) {
            0 => ConstitutionalCommitteeKey(self.h28()),
            1 => ConstitutionalCommitteeScript(self.h28()),
            2 => DRepKey(self.h28()),
            3 => DRepScript(self.h28()),
            _ => StakePoolKey(self.h28()),
        }
    }
    pub fn vote(&mut self) -> conway::Vote {
        match self.r.below(3) {
            0 => conway::Vote::No,
            1 => conway::Vote::Yes,
            _ => conway::Vote::Abstain,
        }
    }
    pub fn voting_procedure(&mut self) -> conway::VotingProcedure {
        conway::VotingProcedure { vote: self.vote(), anchor: self.opt(|g| g.anchor()) }
    }
    pub fn voting_procedures(&mut self) -> conway::VotingProcedures {
        self.vec(0, 3, |g| {
            let inner: BTreeMap<conway::GovActionId, conway::VotingProcedure> = g.vec(0, 3, |g| (g.gov_action_id(), g.voting_procedure())).into_iter().collect();
            (g.voter(), inner)
        })
        .into_iter()
        .collect()
    }
    pub fn conway_cert(&mut self) -> conway::Certificate {
        use conway::Certificate::*;
        match self.r.below(17) {
            0 => StakeRegistration(self.stake_cred()),
            1 => StakeDeregistration(self.stake_cred()),
            2 => StakeDelegation(self.stake_cred(), self.h28()),
            3 => PoolRegistration {
                operator: self.h28(),
                vrf_keyhash: self.h32(),
                pledge: self.u64(),
                cost: self.u64(),
                margin: self.rational(),
                reward_account: self.reward_account(),
                pool_owners: Set::from(self.vec(0, 3, |g| g.h28())),
                relays: self.vec(0, 3, |g| g.relay()),
                pool_metadata: self.opt(|g| g.pool_metadata()),
            },
            4 => PoolRetirement(self.h28(), self.u64()),
            5 => Reg(self.stake_cred(), self.u64()),
            6 => UnReg(self.stake_cred(), self.u64()),
            7 => VoteDeleg(self.stake_cred(), self.drep()),
            8 => StakeVoteDeleg(self.stake_cred(), self.h28(), self.drep()),
            9 => StakeRegDeleg(self.stake_cred(), self.h28(), self.u64()),
            10 => VoteRegDeleg(self.stake_cred(), self.drep(), self.u64()),
            11 => StakeVoteRegDeleg(self.stake_cred(), self.h28(), self.drep(), self.u64()),
            12 => AuthCommitteeHot(self.stake_cred(), self.stake_cred()),
            13 => ResignCommitteeCold(self.stake_cred(), self.opt(|g| g.anchor())),
            14 => RegDRepCert(self.stake_cred(), self.u64(), self.opt(|g| g.anchor())),
            15 => UnRegDRepCert(self.stake_cred(), self.u64()),
            _ => UpdateDRepCert(self.stake_cred(), self.opt(|g| g.anchor())),
        }
    }
    /// `with_unknown`: also populate the `unknown` map (keys >= 3) — the decoder itself produces such values
    pub fn conway_cost_models(&mut self, with_unknown: bool) -> conway::CostModels {
        conway::CostModels {
            plutus_v1: self.opt(|g| g.cost_model()),
            plutus_v2: self.opt(|g| g.cost_model()),
            plutus_v3: self.opt(|g| g.cost_model()),
            unknown: if with_unknown { self.vec(1, 2, |g| (3 + g.r.below(6), g.cost_model())).into_iter().collect() } else { BTreeMap::new() },
        }
    }
    pub fn pool_voting_thresholds(&mut self) -> conway::PoolVotingThresholds {
        conway::PoolVotingThresholds {
            motion_no_confidence: self.rational(),
            committee_normal: self.rational(),
            committee_no_confidence: self.rational(),
            hard_fork_initiation: self.rational(),
            security_voting_threshold: self.rational(),
        }
    }
    pub fn drep_voting_thresholds(&mut self) -> conway::DRepVotingThresholds {
        conway::DRepVotingThresholds {
            motion_no_confidence: self.rational(),
            committee_normal: self.rational(),
            committee_no_confidence: self.rational(),
            update_constitution: self.rational(),
            hard_fork_initiation: self.rational(),
            pp_network_group: self.rational(),
            pp_economic_group: self.rational(),
            pp_technical_group: self.rational(),
            pp_governance_group: self.rational(),
            treasury_withdrawal: self.rational(),
        }
    }
    pub fn conway_ppu(&mut self) -> conway::ProtocolParamUpdate {
        conway::ProtocolParamUpdate {
            minfee_a: self.opt(|g| g.u64()),
            minfee_b: self.opt(|g| g.u64()),
            max_block_body_size: self.opt(|g| g.u64()),
            max_transaction_size: self.opt(|g| g.u64()),
            max_block_header_size: self.opt(|g| g.u64()),
            key_deposit: self.opt(|g| g.u64()),
            pool_deposit: self.opt(|g| g.u64()),
            maximum_epoch: self.opt(|g| g.u64()),
            desired_number_of_stake_pools: self.opt(|g| g.u64()),
            pool_pledge_influence: self.opt(|g| g.rational()),
            expansion_rate: self.opt(|g| g.rational()),
            treasury_growth_rate: self.opt(|g| g.rational()),
            min_pool_cost: self.opt(|g| g.u64()),
            ada_per_utxo_byte: self.opt(|g| g.u64()),
            cost_models_for_script_languages: self.opt(|g| g.conway_cost_models(false)),
            execution_costs: self.opt(|g| g.conway_ex_unit_prices()),
            max_tx_ex_units: self.opt(|g| g.ex_units()),
            max_block_ex_units: self.opt(|g| g.ex_units()),
            max_value_size: self.opt(|g| g.u64()),
            collateral_percentage: self.opt(|g| g.u64()),
            max_collateral_inputs: self.opt(|g| g.u64()),
            pool_voting_thresholds: self.opt(|g| g.pool_voting_thresholds()),
            drep_voting_thresholds: self.opt(|g| g.drep_voting_thresholds()),
            min_committee_size: self.opt(|g| g.u64()),
            committee_term_limit: self.opt(|g| g.u64()),
            governance_action_validity_period: self.opt(|g| g.u64()),
            governance_action_deposit: self.opt(|g| g.u64()),
            drep_deposit: self.opt(|g| g.u64()),
            drep_inactivity_period: self.opt(|g| g.u64()),
            minfee_refscript_cost_per_byte: self.opt(|g| g.rational()),
        }
    }
    pub fn constitution(&mut self) -> conway::Constitution {
        conway::Constitution { anchor: self.anchor(), guardrail_script: self.opt(|g| g.h28()) }
    }
    pub fn gov_action(&mut self) -> conway::GovAction {
        use conway::GovAction::*;
        match self.r.below(7) {
            0 => ParameterChange(self.opt(|g| g.gov_action_id()), Box::new(self.conway_ppu()), self.opt(|g| g.h28())),
            1 => HardForkInitiation(self.opt(|g| g.gov_action_id()), (self.u64(), self.u64())),
            2 => TreasuryWithdrawals(self.withdrawals(), self.opt(|g| g.h28())),
            3 => NoConfidence(self.opt(|g| g.gov_action_id())),
            4 => UpdateCommittee(
                self.opt(|g| g.gov_action_id()),
                Set::from(self.vec(0, 3, |g| g.stake_cred())),
                self.vec(0, 3, |g| (g.stake_cred(), g.u64())).into_iter().collect(),
                self.rational(),
            ),
            5 => NewConstitution(self.opt(|g| g.gov_action_id()), self.constitution()),
            _ => Information,
        }
    }
    pub fn proposal_procedure(&mut self) -> conway::ProposalProcedure {
        conway::ProposalProcedure { deposit: self.u64(), reward_account: self.reward_account(), gov_action: self.gov_action(), anchor: self.anchor() }
    }
    pub fn conway_redeemer_tag(&mut self) -> conway::RedeemerTag {
        use conway::RedeemerTag::*;
        *self.r.pick(&[Spend, Mint, Cert, Reward, Vote, Propose])
    }
    pub fn conway_redeemers(&mut self) -> conway::Redeemers {
        if self.r.bool() {
            conway::Redeemers::List(self.vec(0, 3, |g| conway::Redeemer { tag: g.conway_redeemer_tag(), index: g.u32(), data: gen_pd_small(g.r), ex_units: g.ex_units() }))
        } else {
            conway::Redeemers::Map(
                self.vec(0, 3, |g| {
                    (conway::RedeemersKey { tag: g.conway_redeemer_tag(), index: g.u32() }, conway::RedeemersValue { data: gen_pd_small(g.r), ex_units: g.ex_units() })
                })
                .into_iter()
                .collect(),
            )
        }
    }
    pub fn conway_ex_unit_prices(&mut self) -> conway::ExUnitPrices {
        conway::ExUnitPrices { mem_price: self.rational(), step_price: self.rational() }
    }
    pub fn conway_update(&mut self) -> conway::Update {
        conway::Update {
            proposed_protocol_parameter_updates: self.vec(0, 2, |g| (g.nbytes(28), g.conway_ppu())).into_iter().collect(),
            epoch: self.u64(),
        }
    }
    pub fn required_signers(&mut self) -> conway::RequiredSigners {
        NonEmptySet::from_vec(self.vec(1, 3, |g| g.h28())).unwrap()
    }
    pub fn cert_set(&mut self) -> NonEmptySet<conway::Certificate> {
        NonEmptySet::from_vec(self.vec(1, 3, |g| g.conway_cert())).unwrap()
    }
    pub fn proposal_set(&mut self) -> NonEmptySet<conway::ProposalProcedure> {
        NonEmptySet::from_vec(self.vec(1, 2, |g| g.proposal_procedure())).unwrap()
    }

    // ---- byron ---------------------------------------------------------------------------
    pub fn byron_address(&mut self) -> byron::Address {
        let n = self.r.usize_below(80);
        byron::Address { payload: TagWrap::new(ByteVec::from(self.r.bytes(n))), crc: self.u32() }
    }
    pub fn byron_txin(&mut self) -> byron::TxIn {
        if self.r.chance(2, 3) {
            byron::TxIn::Variant0(CborWrap((self.h32(), self.u32())))
        } else {
            let n = self.r.usize_below(40);
            byron::TxIn::Other(1 + self.r.below(255) as u8, ByteVec::from(self.r.bytes(n)))
        }
    }
    pub fn byron_twit(&mut self) -> byron::Twit {
        let bv = |g: &mut Self, max: usize| { let n = g.r.usize_below(max); ByteVec::from(g.r.bytes(n)) };
        match self.r.below(4) {
            0 => byron::Twit::PkWitness(CborWrap((bv(self, 70), bv(self, 70)))),
            1 => byron::Twit::ScriptWitness(CborWrap(((self.r.below(65536) as u16, bv(self, 40)), (self.r.below(65536) as u16, bv(self, 40))))),
            2 => byron::Twit::RedeemWitness(CborWrap((bv(self, 40), bv(self, 70)))),
            _ => byron::Twit::Other(3 + self.r.below(253) as u8, bv(self, 40)),
        }
    }
    pub fn byron_txout(&mut self) -> byron::TxOut {
        byron::TxOut { address: self.byron_address(), amount: self.u64() }
    }
    pub fn byron_tx(&mut self) -> byron::Tx {
        let ins = self.vec(0, 3, |g| g.byron_txin());
        let outs = self.vec(0, 3, |g| g.byron_txout());
        byron::Tx {
            inputs: if self.r.bool() { MaybeIndefArray::Def(ins) } else { MaybeIndefArray::Indef(ins) },
            outputs: if self.r.bool() { MaybeIndefArray::Def(outs) } else { MaybeIndefArray::Indef(outs) },
            attributes: EmptyMap,
        }
    }
}
