//! netgen — generators for every message variant of every mini-protocol of BOTH network stacks.
//!
//! # API in one screen
//!
//! ```ignore
//! use pv::netgen::*;
//! let mut g = G::new(&mut rng);                         // generation context (PRNG + trace of variants used)
//!
//! // pallas-network2 (P2P stack)
//! let (m, label) = gen_n2_any_message(&mut rng);         // (behavior::AnyMessage, "v2:chainsync::RollForward")
//! let (m, label) = gen_n2_message(&mut g, N2Proto::ChainSync);   // pick the protocol yourself
//! let bytes      = encode_n2(&m);                        // == AnyMessage::payload()
//! let ch         = n2_channel(&m);                       // channel id
//! // typed per-protocol generators: n2_handshake_n2n(g), n2_handshake_n2c(g), n2_chainsync(g), n2_blockfetch(g),
//! // n2_txsubmission(g), n2_keepalive(g), n2_peersharing(g), n2_leiosnotify(g), n2_leiosfetch(g)  -> Message types
//!
//! // pallas-network (client/server stack)
//! let (m, label) = gen_n1_message(&mut g, N1Proto::LocalTxSubmission);  // (N1Msg, "localtxsubmission::RejectTx")
//! let bytes      = m.encode()?;                          // Result<Vec<u8>, String> (encoder panics are caught)
//! let (m2, used) = N1Msg::decode(N1Proto::LocalTxSubmission, &bytes)?;
//! ```
//!
//! * Every generator of a sum type calls `g.pick(&T_xxx)`, which records the atom `"Type::Variant"`
//!   in `g.trace`; `g.avoid` makes generators stay away from atoms (used by C22 to keep values that
//!   contain an already-reported broken component out of the checks of the enclosing types);
//!   `g.force` pins the variant of the next pick of a type (used to cover every variant).
//! * `registry()` lists every encodable type of both stacks bottom-up (components first, messages
//!   last) with a `run` function that generates one value and checks
//!   strict-well-formedness + decode(encode(v)) == v.  C22 walks it; C21/C09 use the message generators.
//! * Only wire-representable field combinations are generated (n2n `VersionData` has both or none of
//!   `peer_sharing`/`query`; `HeaderContent` has a byron prefix iff `variant == 0`; `AnyUInt` is never
//!   `U8(x<24)` — that one belongs to C03).

use crate::cbor;
use crate::prng::Rng;
use pallas_codec::minicbor::{self, Decode, Encode};
use pallas_codec::utils::{AnyCbor, AnyUInt, Bytes};
use pallas_network::miniprotocols as n1;
use pallas_network2::behavior::AnyMessage;
use pallas_network2::protocol as n2;
use std::collections::{BTreeSet, HashMap};
use std::fmt::Debug;

pub mod lsq;
pub mod ltx;

// ---------------------------------------------------------------------------------------
// generation context
// ---------------------------------------------------------------------------------------

/// A sum type (or a struct: one pseudo-variant "-") known to the generators.
pub struct Ty {
    pub name: &'static str,
    pub variants: &'static [&'static str],
}

impl Ty {
    pub fn atom(&self, i: usize) -> String {
        format!("{}::{}", self.name, self.variants[i])
    }
}

pub struct G<'r> {
    pub rng: &'r mut Rng,
    /// atoms ("Type::Variant") that are not generated unless forced
    pub avoid: BTreeSet<String>,
    /// the next pick of type `.0` takes variant `.1`
    pub force: Option<(&'static str, usize)>,
    /// atoms used while generating the current value
    pub trace: Vec<String>,
    /// a pick had no allowed variant (value must be discarded)
    pub blocked: bool,
    /// size budget; collections get short and recursion stops when it runs out
    pub fuel: i32,
}

impl<'r> G<'r> {
    pub fn new(rng: &'r mut Rng) -> G<'r> {
        G { rng, avoid: BTreeSet::new(), force: None, trace: vec![], blocked: false, fuel: 60 }
    }
    pub fn reset(&mut self) {
        self.trace.clear();
        self.blocked = false;
        self.fuel = 60;
    }
    /// choose a variant of `ty` (honours force / avoid), record the atom
    pub fn pick(&mut self, ty: &Ty) -> usize {
        self.pick_among(ty, None)
    }
    /// like pick, but when the fuel is exhausted choose only among `leaves` (non-recursive variants)
    pub fn pick_rec(&mut self, ty: &Ty, leaves: &[usize]) -> usize {
        if self.fuel <= 0 {
            self.pick_among(ty, Some(leaves))
        } else {
            self.pick_among(ty, None)
        }
    }
    /// pick among the given variant indices only (`None` = all)
    pub fn pick_among(&mut self, ty: &Ty, only: Option<&[usize]>) -> usize {
        self.fuel -= 1;
        if let Some((t, i)) = self.force {
            if t == ty.name {
                self.force = None;
                self.trace.push(ty.atom(i));
                return i;
            }
        }
        let n = ty.variants.len();
        let cands: Vec<usize> = match only {
            Some(o) => o.to_vec(),
            None => (0..n).collect(),
        };
        let allowed: Vec<usize> =
            if self.avoid.is_empty() { cands.clone() } else { cands.iter().copied().filter(|i| !self.avoid.contains(&ty.atom(*i))).collect() };
        let i = if allowed.is_empty() {
            self.blocked = true;
            *self.rng.pick(&cands)
        } else {
            *self.rng.pick(&allowed)
        };
        self.trace.push(ty.atom(i));
        i
    }
    /// Optional component: None with probability 1/3, and None when the component cannot be
    /// generated without an avoided atom.
    pub fn maybe<T>(&mut self, f: impl FnOnce(&mut G) -> T) -> Option<T> {
        if self.fuel <= 0 || self.rng.chance(1, 3) {
            return None;
        }
        let (b, tl) = (self.blocked, self.trace.len());
        let v = f(self);
        if self.blocked && !b {
            self.blocked = false;
            self.trace.truncate(tl);
            return None;
        }
        Some(v)
    }
    /// 0..=max elements (short when fuel is low); empty when an element cannot be generated cleanly
    pub fn vec<T>(&mut self, max: usize, mut f: impl FnMut(&mut G) -> T) -> Vec<T> {
        let n = self.count(0, max);
        let mut out = Vec::with_capacity(n);
        for _ in 0..n {
            let (b, tl) = (self.blocked, self.trace.len());
            let v = f(self);
            if self.blocked && !b {
                self.blocked = false;
                self.trace.truncate(tl);
                break;
            }
            out.push(v);
        }
        out
    }
    /// at least one element (blocked propagates)
    pub fn vec1<T>(&mut self, max: usize, mut f: impl FnMut(&mut G) -> T) -> Vec<T> {
        let n = self.count(1, max.max(1));
        (0..n).map(|_| f(self)).collect()
    }
    pub fn count(&mut self, min: usize, max: usize) -> usize {
        if self.fuel <= 0 {
            return min;
        }
        let n = match self.rng.below(8) {
            0 => min,
            1 => max,
            2 | 3 => min + self.rng.usize_below((max - min).min(2) + 1),
            _ => min + self.rng.usize_below(max - min + 1),
        };
        self.fuel -= n as i32;
        n
    }
    pub fn u64(&mut self) -> u64 {
        self.rng.edgy_u64()
    }
    pub fn u32(&mut self) -> u32 {
        match self.rng.below(4) {
            0 => *self.rng.pick(&[0u32, 1, 23, 24, 255, 256, 65535, 65536, u32::MAX - 1, u32::MAX]),
            1 => self.rng.below(300) as u32,
            _ => self.rng.next_u32() >> self.rng.below(32),
        }
    }
    pub fn u16(&mut self) -> u16 {
        match self.rng.below(4) {
            0 => *self.rng.pick(&[0u16, 1, 23, 24, 255, 256, 3001, 65534, 65535]),
            1 => self.rng.below(30) as u16,
            _ => self.rng.next_u32() as u16,
        }
    }
    pub fn u8(&mut self) -> u8 {
        match self.rng.below(3) {
            0 => *self.rng.pick(&[0u8, 1, 23, 24, 25, 127, 128, 255]),
            _ => self.rng.next_u8(),
        }
    }
    pub fn i64(&mut self) -> i64 {
        self.rng.edgy_i64()
    }
    pub fn bool(&mut self) -> bool {
        self.rng.bool()
    }
    /// byte string with boundary-biased length <= max
    pub fn bytes(&mut self, max: usize) -> Vec<u8> {
        let n = match self.rng.below(6) {
            0 => *self.rng.pick(&[0usize, 1, 23, 24, 28, 32, 64, 65, 255, 256]),
            1 | 2 => self.rng.usize_below(40),
            _ => self.rng.usize_below(max + 1),
        }
        .min(max);
        self.rng.bytes(n)
    }
    /// payload bytes (block / tx bodies): mostly small, sometimes around the 2-byte and 4-byte length
    /// heads and the 65535 segment limit
    pub fn payload(&mut self) -> Vec<u8> {
        let n = match self.rng.below(400) {
            0 => *self.rng.pick(&[65535usize, 65536, 65527, 65528, 70000, 131080]),
            1..=8 => *self.rng.pick(&[255usize, 256, 257, 1000, 4096]),
            _ => return self.bytes(200),
        };
        self.rng.bytes(n)
    }
    pub fn text(&mut self, max: usize) -> String {
        cbor::gen_text(self.rng, max)
    }
    pub fn hash28(&mut self) -> pallas_crypto::hash::Hash<28> {
        pallas_crypto::hash::Hash::from(self.rng.array::<28>())
    }
    pub fn hash32(&mut self) -> pallas_crypto::hash::Hash<32> {
        pallas_crypto::hash::Hash::from(self.rng.array::<32>())
    }
    pub fn cbytes(&mut self, max: usize) -> Bytes {
        Bytes::from(self.bytes(max))
    }
    /// any single well-formed CBOR item (own encoder)
    pub fn any_cbor(&mut self) -> AnyCbor {
        let d = 1 + self.rng.usize_below(3);
        AnyCbor::from_raw_bytes(cbor::gen_node(self.rng, d).to_vec())
    }
    /// AnyUInt in a form that is its own canonical decode (never U8(x<24))
    pub fn any_uint(&mut self) -> AnyUInt {
        let v = self.u64();
        match self.rng.below(6) {
            0 if v <= u16::MAX as u64 => AnyUInt::U16(v as u16),
            1 if v <= u32::MAX as u64 => AnyUInt::U32(v as u32),
            2 => AnyUInt::U64(v),
            _ => {
                if v < 24 {
                    AnyUInt::MajorByte(v as u8)
                } else if v < 256 {
                    AnyUInt::U8(v as u8)
                } else if v < 65536 {
                    AnyUInt::U16(v as u16)
                } else if v < (1 << 32) {
                    AnyUInt::U32(v as u32)
                } else {
                    AnyUInt::U64(v)
                }
            }
        }
    }
}

// ---------------------------------------------------------------------------------------
// checking one value: strict well-formedness + round trip
// ---------------------------------------------------------------------------------------

#[derive(Clone, Debug, PartialEq)]
pub enum Outcome {
    Ok,
    EncodePanic(String),
    EncodeErr(String),
    NotWellFormed(String),
    DecodePanic(String),
    DecodeErr(String),
    Leftover(usize, usize),
    Mismatch(String),
}

impl Outcome {
    /// stable rule name for signatures
    pub fn rule(&self) -> &'static str {
        match self {
            Outcome::Ok => "ok",
            Outcome::EncodePanic(_) => "encode-panic",
            Outcome::EncodeErr(_) => "encode-error",
            Outcome::NotWellFormed(_) => "not-wellformed",
            Outcome::DecodePanic(_) => "decode-panic",
            Outcome::DecodeErr(_) => "decode-error",
            Outcome::Leftover(..) => "decode-leftover",
            Outcome::Mismatch(_) => "roundtrip-mismatch",
        }
    }
}

pub struct Checked {
    pub outcome: Outcome,
    pub bytes: Option<Vec<u8>>,
    pub debug: String,
}

pub fn enc<T: Encode<()>>(v: &T) -> Result<Vec<u8>, Outcome> {
    match crate::panics::catch(|| minicbor::to_vec(v)) {
        Err(p) => Err(Outcome::EncodePanic(p.site())),
        Ok(Err(e)) => Err(Outcome::EncodeErr(e.to_string())),
        Ok(Ok(b)) => Ok(b),
    }
}

/// decode one value from the front of `b`; returns the value and the number of bytes consumed
pub fn dec<T: for<'b> Decode<'b, ()>>(b: &[u8]) -> Result<(T, usize), Outcome> {
    match crate::panics::catch(|| {
        let mut d = minicbor::Decoder::new(b);
        let r: Result<T, _> = d.decode();
        r.map(|v| (v, d.position()))
    }) {
        Err(p) => Err(Outcome::DecodePanic(p.site())),
        Ok(Err(e)) => Err(Outcome::DecodeErr(e.to_string())),
        Ok(Ok(x)) => Ok(x),
    }
}

/// default equality: Debug form and re-encoding
pub fn same_by_debug<T: Encode<()> + Debug>(a: &T, b: &T) -> Result<(), String> {
    let (da, db) = (format!("{a:?}"), format!("{b:?}"));
    if da != db {
        return Err(format!("Debug differs: sent {} got {}", clip(&da), clip(&db)));
    }
    same_by_reencoding(a, b)
}

pub fn same_by_reencoding<T: Encode<()>>(a: &T, b: &T) -> Result<(), String> {
    match (enc(a), enc(b)) {
        (Ok(x), Ok(y)) if x == y => Ok(()),
        (Ok(x), Ok(y)) => Err(format!("re-encoding differs: {} vs {}", crate::hex_short(&x), crate::hex_short(&y))),
        _ => Err("re-encoding failed".into()),
    }
}

pub fn clip(s: &str) -> String {
    if s.len() > 300 {
        let mut e = 300;
        while !s.is_char_boundary(e) {
            e -= 1;
        }
        format!("{}…", &s[..e])
    } else {
        s.to_string()
    }
}

pub fn check_value<T>(v: &T) -> Checked
where
    T: Encode<()> + for<'b> Decode<'b, ()> + Debug,
{
    check_value_with(v, same_by_debug)
}

pub fn check_value_with<T>(v: &T, same: impl Fn(&T, &T) -> Result<(), String>) -> Checked
where
    T: Encode<()> + for<'b> Decode<'b, ()> + Debug,
{
    let debug = clip(&format!("{v:?}"));
    let bytes = match enc(v) {
        Ok(b) => b,
        Err(o) => return Checked { outcome: o, bytes: None, debug },
    };
    if let Err(e) = cbor::strict_check(&bytes) {
        return Checked { outcome: Outcome::NotWellFormed(format!("{e:?}")), bytes: Some(bytes), debug };
    }
    let outcome = match dec::<T>(&bytes) {
        Err(o) => o,
        Ok((w, used)) => {
            if used != bytes.len() {
                Outcome::Leftover(used, bytes.len())
            } else {
                match same(v, &w) {
                    Ok(()) => Outcome::Ok,
                    Err(e) => Outcome::Mismatch(e),
                }
            }
        }
    };
    Checked { outcome, bytes: Some(bytes), debug }
}

// ---------------------------------------------------------------------------------------
// registry
// ---------------------------------------------------------------------------------------

pub struct TypeEntry {
    /// "v1" = pallas-network, "v2" = pallas-network2
    pub stack: &'static str,
    /// protocol the type belongs to
    pub group: &'static str,
    pub ty: &'static Ty,
    /// top-level protocol message type?
    pub is_message: bool,
    /// generate one value (honouring g.force / g.avoid) and check it
    pub run: fn(&mut G) -> Checked,
}

macro_rules! reg {
    ($v:ident, $stack:expr, $group:expr, $ty:expr, $msg:expr, $gen:expr) => {
        $v.push(TypeEntry { stack: $stack, group: $group, ty: $ty, is_message: $msg, run: |g: &mut G| check_value(&($gen)(g)) })
    };
    ($v:ident, $stack:expr, $group:expr, $ty:expr, $msg:expr, $gen:expr, $same:expr) => {
        $v.push(TypeEntry { stack: $stack, group: $group, ty: $ty, is_message: $msg, run: |g: &mut G| check_value_with(&($gen)(g), $same) })
    };
}
pub(crate) use reg;

/// every encodable type of both stacks, components before the types that contain them
pub fn registry() -> Vec<TypeEntry> {
    let mut v = vec![];
    registry_v1_core(&mut v);
    lsq::registry(&mut v);
    ltx::registry(&mut v);
    registry_v1_messages(&mut v);
    registry_v2(&mut v);
    v
}

include!("netgen/v1.rs");
include!("netgen/v2.rs");
