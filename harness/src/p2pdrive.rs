//! Helpers for driving the pallas-network2 behaviours from a harness that plays the
//! `Interface`: synchronous draining of the output stream, peer tables with a reproducible
//! `HashMap` iteration order, canned handshake messages, and a replay-based breadth-first
//! explorer (the behaviours are not `Clone`, so a state is re-created by replaying its prefix).

use crate::prng::Rng;
use futures::StreamExt;
use pallas_network2::behavior::AnyMessage;
use pallas_network2::protocol as proto;
use pallas_network2::{Behavior, BehaviorOutput, PeerId};
use std::collections::HashMap;
use std::net::Ipv4Addr;

/// poll the behaviour's output stream until it is not ready any more (noop waker)
pub fn drain<B: Behavior>(b: &mut B) -> Vec<BehaviorOutput<B>> {
    let mut out = Vec::new();
    let waker = futures::task::noop_waker();
    let mut cx = std::task::Context::from_waker(&waker);
    // bounded: an output stream that never runs dry would otherwise hang the harness
    for _ in 0..100_000 {
        match b.poll_next_unpin(&mut cx) {
            std::task::Poll::Ready(Some(o)) => out.push(o),
            _ => break,
        }
    }
    out
}

/// candidate peer: an IPv4 host string so that peer-sharing addresses can name it
pub fn candidate_pid(i: usize, salt: u32) -> PeerId {
    let ip = Ipv4Addr::new(10, (salt % 200) as u8, (i / 200) as u8, (i % 200 + 1) as u8);
    PeerId { host: ip.to_string(), port: 3000 + i as u16 }
}

pub fn pid_address(pid: &PeerId) -> proto::peersharing::PeerAddress {
    proto::peersharing::PeerAddress::V4(pid.host.parse().expect("ipv4 pid"), pid.port)
}

/// An empty map plus `n` peer ids such that, whatever subset of the ids is inserted in whatever
/// order, iteration visits them in the order of the returned vector (index 0 first).
///
/// `HashMap` uses a per-instance random hasher, and the behaviours iterate their `peers` map
/// during housekeeping, so without this the outcome of a sequence would differ from run to run.
/// The map is over-allocated so that the ids land in distinct buckets (checked by observation:
/// three different insertion orders must give the same iteration order), then the ids are
/// *named* by their iteration rank. Nothing inside pallas is touched; the behaviour receives an
/// ordinary empty `HashMap` through its public `peers` field.
pub fn ordered_peers<V>(n: usize, mk: &dyn Fn() -> V, r: &mut Rng) -> (HashMap<PeerId, V>, Vec<PeerId>) {
    let cap = (n * 24).max(28);
    let mut salt = 0u32;
    loop {
        salt += 1;
        let mut m: HashMap<PeerId, V> = HashMap::with_capacity(cap);
        let cands: Vec<PeerId> = (0..n).map(|i| candidate_pid(i, salt)).collect();
        let mut orders: Vec<Vec<PeerId>> = vec![];
        for round in 0..3 {
            m.clear();
            let mut idx: Vec<usize> = (0..n).collect();
            match round {
                0 => {}
                1 => idx.reverse(),
                _ => r.shuffle(&mut idx),
            }
            for i in idx {
                m.insert(cands[i].clone(), mk());
            }
            orders.push(m.keys().cloned().collect());
        }
        if orders[0] == orders[1] && orders[1] == orders[2] {
            m.clear();
            return (m, orders.remove(0));
        }
        if salt > 10_000 {
            panic!("ordered_peers: no collision-free table found");
        }
    }
}

/// true iff iteration order of `m` restricted to `ids` is increasing in the index of `ids`
pub fn order_is_canonical<V>(m: &HashMap<PeerId, V>, ids: &[PeerId]) -> bool {
    let mut last: Option<usize> = None;
    for k in m.keys() {
        if let Some(i) = ids.iter().position(|p| p == k) {
            if let Some(l) = last {
                if i < l {
                    return false;
                }
            }
            last = Some(i);
        }
    }
    true
}

pub fn std_version_data() -> proto::handshake::n2n::VersionData {
    proto::handshake::n2n::VersionData::new(proto::MAINNET_MAGIC, false, Some(1), Some(false))
}

/// version table offering the given versions with the standard data
pub fn version_table(versions: &[u64]) -> proto::handshake::n2n::VersionTable {
    proto::handshake::VersionTable { values: versions.iter().map(|v| (*v, std_version_data())).collect() }
}

pub fn propose_msg(versions: &[u64]) -> AnyMessage {
    AnyMessage::Handshake(proto::handshake::Message::Propose(version_table(versions)))
}

pub fn accept_msg(version: u64) -> AnyMessage {
    AnyMessage::Handshake(proto::handshake::Message::Accept(version, std_version_data()))
}

// ------------------------------------------------------------------------------------------
// replay-based breadth-first exploration
// ------------------------------------------------------------------------------------------

#[derive(Default, Debug, Clone)]
pub struct ExploreStats {
    /// distinct monitor-state keys seen (per depth: index = depth)
    pub new_states_per_depth: Vec<u64>,
    /// sequences executed (each = one replayed prefix + one new action)
    pub sequences_executed: u64,
    /// behaviour steps executed in total, replays included
    pub steps_executed: u64,
    /// extensions not expanded further because their state was already expanded at <= depth
    pub pruned: u64,
    /// replays whose prefix did not lead back to the recorded state (non-determinism)
    pub replay_divergences: u64,
    /// exploration stopped early (state cap): the sub-space was NOT executed completely
    pub truncated: bool,
    pub max_depth_reached: usize,
}

/// A system explored by replay: `S` is rebuilt by `fresh()` + `apply` of a prefix.
pub struct Explorer<'a, S, A> {
    pub fresh: &'a mut dyn FnMut() -> S,
    /// actions enabled in a state
    pub enabled: &'a dyn Fn(&S) -> Vec<A>,
    /// apply one action; `live` = this is the newly explored step (report what the monitor sees),
    /// otherwise it is a silent replay of an already-checked prefix step
    pub apply: &'a mut dyn FnMut(&mut S, &A, bool, &[A]),
    /// monitor-state key: everything that can influence future behaviour or future verdicts
    pub key: &'a dyn Fn(&S) -> u64,
}

impl<'a, S, A: Clone> Explorer<'a, S, A> {
    /// Breadth-first over all action sequences of length <= `max_depth` that extend one of
    /// `roots` (each root is executed live in full). A state reached again at the same or a
    /// greater depth is not expanded again.
    pub fn run(&mut self, roots: Vec<Vec<A>>, max_depth: usize, state_cap: usize) -> ExploreStats {
        self.run_collect(roots, max_depth, state_cap).0
    }

    /// like `run`, also returns up to 3 prefixes whose replay diverged
    pub fn run_collect(&mut self, roots: Vec<Vec<A>>, max_depth: usize, state_cap: usize) -> (ExploreStats, Vec<Vec<A>>) {
        self.run_split(roots, max_depth, state_cap, usize::MAX, &|_| true)
    }

    /// like `run_collect`; sequences of length `split_depth` are only expanded further when
    /// `owns(sequence)` — every shard explores the common top of the tree (deterministically the
    /// same in all shards) and then its own share of the sub-trees.
    pub fn run_split(&mut self, roots: Vec<Vec<A>>, max_depth: usize, state_cap: usize, split_depth: usize, owns: &dyn Fn(&[A]) -> bool) -> (ExploreStats, Vec<Vec<A>>) {
        let mut diverged: Vec<Vec<A>> = vec![];
        let mut st = ExploreStats { new_states_per_depth: vec![0; max_depth + 1], ..Default::default() };
        let mut seen: HashMap<u64, usize> = HashMap::new();
        // frontier entries: (sequence, key after it)
        let mut frontier: Vec<(Vec<A>, u64)> = vec![];
        let mut roots = roots;
        roots.sort_by_key(|r| r.len());
        let mut pending_roots = roots.into_iter().peekable();
        let mut depth = pending_roots.peek().map(|r| r.len()).unwrap_or(0);
        loop {
            // roots of this depth join the frontier
            while pending_roots.peek().map(|r| r.len() == depth).unwrap_or(false) {
                let root = pending_roots.next().unwrap();
                let mut s = (self.fresh)();
                for (i, a) in root.iter().enumerate() {
                    (self.apply)(&mut s, a, true, &root[..i]);
                    st.steps_executed += 1;
                }
                st.sequences_executed += 1;
                let k = (self.key)(&s);
                if let std::collections::hash_map::Entry::Vacant(e) = seen.entry(k) {
                    e.insert(depth);
                    st.new_states_per_depth[depth] += 1;
                    frontier.push((root, k));
                } else {
                    st.pruned += 1;
                }
            }
            st.max_depth_reached = depth;
            if depth >= max_depth {
                break;
            }
            let mut next: Vec<(Vec<A>, u64)> = vec![];
            for (seq, k) in frontier.drain(..) {
                // the enabled set is a function of the state: rebuild once to ask for it
                let mut s = (self.fresh)();
                for (i, a) in seq.iter().enumerate() {
                    (self.apply)(&mut s, a, false, &seq[..i]);
                    st.steps_executed += 1;
                }
                if (self.key)(&s) != k {
                    st.replay_divergences += 1;
                    if diverged.len() < 3 {
                        diverged.push(seq.clone());
                    }
                }
                let acts = (self.enabled)(&s);
                let mut first = Some(s);
                for a in acts {
                    let mut s = match first.take() {
                        Some(s) => s,
                        None => {
                            let mut s = (self.fresh)();
                            for (i, b) in seq.iter().enumerate() {
                                (self.apply)(&mut s, b, false, &seq[..i]);
                                st.steps_executed += 1;
                            }
                            s
                        }
                    };
                    (self.apply)(&mut s, &a, true, &seq);
                    st.steps_executed += 1;
                    st.sequences_executed += 1;
                    let nk = (self.key)(&s);
                    match seen.get(&nk) {
                        Some(_) => st.pruned += 1,
                        None => {
                            seen.insert(nk, depth + 1);
                            st.new_states_per_depth[depth + 1] += 1;
                            if depth + 1 < max_depth {
                                let mut ns = seq.clone();
                                ns.push(a.clone());
                                if ns.len() != split_depth || owns(&ns) {
                                    next.push((ns, nk));
                                }
                            }
                        }
                    }
                    if seen.len() > state_cap {
                        st.truncated = true;
                        return (st, diverged);
                    }
                }
            }
            frontier = next;
            depth += 1;
            if frontier.is_empty() && pending_roots.peek().is_none() {
                st.max_depth_reached = max_depth; // nothing left to expand: all longer sequences are covered by pruning
                break;
            }
        }
        (st, diverged)
    }
}

/// FNV-1a over a string (state keys)
pub fn hash_str(h: u64, s: &str) -> u64 {
    let mut h = h;
    for b in s.as_bytes() {
        h = (h ^ *b as u64).wrapping_mul(0x100000001b3);
    }
    (h ^ 0xff).wrapping_mul(0x100000001b3)
}

pub const HASH_INIT: u64 = 0xcbf29ce484222325;

/// `Debug` of a `HashMap` prints its entries in hasher order, which differs between two maps with
/// the same content. Rewrites every `values: {..}` block (handshake version tables) with its
/// top-level entries sorted, so that equal states print equally.
pub fn canon_version_tables(s: &str) -> String {
    let pat = "values: {";
    let mut out = String::with_capacity(s.len());
    let mut rest = s;
    while let Some(i) = rest.find(pat) {
        let start = i + pat.len();
        out.push_str(&rest[..start]);
        let bytes = rest.as_bytes();
        let mut depth = 1i32;
        let mut j = start;
        let mut entries: Vec<&str> = vec![];
        let mut last = start;
        while j < bytes.len() {
            match bytes[j] {
                b'{' | b'(' | b'[' => depth += 1,
                b'}' | b')' | b']' => {
                    depth -= 1;
                    if depth == 0 {
                        break;
                    }
                }
                b',' if depth == 1 => {
                    entries.push(rest[last..j].trim());
                    last = j + 1;
                }
                _ => {}
            }
            j += 1;
        }
        let tail = rest[last..j.min(rest.len())].trim();
        if !tail.is_empty() {
            entries.push(tail);
        }
        entries.sort();
        out.push_str(&entries.join(", "));
        rest = &rest[j.min(rest.len())..];
    }
    out.push_str(rest);
    out
}
