//! Own model of the Cardano block / transaction wire layout, built only on the own CBOR
//! walker (`crate::cbor`) and the reference Blake2b (`crate::refhash`). Used as the oracle of
//! C05 (hashes over on-wire spans), C30 (block traversal) and C31 (UTxO effects).
//! Nothing here calls pallas / minicbor / cryptoxide.

use crate::cbor::{self, Item, Node};
use crate::prng::Rng;
use crate::refhash;

/// strip set tags (258) from an item
pub fn untag(it: &Item) -> &Item {
    let mut cur = it;
    while cur.major == 6 && cur.arg == 258 && !cur.children.is_empty() {
        cur = &cur.children[0];
    }
    cur
}

pub fn uint_of(it: &Item) -> Option<u64> {
    if it.major == 0 {
        Some(it.arg)
    } else {
        None
    }
}

/// One transaction of a block as located by the own walker (spans are absolute in the block bytes).
#[derive(Clone, Debug)]
pub struct TxSpans {
    pub body: Item,
    pub wits: Item,
    /// auxiliary data entry keyed by this tx's index (Shelley+), if any
    pub aux: Option<Item>,
    /// index not listed among the invalid transactions
    pub valid: bool,
}

#[derive(Clone, Debug)]
pub struct BlockSpans {
    /// wrapper tag: 0 EBB, 1 Byron main, 2 Shelley .. 7 Conway
    pub tag: u64,
    pub header: Item,
    pub txs: Vec<TxSpans>,
    pub n_bodies: usize,
    pub n_wits: usize,
    /// keys of the auxiliary data map in wire order
    pub aux_keys: Vec<u64>,
    /// invalid transaction list in wire order (None: field absent)
    pub invalid: Option<Vec<u64>>,
}

pub fn era_name(tag: u64) -> &'static str {
    match tag {
        0 | 1 => "Byron",
        2 => "Shelley",
        3 => "Allegra",
        4 => "Mary",
        5 => "Alonzo",
        6 => "Babbage",
        7 => "Conway",
        _ => "?",
    }
}

/// Locate the parts of a wrapped block `[tag, block]`.
pub fn block_spans(src: &[u8]) -> Result<BlockSpans, String> {
    let top = cbor::parse(src).map_err(|e| format!("cbor: {e:?}"))?;
    block_spans_of(&top)
}

pub fn block_spans_of(top: &Item) -> Result<BlockSpans, String> {
    if top.major != 4 || top.children.len() != 2 {
        return Err("wrapper is not an array of 2".into());
    }
    let tag = uint_of(&top.children[0]).ok_or("wrapper tag is not a uint")?;
    let blk = &top.children[1];
    if blk.major != 4 {
        return Err("block is not an array".into());
    }
    match tag {
        0 => {
            if blk.children.len() != 3 {
                return Err("ebb: not 3 elements".into());
            }
            Ok(BlockSpans { tag, header: blk.children[0].clone(), txs: vec![], n_bodies: 0, n_wits: 0, aux_keys: vec![], invalid: None })
        }
        1 => {
            if blk.children.len() != 3 {
                return Err("byron: not 3 elements".into());
            }
            let body = &blk.children[1];
            if body.major != 4 || body.children.len() != 4 {
                return Err("byron body: not 4 elements".into());
            }
            let payload = &body.children[0];
            if payload.major != 4 {
                return Err("byron tx payload: not an array".into());
            }
            let mut txs = vec![];
            for p in &payload.children {
                if p.major != 4 || p.children.len() != 2 {
                    return Err("byron tx payload entry: not [tx, witnesses]".into());
                }
                txs.push(TxSpans { body: p.children[0].clone(), wits: p.children[1].clone(), aux: None, valid: true });
            }
            let n = txs.len();
            Ok(BlockSpans { tag, header: blk.children[0].clone(), txs, n_bodies: n, n_wits: n, aux_keys: vec![], invalid: None })
        }
        2..=7 => {
            let n = blk.children.len();
            if !(4..=5).contains(&n) {
                return Err(format!("block has {n} elements"));
            }
            let bodies = &blk.children[1];
            let wits = &blk.children[2];
            let aux = &blk.children[3];
            if bodies.major != 4 || wits.major != 4 || aux.major != 5 {
                return Err("bodies / witnesses / aux have wrong major types".into());
            }
            let mut aux_keys = vec![];
            for (k, _) in aux.map_entries() {
                aux_keys.push(uint_of(k).ok_or("aux key is not a uint")?);
            }
            let invalid = if n == 5 {
                let inv = &blk.children[4];
                if inv.major != 4 {
                    return Err("invalid_transactions is not an array".into());
                }
                let mut v = vec![];
                for c in &inv.children {
                    v.push(uint_of(c).ok_or("invalid tx index is not a uint")?);
                }
                Some(v)
            } else {
                None
            };
            let mut txs = vec![];
            for i in 0..bodies.children.len().min(wits.children.len()) {
                let a = aux.map_entries().find(|(k, _)| k.major == 0 && k.arg == i as u64).map(|(_, v)| v.clone());
                let valid = !invalid.as_ref().map(|v| v.contains(&(i as u64))).unwrap_or(false);
                txs.push(TxSpans { body: bodies.children[i].clone(), wits: wits.children[i].clone(), aux: a, valid });
            }
            Ok(BlockSpans {
                tag,
                header: blk.children[0].clone(),
                txs,
                n_bodies: bodies.children.len(),
                n_wits: wits.children.len(),
                aux_keys,
                invalid,
            })
        }
        _ => Err(format!("unknown wrapper tag {tag}")),
    }
}

// ---------------------------------------------------------------------------------------
// reference hashes
// ---------------------------------------------------------------------------------------

/// block / header hash: Byron hashes `[0|1, header]`, Shelley+ the header bytes
pub fn header_hash(tag: u64, header_bytes: &[u8]) -> [u8; 32] {
    match tag {
        0 | 1 => {
            let mut v = Vec::with_capacity(header_bytes.len() + 2);
            v.push(0x82);
            v.push(tag as u8);
            v.extend_from_slice(header_bytes);
            refhash::blake2b_256(&v)
        }
        _ => refhash::blake2b_256(header_bytes),
    }
}

pub fn script_hash(lang: u8, bytes: &[u8]) -> [u8; 28] {
    let mut v = Vec::with_capacity(bytes.len() + 1);
    v.push(lang);
    v.extend_from_slice(bytes);
    refhash::blake2b_224(&v)
}

// ---------------------------------------------------------------------------------------
// transaction body model (Shelley+ map bodies and Byron array txs)
// ---------------------------------------------------------------------------------------

pub type Ref = (Vec<u8>, u64);

#[derive(Clone, Debug)]
pub struct OutModel {
    pub span: (usize, usize),
    /// address bytes as they appear in the output
    pub address: Vec<u8>,
    pub coin: u64,
    /// post-alonzo map form
    pub map_form: bool,
}

#[derive(Clone, Debug, Default)]
pub struct TxModel {
    pub byron: bool,
    pub inputs: Vec<Ref>,
    pub outputs: Vec<OutModel>,
    pub collateral: Vec<Ref>,
    pub collateral_return: Option<OutModel>,
}

fn refs_of(src: &[u8], set: &Item) -> Result<Vec<Ref>, String> {
    let arr = untag(set);
    if arr.major != 4 {
        return Err("input set is not an array".into());
    }
    let mut v = vec![];
    for c in &arr.children {
        if c.major != 4 || c.children.len() != 2 || c.children[0].major != 2 || c.children[1].major != 0 {
            return Err("input is not [bytes, uint]".into());
        }
        v.push((c.children[0].str_payload(src), c.children[1].arg));
    }
    Ok(v)
}

fn coin_of(v: &Item) -> Result<u64, String> {
    match v.major {
        0 => Ok(v.arg),
        4 if !v.children.is_empty() && v.children[0].major == 0 => Ok(v.children[0].arg),
        _ => Err("value is neither coin nor [coin, assets]".into()),
    }
}

pub fn out_model(src: &[u8], o: &Item) -> Result<OutModel, String> {
    match o.major {
        4 => {
            if o.children.len() < 2 || o.children[0].major != 2 {
                return Err("legacy output is not [address, value, ..]".into());
            }
            Ok(OutModel { span: (o.start, o.end), address: o.children[0].str_payload(src), coin: coin_of(&o.children[1])?, map_form: false })
        }
        5 => {
            let a = o.map_get_uint(0).ok_or("output without address")?;
            let v = o.map_get_uint(1).ok_or("output without value")?;
            if a.major != 2 {
                return Err("output address is not bytes".into());
            }
            Ok(OutModel { span: (o.start, o.end), address: a.str_payload(src), coin: coin_of(v)?, map_form: true })
        }
        _ => Err("output is neither array nor map".into()),
    }
}

/// Model of a Shelley+ transaction body (a CBOR map)
pub fn body_model(src: &[u8], body: &Item) -> Result<TxModel, String> {
    if body.major != 5 {
        return Err("body is not a map".into());
    }
    let mut m = TxModel::default();
    m.inputs = refs_of(src, body.map_get_uint(0).ok_or("no inputs")?)?;
    let outs = body.map_get_uint(1).ok_or("no outputs")?;
    if outs.major != 4 {
        return Err("outputs is not an array".into());
    }
    for o in &outs.children {
        m.outputs.push(out_model(src, o)?);
    }
    if let Some(c) = body.map_get_uint(13) {
        m.collateral = refs_of(src, c)?;
    }
    if let Some(r) = body.map_get_uint(16) {
        m.collateral_return = Some(out_model(src, r)?);
    }
    Ok(m)
}

/// Model of a Byron tx `[[+ txin], [+ txout], attributes]`
pub fn byron_tx_model(src: &[u8], tx: &Item) -> Result<TxModel, String> {
    if tx.major != 4 || tx.children.len() != 3 {
        return Err("byron tx is not an array of 3".into());
    }
    let mut m = TxModel { byron: true, ..Default::default() };
    let ins = &tx.children[0];
    let outs = &tx.children[1];
    if ins.major != 4 || outs.major != 4 {
        return Err("byron inputs / outputs not arrays".into());
    }
    for i in &ins.children {
        if i.major != 4 || i.children.len() != 2 || i.children[0].major != 0 {
            return Err("byron txin shape".into());
        }
        if i.children[0].arg != 0 {
            return Err("byron txin variant != 0".into());
        }
        let w = &i.children[1];
        if w.major != 6 || w.children[0].major != 2 {
            return Err("byron txin not tag(bytes)".into());
        }
        let inner = w.children[0].str_payload(src);
        let it = cbor::parse(&inner).map_err(|e| format!("byron txin inner: {e:?}"))?;
        if it.major != 4 || it.children.len() != 2 || it.children[0].major != 2 || it.children[1].major != 0 {
            return Err("byron txin inner shape".into());
        }
        m.inputs.push((it.children[0].str_payload(&inner), it.children[1].arg));
    }
    for o in &outs.children {
        // [address = [tag24(bytes), crc], amount]
        if o.major != 4 || o.children.len() != 2 || o.children[1].major != 0 {
            return Err("byron txout shape".into());
        }
        let a = &o.children[0];
        if a.major != 4 || a.children.len() != 2 || a.children[0].major != 6 || a.children[0].children[0].major != 2 {
            return Err("byron address shape".into());
        }
        m.outputs.push(OutModel { span: (o.start, o.end), address: a.children[0].children[0].str_payload(src), coin: o.children[1].arg, map_form: false });
    }
    Ok(m)
}

/// distinct elements, first-occurrence order
pub fn dedup_first(xs: &[Ref]) -> Vec<Ref> {
    let mut out: Vec<Ref> = vec![];
    for x in xs {
        if !out.contains(x) {
            out.push(x.clone());
        }
    }
    out
}

/// UTxO effects by the phase-2 rule: (consumed refs as a sorted duplicate-free list, produced (index, output))
pub fn effects(m: &TxModel, valid: bool) -> (Vec<Ref>, Vec<(usize, OutModel)>) {
    if valid {
        let mut c = dedup_first(&m.inputs);
        c.sort();
        (c, m.outputs.iter().cloned().enumerate().collect())
    } else {
        let mut c = dedup_first(&m.collateral);
        c.sort();
        let p = match &m.collateral_return {
            Some(o) => vec![(m.outputs.len(), o.clone())],
            None => vec![],
        };
        (c, p)
    }
}

// ---------------------------------------------------------------------------------------
// point-wise restyling: a few local, semantics-preserving encoding changes at chosen nodes
// ---------------------------------------------------------------------------------------

pub fn count_nodes(n: &Node) -> usize {
    match n {
        Node::Array(xs, _) | Node::ArrayIndef(xs) => 1 + xs.iter().map(count_nodes).sum::<usize>(),
        Node::Map(xs, _) | Node::MapIndef(xs) => 1 + xs.iter().map(|(k, v)| count_nodes(k) + count_nodes(v)).sum::<usize>(),
        Node::Tag(_, _, x) => 1 + count_nodes(x),
        _ => 1,
    }
}

fn is_structural(n: &Node) -> bool {
    matches!(n, Node::Array(..) | Node::ArrayIndef(..) | Node::Map(..) | Node::MapIndef(..) | Node::Tag(..))
}

fn collect_structural(n: &Node, idx: &mut usize, out: &mut Vec<usize>) {
    let me = *idx;
    *idx += 1;
    if is_structural(n) {
        out.push(me);
    }
    match n {
        Node::Array(xs, _) | Node::ArrayIndef(xs) => xs.iter().for_each(|x| collect_structural(x, idx, out)),
        Node::Map(xs, _) | Node::MapIndef(xs) => xs.iter().for_each(|(k, v)| {
            collect_structural(k, idx, out);
            collect_structural(v, idx, out);
        }),
        Node::Tag(_, _, x) => collect_structural(x, idx, out),
        _ => {}
    }
}

fn min_w(arg: u64) -> u8 {
    if arg < 24 {
        0
    } else if arg < 256 {
        1
    } else if arg < 65536 {
        2
    } else if arg < (1 << 32) {
        4
    } else {
        8
    }
}

fn wider(rng: &mut Rng, arg: u64) -> Option<u8> {
    let m = min_w(arg);
    let opts: Vec<u8> = [1u8, 2, 4, 8].iter().copied().filter(|w| *w > m).collect();
    if opts.is_empty() {
        None
    } else {
        Some(*rng.pick(&opts))
    }
}

fn chunks(rng: &mut Rng, b: &[u8]) -> Vec<Vec<u8>> {
    let mut out = vec![];
    let mut p = 0;
    while p < b.len() {
        let n = 1 + rng.usize_below((b.len() - p).min(64));
        out.push(b[p..p + n].to_vec());
        p += n;
    }
    if out.is_empty() || rng.chance(1, 8) {
        let at = rng.usize_below(out.len() + 1);
        out.insert(at, vec![]);
    }
    out
}

/// style change of exactly this node (children untouched); returns the kind applied
fn restyle_one(n: &mut Node, rng: &mut Rng) -> Option<&'static str> {
    match n {
        Node::UInt(v, w) | Node::NInt(v, w) => {
            let nw = wider(rng, *v)?;
            if nw == *w {
                return None;
            }
            *w = nw;
            Some("int-head")
        }
        Node::Bytes(b, w) => {
            if rng.bool() {
                *n = Node::BytesIndef(chunks(rng, b));
                Some("bytes-chunked")
            } else {
                let nw = wider(rng, b.len() as u64)?;
                if nw == *w {
                    return None;
                }
                *w = nw;
                Some("bytes-head")
            }
        }
        Node::BytesIndef(cs) => {
            let all: Vec<u8> = cs.concat();
            *n = Node::Bytes(all, 0);
            Some("bytes-unchunked")
        }
        Node::Text(s, w) => {
            let nw = wider(rng, s.len() as u64)?;
            if nw == *w {
                return None;
            }
            *w = nw;
            Some("text-head")
        }
        Node::Array(xs, w) => {
            if rng.chance(2, 3) {
                *n = Node::ArrayIndef(std::mem::take(xs));
                Some("array-indef")
            } else {
                let nw = wider(rng, xs.len() as u64)?;
                if nw == *w {
                    return None;
                }
                *w = nw;
                Some("array-head")
            }
        }
        Node::ArrayIndef(xs) => {
            *n = Node::Array(std::mem::take(xs), 0);
            Some("array-def")
        }
        Node::Map(xs, w) => match rng.below(3) {
            0 if xs.len() > 1 => {
                let before = xs.clone();
                rng.shuffle(xs);
                if *xs == before {
                    xs.rotate_left(1);
                }
                Some("map-permuted")
            }
            1 => {
                *n = Node::MapIndef(std::mem::take(xs));
                Some("map-indef")
            }
            _ => {
                let nw = wider(rng, xs.len() as u64)?;
                if nw == *w {
                    return None;
                }
                *w = nw;
                Some("map-head")
            }
        },
        Node::MapIndef(xs) => {
            if xs.len() > 1 && rng.bool() {
                xs.rotate_left(1);
                Some("map-permuted")
            } else {
                *n = Node::Map(std::mem::take(xs), 0);
                Some("map-def")
            }
        }
        Node::Tag(t, w, x) => {
            if *t == 258 && rng.chance(2, 3) {
                let inner = std::mem::replace(&mut **x, Node::Null);
                *n = inner;
                Some("tag258-dropped")
            } else {
                let nw = wider(rng, *t)?;
                if nw == *w {
                    return None;
                }
                *w = nw;
                Some("tag-head")
            }
        }
        _ => None,
    }
}

fn restyle_walk(n: &mut Node, idx: &mut usize, targets: &[usize], rng: &mut Rng, applied: &mut Vec<&'static str>) {
    let me = *idx;
    *idx += 1;
    // children first (so that a dropped tag / converted container does not disturb numbering)
    match n {
        Node::Array(xs, _) | Node::ArrayIndef(xs) => xs.iter_mut().for_each(|x| restyle_walk(x, idx, targets, rng, applied)),
        Node::Map(xs, _) | Node::MapIndef(xs) => xs.iter_mut().for_each(|(k, v)| {
            restyle_walk(k, idx, targets, rng, applied);
            restyle_walk(v, idx, targets, rng, applied);
        }),
        Node::Tag(_, _, x) => restyle_walk(x, idx, targets, rng, applied),
        _ => {}
    }
    if targets.binary_search(&me).is_ok() {
        if let Some(k) = restyle_one(n, rng) {
            applied.push(k);
        }
    }
}

/// Apply up to `k` local style changes at random nodes (half of them drawn among containers / tags).
/// Returns the kinds of change applied.
pub fn restyle_points(node: &mut Node, rng: &mut Rng, k: usize) -> Vec<&'static str> {
    let total = count_nodes(node);
    let mut structural = vec![];
    let mut i = 0;
    collect_structural(node, &mut i, &mut structural);
    let mut targets = vec![];
    for _ in 0..k {
        if !structural.is_empty() && rng.bool() {
            targets.push(*rng.pick(&structural));
        } else {
            targets.push(rng.usize_below(total));
        }
    }
    targets.sort();
    targets.dedup();
    let mut applied = vec![];
    let mut idx = 0;
    restyle_walk(node, &mut idx, &targets, rng, &mut applied);
    applied
}

/// Navigate a Node by a path of steps; `Idx(i)` = i-th array element / tag content (i = 0),
/// `Key(k)` = value of the map entry with unsigned key k. Tags 258 are looked through.
#[derive(Clone, Copy, Debug)]
pub enum Step {
    Idx(usize),
    Key(u64),
}

pub fn node_at<'a>(n: &'a mut Node, path: &[Step]) -> Option<&'a mut Node> {
    if path.is_empty() {
        return Some(n);
    }
    match n {
        Node::Tag(258, _, x) => node_at(x, path),
        Node::Tag(_, _, x) => match path[0] {
            Step::Idx(0) => node_at(x, &path[1..]),
            _ => None,
        },
        Node::Array(xs, _) | Node::ArrayIndef(xs) => match path[0] {
            Step::Idx(i) => node_at(xs.get_mut(i)?, &path[1..]),
            _ => None,
        },
        Node::Map(xs, _) | Node::MapIndef(xs) => match path[0] {
            Step::Key(k) => {
                let e = xs.iter_mut().find(|(kk, _)| matches!(kk, Node::UInt(v, _) if *v == k))?;
                node_at(&mut e.1, &path[1..])
            }
            _ => None,
        },
        _ => None,
    }
}

/// wrap the node at `path` in tag 258 (if it is an array and not tagged already); true if done
pub fn add_tag258(root: &mut Node, path: &[Step]) -> bool {
    // find the parent-owned slot without looking through an existing 258 tag
    fn slot<'a>(n: &'a mut Node, path: &[Step]) -> Option<&'a mut Node> {
        if path.is_empty() {
            return Some(n);
        }
        match n {
            Node::Array(xs, _) | Node::ArrayIndef(xs) => match path[0] {
                Step::Idx(i) => slot(xs.get_mut(i)?, &path[1..]),
                _ => None,
            },
            Node::Map(xs, _) | Node::MapIndef(xs) => match path[0] {
                Step::Key(k) => {
                    let e = xs.iter_mut().find(|(kk, _)| matches!(kk, Node::UInt(v, _) if *v == k))?;
                    slot(&mut e.1, &path[1..])
                }
                _ => None,
            },
            _ => None,
        }
    }
    match slot(root, path) {
        Some(n) if matches!(n, Node::Array(..) | Node::ArrayIndef(..)) => {
            let inner = std::mem::replace(n, Node::Null);
            *n = Node::Tag(258, 0, Box::new(inner));
            true
        }
        _ => false,
    }
}
