//! History checker for multiplexed streams (C20).
//!
//! A *history* is a log of events recorded at the client boundary of a pair of connected
//! multiplexers: `Enq` (logged BEFORE the enqueue/write call, marked `ok` after the call
//! returned Ok) and `Deq` (logged AFTER the dequeue/read call returned), stamped by one
//! monotonic clock. A *stream* is (endpoint pair x protocol x direction); it has exactly one
//! sender and one receiving slot. The specification is per-stream exact sequence equality:
//! the sequence of chunks dequeued at the receiving slot equals the sequence enqueued.
//!
//! Chunk contents are self-describing (history nonce, stream id, sequence number, length,
//! PRNG body) when they are >= 16 bytes long; shorter chunks are PRNG bytes identified by
//! position. This makes loss / duplication / reorder / corruption / cross-stream leaks
//! distinguishable. Nothing in this module depends on pallas.

use crate::prng::Rng;
use std::collections::HashMap;
use std::sync::atomic::{AtomicBool, AtomicU64, AtomicUsize, Ordering};
use std::sync::Mutex;

pub const HDR_LEN: usize = 16;
pub const KIND_DATA: u8 = 0;
pub const KIND_FENCE: u8 = 1;
pub const KIND_PROBE: u8 = 2;
/// receiving slot id used for deliveries that cannot be attributed to any declared stream
pub const NO_STREAM: u16 = 0xFFFF;

/// fast 64-bit content hash (word-at-a-time multiply-rotate, avalanche at the end)
pub fn hash64(b: &[u8]) -> u64 {
    const K: u64 = 0x517c_c1b7_2722_0a95;
    let mut h: u64 = 0x9E37_79B9_7F4A_7C15 ^ (b.len() as u64).wrapping_mul(K);
    let mut it = b.chunks_exact(8);
    for w in &mut it {
        let w = u64::from_le_bytes([w[0], w[1], w[2], w[3], w[4], w[5], w[6], w[7]]);
        h = (h.rotate_left(5) ^ w).wrapping_mul(K);
    }
    for &x in it.remainder() {
        h = (h.rotate_left(5) ^ x as u64).wrapping_mul(K);
    }
    h ^= h >> 33;
    h = h.wrapping_mul(0xff51_afd7_ed55_8ccd);
    h ^= h >> 33;
    h = h.wrapping_mul(0xc4ce_b9fe_1a85_ec53);
    h ^ (h >> 33)
}

#[derive(Clone, Copy, Debug, PartialEq, Eq)]
pub struct Hdr {
    pub kind: u8,
    pub sid: u8,
    pub nonce: u32,
    pub seq: u32,
    pub len: u32,
}

pub fn parse_hdr(b: &[u8]) -> Option<Hdr> {
    if b.len() < HDR_LEN || b[0] != 0xC2 || b[1] != 0x0A {
        return None;
    }
    Some(Hdr {
        kind: b[2],
        sid: b[3],
        nonce: u32::from_be_bytes([b[4], b[5], b[6], b[7]]),
        seq: u32::from_be_bytes([b[8], b[9], b[10], b[11]]),
        len: u32::from_be_bytes([b[12], b[13], b[14], b[15]]),
    })
}

/// The unique content of chunk `seq` of stream `sid` in history `nonce`.
pub fn make_chunk(nonce: u32, sid: u16, seq: u32, len: usize, kind: u8) -> Vec<u8> {
    let mut r = Rng::derive(nonce as u64, "c20-chunk", ((sid as u64) << 40) | ((kind as u64) << 32) | seq as u64);
    let mut v = Vec::with_capacity(len);
    if len >= HDR_LEN {
        v.extend_from_slice(&[0xC2, 0x0A, kind, sid as u8]);
        v.extend_from_slice(&nonce.to_be_bytes());
        v.extend_from_slice(&seq.to_be_bytes());
        v.extend_from_slice(&(len as u32).to_be_bytes());
    }
    while v.len() + 8 <= len {
        v.extend_from_slice(&r.next_u64().to_le_bytes());
    }
    while v.len() < len {
        v.push(r.next_u8());
    }
    v
}

#[derive(Clone, Copy, Debug, PartialEq, Eq)]
pub enum EvKind {
    Enq,
    Deq,
}

#[derive(Clone, Debug)]
pub struct Event {
    pub clock: u64,
    pub kind: EvKind,
    /// Enq: the stream; Deq: the receiving slot (= the stream that slot serves)
    pub sid: u16,
    /// Enq only
    pub seq: u32,
    pub len: u32,
    pub hash: u64,
    pub hdr: Option<Hdr>,
    /// Enq only: the call returned Ok
    pub ok: bool,
}

#[derive(Clone, Debug)]
pub struct StreamSpec {
    pub sid: u16,
    pub pair: u16,
    pub proto: u16,
    /// "c2s" / "s2c" (v1) or "init" / "resp" (v2 mode bit of the writer)
    pub dir: &'static str,
    /// 0 = endpoint A sends, 1 = endpoint B sends
    pub from_ep: u8,
}

/// Thread-safe per-history log + progress/bookkeeping shared by all tasks of the history.
pub struct Shared {
    pub nonce: u32,
    pub clock: AtomicU64,
    pub log: Mutex<Vec<Event>>,
    pub sends_remaining: AtomicUsize,
    pub broken: AtomicBool,
    pub broken_why: Mutex<String>,
    pub abandoned_waits: AtomicU64,
    pub bytes: AtomicU64,
}

impl Shared {
    pub fn new(nonce: u32, sends: usize) -> Self {
        Shared {
            nonce,
            clock: AtomicU64::new(1),
            log: Mutex::new(Vec::with_capacity(1024)),
            sends_remaining: AtomicUsize::new(sends),
            broken: AtomicBool::new(false),
            broken_why: Mutex::new(String::new()),
            abandoned_waits: AtomicU64::new(0),
            bytes: AtomicU64::new(0),
        }
    }
    /// log an enqueue BEFORE the call; returns the log index for `mark_ok`
    pub fn enq(&self, sid: u16, seq: u32, data: &[u8]) -> usize {
        let hash = hash64(data);
        let hdr = parse_hdr(data);
        let mut g = self.log.lock().unwrap();
        let clock = self.clock.fetch_add(1, Ordering::SeqCst);
        g.push(Event { clock, kind: EvKind::Enq, sid, seq, len: data.len() as u32, hash, hdr, ok: false });
        g.len() - 1
    }
    pub fn mark_ok(&self, idx: usize) {
        let mut g = self.log.lock().unwrap();
        g[idx].ok = true;
        drop(g);
        self.sends_remaining.fetch_sub(1, Ordering::SeqCst);
        self.clock.fetch_add(1, Ordering::SeqCst);
    }
    /// log a delivery AFTER the call returned; returns the parsed header
    pub fn deq(&self, at: u16, data: &[u8]) -> Option<Hdr> {
        let hash = hash64(data);
        let hdr = parse_hdr(data);
        self.bytes.fetch_add(data.len() as u64, Ordering::Relaxed);
        let mut g = self.log.lock().unwrap();
        let clock = self.clock.fetch_add(1, Ordering::SeqCst);
        g.push(Event { clock, kind: EvKind::Deq, sid: at, seq: 0, len: data.len() as u32, hash, hdr, ok: true });
        hdr
    }
    pub fn set_broken(&self, why: &str) {
        if !self.broken.swap(true, Ordering::SeqCst) {
            *self.broken_why.lock().unwrap() = why.to_string();
        }
    }
    pub fn progress(&self) -> u64 {
        self.clock.load(Ordering::SeqCst)
    }
    pub fn take_log(&self) -> Vec<Event> {
        std::mem::take(&mut *self.log.lock().unwrap())
    }
}

#[derive(Clone, Debug)]
pub struct Finding {
    /// signature (without the property prefix): `<stack>:<kind>:<dir>:len=<class>`
    pub sig: String,
    pub what: String,
    pub sid: u16,
}

#[derive(Default, Debug)]
pub struct CheckResult {
    pub findings: Vec<Finding>,
    pub streams_checked: u64,
    pub streams_nonempty: u64,
    pub chunks_matched: u64,
    pub chunks_enqueued: u64,
    pub chunks_dequeued: u64,
    /// max number of streams simultaneously active (first enqueue .. last delivery)
    pub max_concurrent: u64,
    /// hash of the order of receiving-slot ids over all deliveries (global interleaving)
    pub interleaving_fp: u64,
    /// number of adjacent delivery pairs that belong to different streams
    pub switches: u64,
}

pub fn len_class(len: u32) -> &'static str {
    match len {
        0 => "zero",
        1..=15 => "short",
        65534 => "max-1",
        65535 => "max",
        65536.. => "multi-segment",
        _ => "mid",
    }
}

type Key = (u32, u64);
fn key(e: &Event) -> Key {
    (e.len, e.hash)
}

/// Per-stream exact sequence equality, with classification of the first divergence.
/// `complete`: the history reached its end (everything enqueued returned Ok and the
/// quiescence criterion was met), so a missing tail is a loss; otherwise only divergences
/// inside the delivered prefix (which no later event can repair) are reported.
pub fn check(stack: &str, streams: &[StreamSpec], events: &[Event], complete: bool) -> CheckResult {
    let mut res = CheckResult::default();
    let by_sid: HashMap<u16, &StreamSpec> = streams.iter().map(|s| (s.sid, s)).collect();
    let mut exp: HashMap<u16, Vec<&Event>> = HashMap::new();
    let mut got: HashMap<u16, Vec<&Event>> = HashMap::new();
    let mut ident: HashMap<Key, Vec<(u16, u32)>> = HashMap::new();
    let mut evs: Vec<&Event> = events.iter().collect();
    evs.sort_by_key(|e| e.clock);
    let mut order: Vec<u16> = Vec::new();
    let mut first_enq: HashMap<u16, u64> = HashMap::new();
    let mut last_deq: HashMap<u16, u64> = HashMap::new();
    for e in &evs {
        match e.kind {
            EvKind::Enq => {
                exp.entry(e.sid).or_default().push(e);
                ident.entry(key(e)).or_default().push((e.sid, e.seq));
                first_enq.entry(e.sid).or_insert(e.clock);
                res.chunks_enqueued += 1;
            }
            EvKind::Deq => {
                got.entry(e.sid).or_default().push(e);
                order.push(e.sid);
                last_deq.insert(e.sid, e.clock);
                res.chunks_dequeued += 1;
            }
        }
    }
    // global interleaving fingerprint + concurrency depth
    let mut h = 0x1234_5678_9abc_def0u64 ^ (streams.len() as u64);
    let mut prev = None;
    for s in &order {
        h = (h.rotate_left(7) ^ (*s as u64 + 1)).wrapping_mul(0x100000001b3);
        if prev.is_some() && prev != Some(*s) {
            res.switches += 1;
        }
        prev = Some(*s);
    }
    res.interleaving_fp = h ^ (h >> 31);
    let mut marks: Vec<(u64, i32)> = Vec::new();
    for (sid, a) in &first_enq {
        if let Some(b) = last_deq.get(sid) {
            if b > a {
                marks.push((*a, 1));
                marks.push((*b, -1));
            }
        }
    }
    marks.sort();
    let (mut cur, mut best) = (0i32, 0i32);
    for (_, d) in marks {
        cur += d;
        best = best.max(cur);
    }
    res.max_concurrent = best as u64;

    let describe = |e: &Event| -> String {
        match e.hdr {
            Some(h) => format!("len {} (header: kind {} stream {} seq {} len {})", e.len, h.kind, h.sid, h.seq, h.len),
            None => format!("len {} (no header, hash {:016x})", e.len, e.hash),
        }
    };
    let sname = |sid: u16| -> String {
        match by_sid.get(&sid) {
            Some(s) => format!("stream {} (pair {} proto {:#06x} {} from endpoint {})", sid, s.pair, s.proto, s.dir, if s.from_ep == 0 { "A" } else { "B" }),
            None => format!("undeclared slot {sid}"),
        }
    };

    // deliveries at slots that belong to no declared stream
    let mut sids: Vec<u16> = got.keys().copied().filter(|s| !by_sid.contains_key(s)).collect();
    sids.sort();
    for sid in sids {
        let g = &got[&sid];
        let e = g[0];
        res.findings.push(Finding {
            sig: format!("{stack}:spurious:undeclared-channel:len={}", len_class(e.len)),
            what: format!("{} deliveries surfaced on a channel/slot no stream was declared for; first: {}", g.len(), describe(e)),
            sid,
        });
    }

    let empty: Vec<&Event> = Vec::new();
    for s in streams {
        let e = exp.get(&s.sid).unwrap_or(&empty);
        let g = got.get(&s.sid).unwrap_or(&empty);
        res.streams_checked += 1;
        if !e.is_empty() {
            res.streams_nonempty += 1;
        }
        let mut cnt_exp: HashMap<Key, i64> = HashMap::new();
        let mut cnt_got: HashMap<Key, i64> = HashMap::new();
        for x in e.iter() {
            *cnt_exp.entry(key(x)).or_insert(0) += 1;
        }
        for x in g.iter() {
            *cnt_got.entry(key(x)).or_insert(0) += 1;
        }
        let n = e.len().min(g.len());
        let mut bad = None;
        for i in 0..n {
            if key(e[i]) != key(g[i]) {
                bad = Some(i);
                break;
            }
            res.chunks_matched += 1;
        }
        // classify a delivery that this stream did not expect (at that multiplicity)
        let surplus = |ev: &Event, pos: usize| -> (String, String) {
            let k = key(ev);
            if cnt_exp.contains_key(&k) {
                return ("duplicate".into(), format!("delivery #{pos} at {} repeats a chunk of the same stream: {}", sname(s.sid), describe(ev)));
            }
            if let Some(c) = ident.get(&k) {
                // prefer the most specific relation
                let mut rel = "other-protocol";
                let mut from = c[0];
                for &(osid, oseq) in c {
                    if let Some(o) = by_sid.get(&osid) {
                        let r = if o.pair == s.pair {
                            "echo"
                        } else if o.proto == s.proto {
                            "other-role"
                        } else {
                            "other-protocol"
                        };
                        let rank = |x: &str| match x {
                            "echo" => 0,
                            "other-role" => 1,
                            _ => 2,
                        };
                        if rank(r) <= rank(rel) {
                            rel = r;
                            from = (osid, oseq);
                        }
                    }
                }
                return (format!("leak:{rel}"), format!("delivery #{pos} at {} is chunk seq {} of {}: {}", sname(s.sid), from.1, sname(from.0), describe(ev)));
            }
            if let Some(h) = ev.hdr {
                let known = events.iter().any(|x| x.kind == EvKind::Enq && x.sid == h.sid as u16 && x.seq == h.seq && x.hdr.map(|y| y.nonce) == Some(h.nonce));
                if known {
                    return ("corruption".into(), format!("delivery #{pos} at {} carries the header of an enqueued chunk but different bytes/length: {}", sname(s.sid), describe(ev)));
                }
            }
            ("spurious".into(), format!("delivery #{pos} at {} matches nothing that was ever enqueued: {}", sname(s.sid), describe(ev)))
        };
        let mut report = |kind: String, lc: &str, what: String| {
            res.findings.push(Finding { sig: format!("{stack}:{kind}:{}:len={lc}", s.dir), what, sid: s.sid });
        };
        match bad {
            Some(i) => {
                let gk = key(g[i]);
                let ek = key(e[i]);
                if cnt_got[&gk] > cnt_exp.get(&gk).copied().unwrap_or(0) {
                    let (kind, what) = surplus(g[i], i);
                    report(kind, len_class(g[i].len), format!("{what}; expected chunk seq {} ({})", e[i].seq, describe(e[i])));
                } else {
                    let have = cnt_got.get(&ek).copied().unwrap_or(0);
                    let kind = if have >= cnt_exp[&ek] {
                        "reorder"
                    } else if complete {
                        "loss"
                    } else {
                        "reorder-or-loss"
                    };
                    report(
                        kind.into(),
                        len_class(e[i].len),
                        format!("{}: enqueued chunk seq {} ({}) was skipped: delivery #{i} is a later chunk of the same stream ({}); {} enqueued, {} delivered", sname(s.sid), e[i].seq, describe(e[i]), describe(g[i]), e.len(), g.len()),
                    );
                }
            }
            None => {
                if g.len() > e.len() {
                    let (kind, what) = surplus(g[e.len()], e.len());
                    report(kind, len_class(g[e.len()].len), format!("{what}; the stream had only {} chunks", e.len()));
                } else if g.len() < e.len() && complete && e[g.len()..].iter().any(|x| x.ok) {
                    let m = e[g.len()..].iter().find(|x| x.ok).unwrap();
                    report(
                        "loss".into(),
                        len_class(m.len),
                        format!("{}: {} chunks enqueued (all calls returned Ok), only the first {} delivered; first missing seq {} ({})", sname(s.sid), e.len(), g.len(), m.seq, describe(m)),
                    );
                }
            }
        }
    }
    res
}

/// Self-test of the checker on synthetic histories with injected faults. Returns the list of
/// failed expectations (empty = checker behaves as specified).
pub fn selftest() -> Vec<String> {
    let nonce = 0xABCD_0123;
    let streams = vec![
        StreamSpec { sid: 0, pair: 0, proto: 2, dir: "c2s", from_ep: 0 },
        StreamSpec { sid: 1, pair: 0, proto: 2, dir: "s2c", from_ep: 1 },
        StreamSpec { sid: 2, pair: 1, proto: 2, dir: "c2s", from_ep: 1 },
        StreamSpec { sid: 3, pair: 2, proto: 3, dir: "c2s", from_ep: 0 },
    ];
    let lens: [usize; 8] = [40, 0, 5, 65535, 0, 16, 65534, 33];
    // clean history: (Enq ... ) then Deq in order, streams round-robin
    let build = || -> Vec<(u16, Vec<u8>, bool)> {
        // (slot, data, is_enq)
        let mut v = Vec::new();
        for (k, l) in lens.iter().enumerate() {
            for s in 0..4u16 {
                v.push((s, make_chunk(nonce, s, k as u32, *l, KIND_DATA), true));
            }
            if k >= 1 {
                for s in 0..4u16 {
                    v.push((s, make_chunk(nonce, s, k as u32 - 1, lens[k - 1], KIND_DATA), false));
                }
            }
        }
        for s in 0..4u16 {
            v.push((s, make_chunk(nonce, s, 7, lens[7], KIND_DATA), false));
        }
        v
    };
    let run = |h: &[(u16, Vec<u8>, bool)], complete: bool| -> Vec<String> {
        let sh = Shared::new(nonce, h.iter().filter(|x| x.2).count());
        let mut seqs: HashMap<u16, u32> = HashMap::new();
        for (s, d, enq) in h {
            if *enq {
                let q = seqs.entry(*s).or_insert(0);
                let i = sh.enq(*s, *q, d);
                *q += 1;
                sh.mark_ok(i);
            } else {
                sh.deq(*s, d);
            }
        }
        let log = sh.take_log();
        check("t", &streams, &log, complete).findings.into_iter().map(|f| f.sig).collect()
    };
    let mut fails = Vec::new();
    let mut expect = |name: &str, got: Vec<String>, want: &[&str]| {
        let mut g = got.clone();
        g.sort();
        let mut w: Vec<String> = want.iter().map(|s| s.to_string()).collect();
        w.sort();
        if g != w {
            fails.push(format!("{name}: got {g:?}, want {w:?}"));
        }
    };
    let clean = build();
    expect("clean", run(&clean, true), &[]);
    // positions of deliveries of stream 1
    let deq_pos = |h: &[(u16, Vec<u8>, bool)], s: u16| -> Vec<usize> { h.iter().enumerate().filter(|(_, x)| !x.2 && x.0 == s).map(|(i, _)| i).collect() };
    // loss of a zero-length chunk (seq 1) on stream 1
    let mut h = clean.clone();
    let p = deq_pos(&h, 1);
    h.remove(p[1]);
    expect("loss-zero", run(&h, true), &["t:loss:s2c:len=zero"]);
    // loss of the last chunk
    let mut h = clean.clone();
    let p = deq_pos(&h, 3);
    h.remove(p[7]);
    expect("loss-tail", run(&h, true), &["t:loss:c2s:len=mid"]);
    expect("loss-tail-incomplete", run(&h, false), &[]);
    // duplicate of the max-size chunk on stream 0
    let mut h = clean.clone();
    let p = deq_pos(&h, 0);
    let d = h[p[3]].clone();
    h.insert(p[3] + 1, d);
    expect("dup", run(&h, true), &["t:duplicate:c2s:len=max"]);
    // duplicate at the very end
    let mut h = clean.clone();
    let p = deq_pos(&h, 0);
    let d = h[p[7]].clone();
    h.push(d);
    expect("dup-tail", run(&h, true), &["t:duplicate:c2s:len=mid"]);
    // swap of two consecutive deliveries (seq 5, 6) on stream 2
    let mut h = clean.clone();
    let p = deq_pos(&h, 2);
    h.swap(p[5], p[6]);
    expect("reorder", run(&h, true), &["t:reorder:c2s:len=mid"]);
    // corruption: one bit flipped in the body of a big chunk
    let mut h = clean.clone();
    let p = deq_pos(&h, 3);
    h[p[6]].1[40000] ^= 0x10;
    expect("corrupt", run(&h, true), &["t:corruption:c2s:len=max-1"]);
    // truncation by one byte
    let mut h = clean.clone();
    let p = deq_pos(&h, 3);
    h[p[3]].1.pop();
    expect("truncate", run(&h, true), &["t:corruption:c2s:len=max-1"]);
    // leak to the other role of the same protocol: stream 0's chunk seq 0 delivered at slot 2, missing at slot 0
    let mut h = clean.clone();
    let p = deq_pos(&h, 0);
    h[p[0]].0 = 2;
    let got = run(&h, true);
    expect("leak-role", got, &["t:loss:c2s:len=mid", "t:leak:other-role:c2s:len=mid"]);
    // leak to another protocol
    let mut h = clean.clone();
    let p = deq_pos(&h, 1);
    h[p[7]].0 = 3;
    expect("leak-proto", run(&h, true), &["t:loss:s2c:len=mid", "t:leak:other-protocol:c2s:len=mid"]);
    // echo: chunk comes back to the sender's own slot
    let mut h = clean.clone();
    let p = deq_pos(&h, 0);
    h[p[7]].0 = 1;
    expect("leak-echo", run(&h, true), &["t:loss:c2s:len=mid", "t:leak:echo:s2c:len=mid"]);
    // delivery on an undeclared slot
    let mut h = clean.clone();
    h.push((NO_STREAM, vec![1, 2, 3], false));
    expect("undeclared", run(&h, true), &["t:spurious:undeclared-channel:len=short"]);
    // garbage
    let mut h = clean.clone();
    h.push((1, vec![9u8; 300], false));
    expect("spurious", run(&h, true), &["t:spurious:s2c:len=mid"]);
    fails
}
