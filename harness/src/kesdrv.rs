//! Uniform, object-safe access to the 14 KES instantiations of pallas-crypto
//! (Sum1Kes..Sum7Kes, Sum1CompactKes..Sum7CompactKes) for the C12 / C13 monitors.
//! This is glue around the code under test, not an oracle (the oracle is `kesref`).

use pallas_crypto::kes::summed_kes::*;
use pallas_crypto::kes::traits::{KesCompactSig, KesSig, KesSk};
use pallas_crypto::kes::PublicKey;

pub struct SigOut {
    pub bytes: Vec<u8>,
    /// Ok(true): from_bytes(to_bytes(sig)) == sig; Ok(false): parsed but different; Err: did not parse
    pub roundtrip: Result<bool, String>,
}

#[derive(Clone, Debug, PartialEq, Eq)]
pub enum Verdict {
    Accept,
    Reject(String),
    Unparsable(String),
}

impl Verdict {
    pub fn accepted(&self) -> bool {
        matches!(self, Verdict::Accept)
    }
    pub fn short(&self) -> &'static str {
        match self {
            Verdict::Accept => "accept",
            Verdict::Reject(_) => "reject",
            Verdict::Unparsable(_) => "unparsable",
        }
    }
}

pub trait KeyView {
    fn period(&self) -> u32;
    fn to_pk(&self) -> [u8; 32];
    fn as_bytes(&self) -> &[u8];
    fn sign(&self, m: &[u8]) -> SigOut;
    fn update(&mut self) -> Result<(), String>;
}

pub type Visit<'v> = &'v mut dyn FnMut(&mut dyn KeyView, [u8; 32]);

pub struct Scheme {
    pub name: &'static str,
    pub depth: u32,
    pub compact: bool,
    /// length of the caller-provided key buffer (SIZE + 4 period bytes)
    pub key_len: usize,
    pub sig_len: usize,
    /// keygen(buf, seed), hand the key and keygen's public key to the visitor, then drop the key
    pub with_key: fn(&mut [u8], &mut [u8], Visit<'_>),
    /// KesSk::from_bytes over an existing buffer (no keygen), same visitor protocol (pk = to_pk())
    pub with_existing: fn(&mut [u8], Visit<'_>) -> Result<(), String>,
    /// Sig::from_bytes + verify
    pub verify: fn(&[u8], u32, &[u8; 32], &[u8]) -> Verdict,
}

impl Scheme {
    pub fn kind(&self) -> &'static str {
        if self.compact {
            "compact"
        } else {
            "sum"
        }
    }
}

macro_rules! scheme {
    ($K:ident, $S:ident, $depth:expr, $compact:expr, $vtrait:ident) => {{
        struct W<'a>($K<'a>);
        impl<'a> KeyView for W<'a> {
            fn period(&self) -> u32 {
                self.0.get_period()
            }
            fn to_pk(&self) -> [u8; 32] {
                let mut o = [0u8; 32];
                o.copy_from_slice(self.0.to_pk().as_bytes());
                o
            }
            fn as_bytes(&self) -> &[u8] {
                self.0.as_bytes()
            }
            fn sign(&self, m: &[u8]) -> SigOut {
                let s = self.0.sign(m);
                let b = s.to_bytes().to_vec();
                let roundtrip = match $S::from_bytes(&b) {
                    Ok(s2) => Ok(s2 == s && s2.to_bytes().to_vec() == b),
                    Err(e) => Err(format!("{e}")),
                };
                SigOut { bytes: b, roundtrip }
            }
            fn update(&mut self) -> Result<(), String> {
                self.0.update().map_err(|e| format!("{e}"))
            }
        }
        fn with_key<'a>(buf: &'a mut [u8], seed: &'a mut [u8], f: Visit<'_>) {
            let (sk, pk) = <$K<'a> as KesSk<'a>>::keygen(buf, seed);
            let mut pkb = [0u8; 32];
            pkb.copy_from_slice(pk.as_bytes());
            let mut w = W(sk);
            f(&mut w, pkb);
        }
        fn with_existing<'a>(buf: &'a mut [u8], f: Visit<'_>) -> Result<(), String> {
            let sk = <$K<'a> as KesSk<'a>>::from_bytes(buf).map_err(|e| format!("{e}"))?;
            let mut w = W(sk);
            let pk = w.to_pk();
            f(&mut w, pk);
            Ok(())
        }
        fn verify(sig: &[u8], period: u32, pk: &[u8; 32], m: &[u8]) -> Verdict {
            let s = match $S::from_bytes(sig) {
                Ok(s) => s,
                Err(e) => return Verdict::Unparsable(format!("{e}")),
            };
            let pk = match PublicKey::from_bytes(pk) {
                Ok(p) => p,
                Err(e) => return Verdict::Unparsable(format!("{e}")),
            };
            match $vtrait::verify(&s, period, &pk, m) {
                Ok(()) => Verdict::Accept,
                Err(e) => Verdict::Reject(format!("{e}")),
            }
        }
        Scheme {
            name: stringify!($K),
            depth: $depth,
            compact: $compact,
            key_len: <$K<'static> as KesSk<'static>>::SIZE + 4,
            sig_len: $S::SIZE,
            with_key,
            with_existing,
            verify,
        }
    }};
}

pub fn schemes() -> Vec<Scheme> {
    vec![
        scheme!(Sum1Kes, Sum1KesSig, 1, false, KesSig),
        scheme!(Sum2Kes, Sum2KesSig, 2, false, KesSig),
        scheme!(Sum3Kes, Sum3KesSig, 3, false, KesSig),
        scheme!(Sum4Kes, Sum4KesSig, 4, false, KesSig),
        scheme!(Sum5Kes, Sum5KesSig, 5, false, KesSig),
        scheme!(Sum6Kes, Sum6KesSig, 6, false, KesSig),
        scheme!(Sum7Kes, Sum7KesSig, 7, false, KesSig),
        scheme!(Sum1CompactKes, Sum1CompactKesSig, 1, true, KesCompactSig),
        scheme!(Sum2CompactKes, Sum2CompactKesSig, 2, true, KesCompactSig),
        scheme!(Sum3CompactKes, Sum3CompactKesSig, 3, true, KesCompactSig),
        scheme!(Sum4CompactKes, Sum4CompactKesSig, 4, true, KesCompactSig),
        scheme!(Sum5CompactKes, Sum5CompactKesSig, 5, true, KesCompactSig),
        scheme!(Sum6CompactKes, Sum6CompactKesSig, 6, true, KesCompactSig),
        scheme!(Sum7CompactKes, Sum7CompactKesSig, 7, true, KesCompactSig),
    ]
}
