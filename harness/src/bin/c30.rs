//! C30 — block traversal exposes each transaction with its own parts.
//! Oracle: own CBOR walker over the block bytes (`pv::spans::block_spans`): wrapper tag, i-th body,
//! i-th witness set, aux entry keyed i, invalid list. Reference Blake2b for the tx id.
//! Workload: every corpus block (+ wrapper re-tagged / re-encoded), and blocks assembled at the
//! byte level from corpus headers / bodies / witness sets with random invalid lists and sparse aux maps.
use pallas_codec::utils::Nullable;
use pallas_traverse::{Era, MultiEraBlock, MultiEraTx};
use pv::cbor::Node;
use pv::spans::{self, BlockSpans};
use pv::*;

fn era_of_tag(tag: u64) -> Option<Era> {
    Some(match tag {
        0 | 1 => Era::Byron,
        2 => Era::Shelley,
        3 => Era::Allegra,
        4 => Era::Mary,
        5 => Era::Alonzo,
        6 => Era::Babbage,
        7 => Era::Conway,
        _ => return None,
    })
}

fn opt<'a, T>(n: &'a Nullable<T>) -> Option<&'a T>
where
    T: Clone,
{
    match n {
        Nullable::Some(x) => Some(x),
        _ => None,
    }
}

/// (body bytes, witness bytes, aux bytes) the traversed transaction carries
fn parts<'a>(tx: &'a MultiEraTx<'a>) -> Option<(&'a [u8], &'a [u8], Option<&'a [u8]>)> {
    if let Some(x) = tx.as_conway() {
        return Some((x.transaction_body.raw_cbor(), x.transaction_witness_set.raw_cbor(), opt(&x.auxiliary_data).map(|a| a.raw_cbor())));
    }
    if let Some(x) = tx.as_babbage() {
        return Some((x.transaction_body.raw_cbor(), x.transaction_witness_set.raw_cbor(), opt(&x.auxiliary_data).map(|a| a.raw_cbor())));
    }
    if let Some(x) = tx.as_alonzo() {
        return Some((x.transaction_body.raw_cbor(), x.transaction_witness_set.raw_cbor(), opt(&x.auxiliary_data).map(|a| a.raw_cbor())));
    }
    if let Some(x) = tx.as_byron() {
        return Some((x.transaction.raw_cbor(), x.witness.raw_cbor(), None));
    }
    None
}

/// metadata labels the own walker finds in an auxiliary data item (sorted, distinct)
fn aux_labels(src: &[u8], aux: &cbor::Item) -> Option<Vec<u64>> {
    let _ = src;
    let md = match aux.major {
        5 => Some(aux),
        4 => aux.children.first(),
        6 => aux.children[0].map_get_uint(0),
        _ => None,
    };
    let mut v = vec![];
    if let Some(m) = md {
        if m.major != 5 {
            return None;
        }
        for (k, _) in m.map_entries() {
            if k.major != 0 {
                return None;
            }
            v.push(k.arg);
        }
    }
    v.sort();
    v.dedup();
    Some(v)
}

struct Outcome {
    accepted: bool,
}

fn check_block(ctx: &mut Ctx, bytes: &[u8], kind: &str) -> Outcome {
    let sp: BlockSpans = match spans::block_spans(bytes) {
        Ok(s) => s,
        Err(_) => {
            ctx.count("own_model_does_not_apply");
            return Outcome { accepted: false };
        }
    };
    let fam = spans::era_name(sp.tag);
    let replay = json!({"kind": kind, "block": hexs(bytes)});
    let block = match pv::panics::catch(|| MultiEraBlock::decode(bytes)) {
        Err(p) => {
            ctx.violation(&format!("panic:MultiEraBlock::decode:{}", p.site()), &format!("decode of a {fam} block panicked: {}", p.msg), replay);
            return Outcome { accepted: false };
        }
        Ok(Err(_)) => {
            ctx.count("rejected");
            ctx.count(&format!("rejected_{kind}"));
            return Outcome { accepted: false };
        }
        Ok(Ok(b)) => b,
    };
    ctx.eval();
    ctx.count(&format!("blocks_{kind}"));
    ctx.set_insert("wrapper_tags", &format!("{}", sp.tag));
    let mut bad: Vec<(String, String)> = vec![];
    let r = pv::panics::catch(|| {
        let mut bad: Vec<(String, String)> = vec![];
        let mut stats: Vec<(&'static str, u64)> = vec![];
        // era
        let want = era_of_tag(sp.tag).unwrap();
        if block.era() != want {
            bad.push((format!("era:tag={}:got={:?}", sp.tag, block.era()), format!("wrapper tag {} declares {:?}, era() = {:?}", sp.tag, want, block.era())));
        }
        // counts
        if block.tx_count() != sp.n_bodies {
            bad.push((format!("tx_count:{fam}"), format!("tx_count() = {} but the block carries {} bodies", block.tx_count(), sp.n_bodies)));
        }
        let txs = block.txs();
        if sp.n_bodies == sp.n_wits && txs.len() != sp.n_bodies {
            bad.push((format!("txs_len:{fam}"), format!("txs().len() = {} but the block carries {} bodies", txs.len(), sp.n_bodies)));
        }
        if block.is_empty() != (sp.n_bodies == 0) {
            bad.push((format!("is_empty:{fam}"), format!("is_empty() = {} with {} bodies", block.is_empty(), sp.n_bodies)));
        }
        if sp.tag >= 2 && block.has_aux_data() != !sp.aux_keys.is_empty() {
            bad.push((format!("has_aux_data:{fam}"), format!("has_aux_data() = {} with {} aux entries", block.has_aux_data(), sp.aux_keys.len())));
        }
        if sp.n_bodies == sp.n_wits {
            for (i, (tx, own)) in txs.iter().zip(sp.txs.iter()).enumerate() {
                stats.push(("txs_checked", 1));
                let body = own.body.bytes(bytes);
                let wits = own.wits.bytes(bytes);
                let aux = own.aux.as_ref().map(|a| a.bytes(bytes));
                let pos = if i == 0 { "first" } else if i + 1 == sp.n_bodies { "last" } else { "middle" };
                let Some((pb, pw, pa)) = parts(tx) else {
                    bad.push((format!("parts:{fam}"), "transaction of unknown variant".into()));
                    continue;
                };
                if pb != body {
                    let other = sp.txs.iter().position(|t| t.body.bytes(bytes) == pb);
                    bad.push((format!("body_bytes:{fam}"), format!("tx {i} ({pos}) carries body bytes that are not the {i}-th body span (they equal body {:?})", other)));
                }
                if pw != wits {
                    let other = sp.txs.iter().position(|t| t.wits.bytes(bytes) == pw);
                    bad.push((format!("witness_bytes:{fam}"), format!("tx {i} ({pos}) carries witness bytes that are not the {i}-th witness span (they equal witness set {:?})", other)));
                }
                match (aux, pa) {
                    (None, None) => stats.push(("aux_absent_agreed", 1)),
                    (Some(a), Some(b)) if a == b => stats.push(("aux_present_agreed", 1)),
                    (Some(_), Some(b)) => {
                        let other = sp.aux_keys.iter().zip(0..).find(|(k, _)| {
                            sp.txs.get(**k as usize).and_then(|t| t.aux.as_ref()).map(|x| x.bytes(bytes) == b).unwrap_or(false)
                        });
                        bad.push((format!("aux:wrong-entry:{fam}"), format!("tx {i} got auxiliary data that is not the entry keyed {i} (it is the entry keyed {:?}); aux keys in wire order {:?}", other.map(|o| o.0), sp.aux_keys)));
                    }
                    (Some(_), None) => bad.push((format!("aux:missing:{fam}"), format!("tx {i} has an auxiliary data entry keyed {i} but the traversed tx has none; aux keys {:?}", sp.aux_keys))),
                    (None, Some(_)) => bad.push((format!("aux:unexpected:{fam}"), format!("tx {i} has no auxiliary data entry keyed {i} but the traversed tx has one; aux keys {:?}", sp.aux_keys))),
                }
                if tx.is_valid() != own.valid {
                    bad.push((
                        format!("is_valid:expected={}:got={}:{fam}", own.valid, tx.is_valid()),
                        format!("tx {i} of {}: is_valid() = {} but invalid list is {:?}", sp.n_bodies, tx.is_valid(), sp.invalid),
                    ));
                }
                if !own.valid {
                    stats.push(("invalid_flags_agreed", 1));
                }
                if tx.era() != want {
                    bad.push((format!("tx_era:tag={}:got={:?}", sp.tag, tx.era()), format!("tx {i} era() = {:?} in a block tagged {}", tx.era(), sp.tag)));
                }
                let want_id = pv::refhash::blake2b_256(body);
                if tx.hash().as_ref() != want_id {
                    bad.push((format!("tx_hash:{fam}"), format!("tx {i}: hash() = {} but Blake2b-256 of the {i}-th body span is {}", tx.hash(), hexs(&want_id))));
                }
                // metadata pairing
                let labels_own = match &own.aux {
                    None => Some(vec![]),
                    Some(a) => aux_labels(bytes, a),
                };
                if let Some(lo) = labels_own {
                    let mut lp: Vec<u64> = tx.metadata().collect::<Vec<(u64, &pallas_primitives::alonzo::Metadatum)>>().into_iter().map(|(k, _)| k).collect();
                    lp.sort();
                    lp.dedup();
                    if lp != lo {
                        bad.push((format!("metadata_labels:{fam}"), format!("tx {i}: metadata() labels {:?} but the aux entry keyed {i} has labels {:?}", lp, lo)));
                    } else if !lo.is_empty() {
                        stats.push(("metadata_labels_agreed", 1));
                    }
                }
                // the standalone encoding of the traversed tx is [body_i, wits_i, valid_i, aux_i | null]
                if sp.tag >= 2 {
                    let enc = tx.encode();
                    match cbor::parse(&enc) {
                        Ok(it) if it.major == 4 && it.children.len() == 4 => {
                            let c = &it.children;
                            let flag_ok = c[2].major == 7 && c[2].ai == if own.valid { 21 } else { 20 };
                            let aux_ok = match aux {
                                Some(a) => c[3].bytes(&enc) == a,
                                None => c[3].is_null(),
                            };
                            if c[0].bytes(&enc) != body || c[1].bytes(&enc) != wits || !flag_ok || !aux_ok {
                                bad.push((format!("encode_parts:{fam}"), format!("tx {i}: encode() is not [body_{i}, witness_{i}, {}, aux_{i}|null]", own.valid)));
                            }
                        }
                        _ => bad.push((format!("encode_shape:{fam}"), format!("tx {i}: encode() is not an array of 4"))),
                    }
                }
            }
        }
        (bad, stats)
    });
    match r {
        Err(p) => ctx.violation(&format!("panic:traverse:{}", p.site()), &format!("traversing an accepted {fam} block panicked: {}", p.msg), replay.clone()),
        Ok((b, stats)) => {
            bad = b;
            for (k, n) in stats {
                ctx.add(k, n);
            }
        }
    }
    for (sig, what) in bad {
        ctx.violation(&format!("C30:{sig}"), &format!("[{kind}] {what}"), replay.clone());
    }
    // non-trivial: >= 2 txs and (non-empty invalid list or an aux map that skips an index)
    let n = sp.txs.len();
    let has_invalid = sp.txs.iter().any(|t| !t.valid);
    let skips = (0..n).any(|i| sp.txs[i].aux.is_none() && (i + 1..n).any(|j| sp.txs[j].aux.is_some()));
    if n >= 2 && (has_invalid || skips) {
        ctx.nontrivial(fp(bytes));
        if has_invalid {
            ctx.count("nontrivial_with_invalid_list");
        }
        if skips {
            ctx.count("nontrivial_with_sparse_aux");
        }
    }
    ctx.max("max_txs_in_block", n as u64);
    if ctx.want_sample() && n >= 2 && has_invalid {
        ctx.sample(json!({"kind": kind, "tag": sp.tag, "txs": n, "aux_keys": sp.aux_keys, "invalid": sp.invalid, "block": hex_short(bytes)}));
    }
    Outcome { accepted: true }
}

#[derive(Clone)]
struct TxParts {
    body: Vec<u8>,
    wits: Vec<u8>,
}

struct Pool {
    tag: u64,
    headers: Vec<Vec<u8>>,
    txs: Vec<TxParts>,
}

fn gen_block(rng: &mut Rng, pool: &Pool, auxes: &[Vec<u8>]) -> Vec<u8> {
    let n = match rng.below(10) {
        0 => rng.usize_below(2),
        1..=6 => 2 + rng.usize_below(5),
        _ => 2 + rng.usize_below(24),
    };
    let picks: Vec<&TxParts> = (0..n).map(|_| rng.pick(&pool.txs)).collect();
    let arr = |rng: &mut Rng, xs: Vec<Node>| if rng.chance(1, 5) { Node::ArrayIndef(xs) } else { Node::Array(xs, *rng.pick(&[0u8, 0, 0, 0, 1, 2, 4])) };
    let bodies = arr(rng, picks.iter().map(|p| Node::raw(&p.body)).collect());
    let wits = arr(rng, picks.iter().map(|p| Node::raw(&p.wits)).collect());
    // aux map: sparse subset of the indexes (+ sometimes keys outside the block), any order
    let p_aux = *rng.pick(&[0u64, 15, 15, 40, 40, 70, 100]);
    let mut keys: Vec<u64> = (0..n as u64).filter(|_| rng.below(100) < p_aux).collect();
    if rng.chance(1, 6) {
        keys.push(n as u64 + rng.below(3));
    }
    match rng.below(4) {
        0 => keys.reverse(),
        1 => rng.shuffle(&mut keys),
        _ => {}
    }
    let uw = |rng: &mut Rng| *rng.pick(&[0u8, 0, 0, 0, 0, 0, 1, 2, 4]);
    let mut entries = vec![];
    for k in &keys {
        let v = if rng.chance(1, 3) || auxes.is_empty() {
            // own small metadata map, unique per key
            Node::map(vec![(Node::u(7000 + *k), Node::u(rng.below(1 << 20)))])
        } else {
            { let a: &Vec<u8> = rng.pick(auxes); Node::raw(a) }
        };
        entries.push((Node::UInt(*k, uw(rng)), v));
    }
    let aux = if rng.chance(1, 6) { Node::MapIndef(entries) } else { Node::Map(entries, 0) };
    // invalid list
    let p_inv = *rng.pick(&[0u64, 10, 10, 30, 30, 60, 100]);
    let mut inv: Vec<u64> = (0..n as u64).filter(|_| rng.below(100) < p_inv).collect();
    if rng.chance(1, 5) {
        inv.push(n as u64 + rng.below(2));
    }
    if rng.chance(1, 8) && !inv.is_empty() {
        let d = *rng.pick(&inv);
        inv.push(d);
    }
    match rng.below(3) {
        0 => rng.shuffle(&mut inv),
        1 => inv.reverse(),
        _ => {}
    }
    let mut fields = { let h: &Vec<u8> = rng.pick(&pool.headers); vec![Node::raw(h), bodies, wits, aux] };
    if !(inv.is_empty() && rng.chance(1, 4)) {
        let xs: Vec<Node> = inv.iter().map(|i| Node::UInt(*i, uw(rng))).collect();
        fields.push(arr(rng, xs));
    }
    let tagw = *rng.pick(&[0u8, 0, 0, 0, 0, 0, 0, 1]);
    Node::arr(vec![Node::UInt(pool.tag, tagw), Node::arr(fields)]).to_vec()
}

fn main() {
    let mut ctx = Ctx::from_args("C30");
    if let Some(p) = ctx.replay.clone() {
        let v: serde_json::Value = serde_json::from_slice(&std::fs::read(p).unwrap()).unwrap();
        let b = hex::decode(v["replay"]["block"].as_str().unwrap()).unwrap();
        let o = check_block(&mut ctx, &b, v["replay"]["kind"].as_str().unwrap_or("replay"));
        println!("replayed: accepted={} violations={}", o.accepted, ctx.n_violations());
        ctx.finish();
    }
    let corpus = pv::corpus::all_blocks(1);
    // pools for generation (from every corpus block, independent of sharding)
    let mut pools: Vec<Pool> = vec![
        Pool { tag: 5, headers: vec![], txs: vec![] },
        Pool { tag: 6, headers: vec![], txs: vec![] },
        Pool { tag: 7, headers: vec![], txs: vec![] },
    ];
    let mut auxes: Vec<Vec<u8>> = vec![];
    for a in &corpus {
        if let Ok(sp) = spans::block_spans(&a.bytes) {
            if sp.n_bodies != sp.n_wits {
                continue;
            }
            for t in &sp.txs {
                if let Some(x) = &t.aux {
                    if auxes.len() < 400 {
                        auxes.push(x.bytes(&a.bytes).to_vec());
                    }
                }
            }
            if let Some(p) = pools.iter_mut().find(|p| p.tag == sp.tag) {
                if p.headers.len() < 64 {
                    p.headers.push(sp.header.bytes(&a.bytes).to_vec());
                }
                for t in &sp.txs {
                    if p.txs.len() < 1500 {
                        p.txs.push(TxParts { body: t.body.bytes(&a.bytes).to_vec(), wits: t.wits.bytes(&a.bytes).to_vec() });
                    }
                }
            }
        }
    }
    // Babbage and Conway share the header shape, and most Babbage bodies are valid Conway bodies:
    // widen the small Conway pool with Babbage parts (pallas decides; refusals are counted as rejected)
    let bab: Vec<TxParts> = pools[1].txs.iter().take(600).cloned().collect();
    let babh: Vec<Vec<u8>> = pools[1].headers.iter().take(8).cloned().collect();
    pools[2].txs.extend(bab);
    pools[2].headers.extend(babh);
    for p in &pools {
        ctx.max(&format!("pool_txs_tag{}", p.tag), p.txs.len() as u64);
    }

    // 1. corpus blocks as they are, then with the wrapper re-tagged / re-encoded
    for (i, a) in corpus.iter().enumerate() {
        if !ctx.owns(i as u64) {
            continue;
        }
        let o = check_block(&mut ctx, &a.bytes, "corpus");
        if !o.accepted {
            continue;
        }
        let Ok(sp) = spans::block_spans(&a.bytes) else { continue };
        // the era follows the wrapper tag, not the content: same content under a sibling tag
        let sib: &[u64] = match sp.tag {
            2..=5 => &[2, 3, 4, 5],
            6 | 7 => &[6, 7],
            _ => &[],
        };
        if a.bytes[0] == 0x82 && a.bytes[1] == sp.tag as u8 {
            for t in sib {
                if *t != sp.tag && (sp.tag < 6 || i % 8 == 0) {
                    let mut b = a.bytes.clone();
                    b[1] = *t as u8;
                    check_block(&mut ctx, &b, "retagged");
                }
            }
            if i % 16 == 0 {
                // an era number the library does not know, whose low byte looks like a known one, must not
                // be traversed as that era (the wrapper declares something else)
                for wide in [0x0100u64 + sp.tag, 0xff00 + sp.tag, 0x0001_0000 + sp.tag, 8 + sp.tag, 0x18 + sp.tag] {
                    let mut b = vec![0x82];
                    pv::cbor::head(0, wide, 0, &mut b);
                    b.extend_from_slice(&a.bytes[2..]);
                    ctx.eval();
                    match pv::panics::catch(|| MultiEraBlock::decode(&b).map(|x| x.era())) {
                        Err(p) => ctx.violation(&format!("panic:MultiEraBlock::decode:{}", p.site()), &format!("decode panicked on wrapper era number {wide}: {}", p.msg), json!({"kind": "unknown-era-number", "block": hexs(&b)})),
                        Ok(Ok(e)) => ctx.violation(
                            &format!("era:undeclared-era-number-traversed:low-byte={}", wide & 0xff),
                            &format!("the wrapper declares era number {wide}, which is not a known era, but the block is traversed as {e:?}"),
                            json!({"kind": "unknown-era-number", "block": hexs(&b)}),
                        ),
                        Ok(Err(_)) => ctx.count("unknown_era_number_rejected"),
                    }
                }
                // non-minimal wrapper tag
                let mut b = vec![0x82, 0x18, sp.tag as u8];
                b.extend_from_slice(&a.bytes[2..]);
                check_block(&mut ctx, &b, "wrapper-wide-tag");
            }
        }
    }
    // 2. generated blocks
    let n = ctx.budget(6_000, 240_000);
    for _ in 0..n {
        let pool = &pools[ctx.rng.usize_below(3)];
        if pool.txs.is_empty() || pool.headers.is_empty() {
            ctx.inconclusive("a generation pool is empty");
            break;
        }
        let mut rng = Rng::new(ctx.rng.next_u64());
        let b = gen_block(&mut rng, pool, &auxes);
        check_block(&mut ctx, &b, &format!("generated-tag{}", pool.tag));
        // the same generated content under the Shelley / Allegra / Mary wrapper tags (the block layout is
        // shared): era, pairing and the invalid-transaction list are read the same way
        if pool.tag == 5 && b.len() > 2 && b[0] == 0x82 && b[1] == 0x05 && ctx.rng.chance(1, 3) {
            let t = *ctx.rng.pick(&[2u8, 3, 4]);
            let mut b2 = b.clone();
            b2[1] = t;
            check_block(&mut ctx, &b2, &format!("generated-tag5-as-tag{t}"));
        }
    }
    ctx.finish();
}
