//! C18 — Shelley and stake addresses round-trip with a faithful header.
//! Oracle: own CIP-19 byte layout (header = type<<4 | network, 28-byte credentials, own
//! base-128 big-endian varint codec for pointers), own bech32 (BIP-173) encoder + prefix rule
//! (addr / addr_test / stake / stake_test, only for networks 1 / 0), plus the round trips
//! through bytes, hex, bech32 and to_string/from_str.
use pallas_addresses::{Address, Network, Pointer, ShelleyAddress, ShelleyDelegationPart, ShelleyPaymentPart, StakeAddress, StakePayload};
use pallas_crypto::hash::Hash;
use pv::*;
use std::str::FromStr;

// ---------------------------------------------------------------------------------------
// own codecs
// ---------------------------------------------------------------------------------------
fn own_varint(mut n: u64, out: &mut Vec<u8>) {
    // big-endian base 128, continuation bit on every byte except the last
    let mut groups = vec![(n & 0x7f) as u8];
    n >>= 7;
    while n != 0 {
        groups.push((n & 0x7f) as u8);
        n >>= 7;
    }
    for (i, g) in groups.iter().rev().enumerate() {
        let last = i + 1 == groups.len();
        out.push(if last { *g } else { *g | 0x80 });
    }
}

const CHARSET: &[u8; 32] = b"qpzry9x8gf2tvdw0s3jn54khce6mua7l";
fn polymod(values: &[u8]) -> u32 {
    const GEN: [u32; 5] = [0x3b6a57b2, 0x26508e6d, 0x1ea119fa, 0x3d4233dd, 0x2a1462b3];
    let mut chk: u32 = 1;
    for v in values {
        let b = chk >> 25;
        chk = ((chk & 0x1ff_ffff) << 5) ^ (*v as u32);
        for (i, g) in GEN.iter().enumerate() {
            if (b >> i) & 1 == 1 {
                chk ^= g;
            }
        }
    }
    chk
}
fn hrp_expand(hrp: &str) -> Vec<u8> {
    let mut v: Vec<u8> = hrp.bytes().map(|c| c >> 5).collect();
    v.push(0);
    v.extend(hrp.bytes().map(|c| c & 31));
    v
}
fn own_bech32(hrp: &str, data: &[u8]) -> String {
    let mut five = vec![];
    let (mut acc, mut bits) = (0u32, 0u32);
    for b in data {
        acc = (acc << 8) | *b as u32;
        bits += 8;
        while bits >= 5 {
            bits -= 5;
            five.push(((acc >> bits) & 31) as u8);
        }
    }
    if bits > 0 {
        five.push(((acc << (5 - bits)) & 31) as u8);
    }
    let mut vals = hrp_expand(hrp);
    vals.extend_from_slice(&five);
    vals.extend_from_slice(&[0; 6]);
    let pm = polymod(&vals) ^ 1;
    let mut s = String::from(hrp);
    s.push('1');
    for d in &five {
        s.push(CHARSET[*d as usize] as char);
    }
    for i in 0..6 {
        s.push(CHARSET[((pm >> (5 * (5 - i))) & 31) as usize] as char);
    }
    s
}
/// is `s` a checksum-valid (lower-case) bech32 string? — used only to recognise the
/// astronomically rare hex string that from_str would legitimately read as bech32
fn own_bech32_valid(s: &str) -> bool {
    let Some(pos) = s.rfind('1') else { return false };
    if pos == 0 || s.len() - pos - 1 < 6 {
        return false;
    }
    let mut vals = hrp_expand(&s[..pos]);
    for c in s[pos + 1..].bytes() {
        match CHARSET.iter().position(|x| *x == c) {
            Some(i) => vals.push(i as u8),
            None => return false,
        }
    }
    polymod(&vals) == 1
}

// ---------------------------------------------------------------------------------------
// a case
// ---------------------------------------------------------------------------------------
#[derive(Clone, Debug)]
struct Case {
    typ: u8, // 0..=7, 14, 15
    net: u8, // 0..=15
    h1: [u8; 28],
    h2: [u8; 28],
    ptr: (u64, u64, u64),
}

impl Case {
    fn own_bytes(&self) -> Vec<u8> {
        let mut v = vec![(self.typ << 4) | self.net];
        v.extend_from_slice(&self.h1);
        match self.typ {
            0..=3 => v.extend_from_slice(&self.h2),
            4 | 5 => {
                own_varint(self.ptr.0, &mut v);
                own_varint(self.ptr.1, &mut v);
                own_varint(self.ptr.2, &mut v);
            }
            _ => {}
        }
        v
    }
    fn own_prefix(&self) -> Option<&'static str> {
        match (self.typ >= 14, self.net) {
            (false, 1) => Some("addr"),
            (false, 0) => Some("addr_test"),
            (true, 1) => Some("stake"),
            (true, 0) => Some("stake_test"),
            _ => None,
        }
    }
    fn build(&self) -> Address {
        let net = Network::from(self.net);
        let h1: Hash<28> = self.h1.into();
        let h2: Hash<28> = self.h2.into();
        if self.typ >= 14 {
            let pl = if self.typ == 14 { StakePayload::Stake(h1) } else { StakePayload::Script(h1) };
            return StakeAddress::new(net, pl).into();
        }
        let pay = if self.typ & 1 == 1 { ShelleyPaymentPart::script_hash(h1) } else { ShelleyPaymentPart::key_hash(h1) };
        let del = match self.typ >> 1 {
            0 => ShelleyDelegationPart::key_hash(h2),
            1 => ShelleyDelegationPart::script_hash(h2),
            2 => ShelleyDelegationPart::Pointer(Pointer::new(self.ptr.0, self.ptr.1, self.ptr.2)),
            _ => ShelleyDelegationPart::Null,
        };
        ShelleyAddress::new(net, pay, del).into()
    }
    fn netclass(&self) -> &'static str {
        match self.net {
            0 => "testnet",
            1 => "mainnet",
            _ => "other",
        }
    }
    fn to_json(&self) -> serde_json::Value {
        json!({"typ": self.typ, "net": self.net, "h1": hexs(&self.h1), "h2": hexs(&self.h2), "ptr": [self.ptr.0.to_string(), self.ptr.1.to_string(), self.ptr.2.to_string()]})
    }
    fn from_json(v: &serde_json::Value) -> Case {
        let h = |k: &str| -> [u8; 28] { hex::decode(v[k].as_str().unwrap()).unwrap().try_into().unwrap() };
        let p = |i: usize| -> u64 { v["ptr"][i].as_str().unwrap().parse().unwrap() };
        Case { typ: v["typ"].as_u64().unwrap() as u8, net: v["net"].as_u64().unwrap() as u8, h1: h("h1"), h2: h("h2"), ptr: (p(0), p(1), p(2)) }
    }
}

fn check(ctx: &mut Ctx, c: &Case) {
    ctx.eval();
    let own = c.own_bytes();
    let tag = format!("type={}:net={}", c.typ, c.netclass());
    let mut fails: Vec<(String, String)> = vec![];
    let r = pv::panics::catch(|| {
        let mut fails: Vec<(String, String)> = vec![];
        let mut fail = |rule: &str, what: String| fails.push((rule.to_string(), what));
        let addr = c.build();
        // ---- encoding side -------------------------------------------------------------
        let bytes = addr.to_vec();
        if bytes != own {
            let cls = if bytes.first() != own.first() { "header" } else if bytes.len() != own.len() { "length" } else { "payload" };
            fail(&format!("encode:bytes-differ-from-cip19-layout:{cls}"), format!("to_vec() = {}, own layout = {}", hexs(&bytes), hexs(&own)));
        }
        let want_header = (c.typ << 4) | c.net;
        let hdr = match &addr {
            Address::Shelley(x) => x.to_header(),
            Address::Stake(x) => x.to_header(),
            Address::Byron(_) => 0,
        };
        if hdr != want_header {
            fail("header:to_header", format!("to_header() = {hdr:#04x}, expected {want_header:#04x}"));
        }
        if addr.typeid() != c.typ {
            fail("header:typeid", format!("typeid() = {}, built as type {}", addr.typeid(), c.typ));
        }
        match addr.network() {
            Some(n) if n.value() == c.net && n == Network::from(c.net) => {}
            other => fail("header:network", format!("network() = {other:?}, built with id {}", c.net)),
        }
        let hx = addr.to_hex();
        if hx != hexs(&own) {
            fail("encode:hex", format!("to_hex() = {hx}, own = {}", hexs(&own)));
        }
        // ---- decoding side: the own bytes and what pallas produced -----------------------
        for (src, b) in [("own-bytes", &own), ("to_vec", &bytes)] {
            if src == "to_vec" && bytes == own {
                continue;
            }
            match Address::from_bytes(b) {
                Ok(a2) if a2 == addr => {}
                Ok(a2) => fail(&format!("roundtrip:bytes:{src}:different-address"), format!("from_bytes({}) = {a2:?}, built {addr:?}", hexs(b))),
                Err(e) => fail(&format!("roundtrip:bytes:{src}:rejected"), format!("from_bytes({}) failed: {e}", hexs(b))),
            }
        }
        match Address::try_from(&own[..]) {
            Ok(a2) if a2 == addr => {}
            other => fail("roundtrip:try_from-slice", format!("Address::try_from({}) = {other:?}", hexs(&own))),
        }
        match Address::from_hex(&hx) {
            Ok(a2) if a2 == addr => {}
            other => fail("roundtrip:hex", format!("from_hex({hx}) = {other:?}")),
        }
        // a parsed address re-encodes to the bytes it was parsed from, header byte included
        if let Ok(a2) = Address::from_bytes(&own) {
            let again = a2.to_vec();
            if again != own {
                fail("roundtrip:bytes:reencode-differs", format!("from_bytes({}).to_vec() = {}", hexs(&own), hexs(&again)));
            }
            if a2.typeid() != c.typ || a2.network().map(|n| n.value()) != Some(c.net) {
                fail("header:parsed-type-or-network", format!("from_bytes({}) has typeid {} network {:?}", hexs(&own), a2.typeid(), a2.network()));
            }
            if let (4 | 5, Address::Shelley(s)) = (c.typ, &a2) {
                match s.delegation() {
                    ShelleyDelegationPart::Pointer(p) if (p.slot(), p.tx_idx(), p.cert_idx()) == c.ptr => {}
                    other => fail("pointer:parsed-components", format!("pointer {:?} parsed as {other:?}", c.ptr)),
                }
            }
        }
        // ---- bech32 --------------------------------------------------------------------
        let b32 = addr.to_bech32();
        match (c.own_prefix(), &b32) {
            (Some(prefix), Ok(s)) => {
                let want = own_bech32(prefix, &own);
                if *s != want {
                    let cls = if s.rsplit_once('1').map(|x| x.0) != Some(prefix) { "prefix" } else { "data" };
                    fail(&format!("bech32:encode:{cls}"), format!("to_bech32() = {s}, own encoder gives {want}"));
                }
                match addr.hrp() {
                    Ok(h) if h == prefix => {}
                    other => fail("bech32:hrp", format!("hrp() = {other:?}, expected {prefix}")),
                }
                match Address::from_bech32(s) {
                    Ok(a2) if a2 == addr => {}
                    other => fail("roundtrip:bech32", format!("from_bech32({s}) = {other:?}")),
                }
                match Address::from_bech32(&want) {
                    Ok(a2) if a2 == addr => {}
                    other => fail("roundtrip:bech32:own-string", format!("from_bech32({want}) = {other:?}")),
                }
            }
            (Some(prefix), Err(e)) => fail("bech32:encode:rejected", format!("to_bech32() failed for network {} ({prefix}): {e}", c.net)),
            (None, Ok(s)) => fail("bech32:encode:accepted-for-other-network", format!("to_bech32() = {s} for network id {}", c.net)),
            (None, Err(_)) => {
                if addr.hrp().is_ok() {
                    fail("bech32:hrp:accepted-for-other-network", format!("hrp() = {:?} for network id {}", addr.hrp(), c.net));
                }
            }
        }
        // ---- to_string / from_str --------------------------------------------------------
        let s = addr.to_string();
        let want_s = match c.own_prefix() {
            Some(prefix) => own_bech32(prefix, &own),
            None => hexs(&own),
        };
        if s != want_s {
            fail("string:to_string", format!("to_string() = {s}, expected {want_s}"));
        }
        match Address::from_str(&s) {
            Ok(a2) if a2 == addr => {}
            other => {
                if c.own_prefix().is_none() && own_bech32_valid(&s) {
                    // a hex string that happens to be valid bech32: from_str may read it either way
                } else if c.own_prefix().is_none() && matches!(other, Ok(Address::Byron(_))) {
                    // the hex form (no '0' digit in it) was read as base58 and the decoded bytes were
                    // accepted as a Byron address: one defect whatever the type / network, so no tag
                    fail("!roundtrip:string:hex-form-read-as-base58-byron-address", format!("from_str({s}) = {other:?}"));
                } else {
                    fail("roundtrip:string", format!("from_str({s}) = {other:?}"));
                }
            }
        }
        // ---- the typed views agree with the Address view ---------------------------------
        match &addr {
            Address::Shelley(x) => {
                if x.to_vec() != bytes || x.to_hex() != hx || x.to_bech32().ok() != b32.as_ref().ok().cloned() {
                    fail("views:shelley-vs-address", "ShelleyAddress::{to_vec,to_hex,to_bech32} differ from the Address methods".into());
                }
                if let ShelleyDelegationPart::Pointer(p) = x.delegation() {
                    let mut want = vec![];
                    own_varint(c.ptr.0, &mut want);
                    own_varint(c.ptr.1, &mut want);
                    own_varint(c.ptr.2, &mut want);
                    let got = p.to_vec();
                    if got != want {
                        fail("pointer:to_vec", format!("Pointer{:?}.to_vec() = {}, own varints = {}", c.ptr, hexs(&got), hexs(&want)));
                    }
                    match Pointer::parse(&want) {
                        Ok(q) if q == *p => {}
                        other => fail("pointer:parse", format!("Pointer::parse({}) = {other:?}, expected {:?}", hexs(&want), c.ptr)),
                    }
                }
            }
            Address::Stake(x) => {
                if x.to_vec() != bytes || x.to_hex() != hx || x.to_bech32().ok() != b32.as_ref().ok().cloned() {
                    fail("views:stake-vs-address", "StakeAddress::{to_vec,to_hex,to_bech32} differ from the Address methods".into());
                }
            }
            Address::Byron(_) => {}
        }
        fails
    });
    match r {
        Ok(f) => fails.extend(f),
        Err(p) if p.in_harness() => ctx.inconclusive(&format!("harness panic at {}:{}: {}", p.file, p.line, p.msg)),
        Err(p) => fails.push((format!("panic:{}", p.site()), format!("panicked: {}", p.msg))),
    }
    for (rule, what) in fails {
        let sig = match rule.strip_prefix('!') {
            Some(r) => r.to_string(),
            None => format!("{rule}:{tag}"),
        };
        ctx.violation(&sig, &format!("type {} network {} [{}]: {what}", c.typ, c.net, hexs(&own)), c.to_json());
    }
    // observation counters
    let big_ptr = matches!(c.typ, 4 | 5) && (c.ptr.0 >= 1 << 32 || c.ptr.1 >= 1 << 32 || c.ptr.2 >= 1 << 32);
    if big_ptr {
        ctx.count("pointer_with_component_ge_2^32");
    }
    if matches!(c.typ, 4 | 5) {
        ctx.count("pointer_addresses");
        ctx.max("max_encoded_len", own.len() as u64);
    }
    if c.net > 1 {
        ctx.count("other_network_addresses");
    } else {
        ctx.count("bech32_addresses");
    }
    if c.typ >= 14 {
        ctx.count("stake_addresses");
    }
    if big_ptr || c.net > 1 {
        ctx.nontrivial(fp(&own));
    }
}

const TYPES: [u8; 10] = [0, 1, 2, 3, 4, 5, 6, 7, 14, 15];

fn boundary_values() -> Vec<u64> {
    let mut v = vec![0u64, 1, 2, u64::MAX, u64::MAX - 1, 1 << 63, (1 << 63) - 1, (1 << 63) + 1, (1 << 32) - 1, 1 << 32, (1 << 32) + 1];
    for k in 1..=9u32 {
        let b = 1u64 << (7 * k);
        v.extend_from_slice(&[b - 1, b, b + 1]);
    }
    v.sort();
    v.dedup();
    v
}

fn rand_component(rng: &mut Rng, bv: &[u64]) -> u64 {
    match rng.below(5) {
        0 => *rng.pick(bv),
        1 => rng.next_u64(),
        2 => rng.edgy_u64(),
        3 => {
            // exactly k significant 7-bit groups
            let k = 1 + rng.below(10) as u32;
            let bits = (7 * k).min(64);
            let lo = if k == 1 { 0 } else { 1u64 << (7 * (k - 1)) };
            let hi = if bits == 64 { u64::MAX } else { (1u64 << bits) - 1 };
            rng.range(lo, hi)
        }
        _ => rng.below(1 << 20),
    }
}

fn rand_hash(rng: &mut Rng) -> [u8; 28] {
    match rng.below(12) {
        0 => [0u8; 28],
        1 => [0xff; 28],
        2 => {
            // bytes that look like varint continuation / header bytes
            let mut a = [0x80u8; 28];
            a[27] = 0x7f;
            a
        }
        _ => rng.array::<28>(),
    }
}

fn main() {
    let mut ctx = Ctx::from_args("C18");
    if let Some(p) = ctx.replay.clone() {
        let v: serde_json::Value = serde_json::from_slice(&std::fs::read(p).unwrap()).unwrap();
        let c = Case::from_json(&v["replay"]);
        check(&mut ctx, &c);
        let a = pv::panics::catch(|| c.build().to_vec());
        println!("replayed {c:?}\n own bytes {}\n to_vec    {:?}\n violations={}", hexs(&c.own_bytes()), a.map(|b| hexs(&b)).ok(), ctx.n_violations());
        ctx.finish();
    }
    // pin the own bech32 encoder and byte layout to a CIP-19 vector (type 6, mainnet)
    {
        let h: [u8; 28] = hex::decode("9493315cd92eb5d8c4304e67b7e16ae36d61d34502694657811a2c8e").unwrap().try_into().unwrap();
        let c = Case { typ: 6, net: 1, h1: h, h2: [0; 28], ptr: (0, 0, 0) };
        let s = own_bech32("addr", &c.own_bytes());
        let mut pv = vec![];
        own_varint(2498243, &mut pv);
        own_varint(27, &mut pv);
        own_varint(3, &mut pv);
        if s != "addr1vx2fxv2umyhttkxyxp8x0dlpdt3k6cwng5pxj3jhsydzers66hrl8" || !own_bech32_valid(&s) || own_bech32_valid("addr1vx2fxv2umyhttkxyxp8x0dlpdt3k6cwng5pxj3jhsydzers66hrl9") || hexs(&pv) != "8198bd431b03" {
            ctx.inconclusive("own bech32 / varint codec failed its CIP-19 self-test");
            ctx.finish();
        }
    }
    let bv = boundary_values();
    // 0. a fixed witness found by this monitor (thorough tier, seed 1): the hex form of this
    //    network-7 address contains no '0', decodes as base58 and the result is accepted as a
    //    Byron address because no checksum is verified. Kept so the finding is observed in every run.
    if ctx.owns(0) {
        let raw = hex::decode("37aff73ebd9d35226266896e3f3c4bdcd61f87c4c2b224a3934c9d5a4686b5716d73bc2c487ac2536cf261c8188aaa9af81d9fe8a98ef6a757").unwrap();
        let c = Case { typ: 3, net: 7, h1: raw[1..29].try_into().unwrap(), h2: raw[29..57].try_into().unwrap(), ptr: (0, 0, 0) };
        check(&mut ctx, &c);
        ctx.count("fixed_witness_cases");
    }
    // 1. boundary sub-grid of pointer components: every boundary value in every position, both
    //    pointer types, four networks — executed completely in every run
    let mut idx = 0u64;
    for typ in [4u8, 5] {
        for net in [0u8, 1, 7, 15] {
            for pos in 0..3 {
                for (bi, b) in bv.iter().enumerate() {
                    idx += 1;
                    if !ctx.owns(idx) {
                        continue;
                    }
                    let others = [bv[(bi * 7 + 3) % bv.len()], bv[(bi * 11 + 5) % bv.len()]];
                    let ptr = match pos {
                        0 => (*b, others[0], others[1]),
                        1 => (others[0], *b, others[1]),
                        _ => (others[0], others[1], *b),
                    };
                    let c = Case { typ, net, h1: rand_hash(&mut ctx.rng), h2: [0; 28], ptr };
                    check(&mut ctx, &c);
                    ctx.count("pointer_boundary_grid_cases");
                }
            }
        }
    }
    ctx.note("pointer_boundary_grid_complete", json!(true));
    // 2. random cases; the (type, network) grid is walked cyclically so it is complete in every shard
    let n = ctx.budget(200_000, 16_000_000).max(160);
    for i in 0..n {
        let typ = TYPES[(i % 10) as usize];
        let mut rng = ctx.rng.clone();
        // two complete passes over the grid, then half of the cases on the bech32-capable networks
        let net = if i < 320 || rng.bool() { ((i / 10) % 16) as u8 } else { rng.below(2) as u8 };
        let c = Case { typ, net, h1: rand_hash(&mut rng), h2: rand_hash(&mut rng), ptr: (rand_component(&mut rng, &bv), rand_component(&mut rng, &bv), rand_component(&mut rng, &bv)) };
        ctx.rng = rng;
        check(&mut ctx, &c);
        if i < 160 {
            ctx.set_insert("type_network_grid", &format!("t{typ:02}n{net:02}"));
        }
        if (i == 4 || i == 165) && ctx.want_sample() {
            ctx.sample(json!({"case": c.to_json(), "bytes": hexs(&c.own_bytes()), "string": pv::panics::catch(|| c.build().to_string()).ok()}));
        }
    }
    ctx.note("type_network_grid_complete", json!(true));
    ctx.finish();
}
