//! C32 — slot / epoch / wall-clock conversions of the well-known networks are mutually consistent.
//! Oracle: own integer arithmetic from the genesis values (epoch size in slots =
//! epoch_length / slot_length; eras split at shelley_known_slot). For every slot s:
//!   (e, r) = absolute_slot_to_relative(s)  ->  r < epoch size in slots of the era of s,
//!   relative_slot_to_absolute(e, r) == s,
//!   (e, r) equals the own computation (only reported when the two rules above did not fire),
//!   slot_to_wallclock(s+1) - slot_to_wallclock(s) == slot length of the era of s  (strictly
//!   increasing, advancing by the era's slot length per slot).
use pallas_traverse::wellknown::GenesisValues;
use pv::*;

struct Net {
    name: &'static str,
    g: GenesisValues,
    sks: u64,      // first Shelley slot
    size_b: u64,   // Byron epoch size in slots
    size_s: u64,   // Shelley epoch size in slots
    len_b: u64,    // Byron slot length
    len_s: u64,    // Shelley slot length
    start_epoch: u64, // epoch number of the first Shelley epoch
}

fn nets() -> Vec<Net> {
    let mut v = vec![];
    for (name, g) in [("mainnet", GenesisValues::mainnet()), ("testnet", GenesisValues::testnet()), ("preview", GenesisValues::preview()), ("preprod", GenesisValues::preprod())] {
        let len_b = g.byron_slot_length as u64;
        let len_s = g.shelley_slot_length as u64;
        let size_b = g.byron_epoch_length as u64 / len_b;
        let size_s = g.shelley_epoch_length as u64 / len_s;
        let sks = g.shelley_known_slot;
        let start_epoch = sks / size_b;
        v.push(Net { name, g, sks, size_b, size_s, len_b, len_s, start_epoch });
    }
    v
}

impl Net {
    fn era(&self, s: u64) -> &'static str {
        if s < self.sks { "byron" } else { "shelley" }
    }
    fn own_rel(&self, s: u64) -> (u64, u64) {
        if s < self.sks {
            (s / self.size_b, s % self.size_b)
        } else {
            let es = s - self.sks;
            (self.start_epoch + es / self.size_s, es % self.size_s)
        }
    }
    fn size(&self, s: u64) -> u64 {
        if s < self.sks { self.size_b } else { self.size_s }
    }
    fn len(&self, s: u64) -> u64 {
        if s < self.sks { self.len_b } else { self.len_s }
    }
    /// where the slot sits relative to the interesting boundaries (part of the signature)
    fn place(&self, s: u64) -> &'static str {
        if self.sks > 0 && s + 1 == self.sks {
            "last-byron-slot"
        } else if s == self.sks {
            "first-shelley-slot"
        } else {
            "interior"
        }
    }
}

struct Tally {
    nontrivial: bool,
}

fn check_slot(ctx: &mut Ctx, n: &Net, s: u64) -> Tally {
    ctx.eval();
    let era = n.era(s);
    let r = pv::panics::catch(|| {
        let rel = n.g.absolute_slot_to_relative(s);
        let back = n.g.relative_slot_to_absolute(rel.0, rel.1);
        let w0 = n.g.slot_to_wallclock(s);
        let w1 = n.g.slot_to_wallclock(s + 1);
        (rel, back, w0, w1)
    });
    let replay = || json!({"network": n.name, "slot": s.to_string()});
    let own = n.own_rel(s);
    match r {
        Err(p) if p.in_harness() => ctx.inconclusive(&format!("harness panic at {}:{}: {}", p.file, p.line, p.msg)),
        Err(p) => ctx.violation(&format!("panic:era={era}:{}", p.site()), &format!("{} slot {s}: conversion panicked: {}", n.name, p.msg), replay()),
        Ok(((e, r), back, w0, w1)) => {
            let mut fired = false;
            // class of the relative part: the one defect known on the pinned tree takes the
            // remainder modulo the epoch length in *seconds*
            let secs = if s < n.sks { n.g.byron_epoch_length as u64 } else { n.g.shelley_epoch_length as u64 };
            let es = if s < n.sks { s } else { s - n.sks };
            let rcls = if (e, r) == own {
                "correct"
            } else if e == own.0 && r == es % secs {
                "slot-mod-epoch-length-in-seconds"
            } else {
                "other"
            };
            if r >= n.size(s) {
                ctx.violation(
                    &format!("relative:slot-in-epoch-not-below-epoch-size:era={era}:got={rcls}"),
                    &format!("{} absolute_slot_to_relative({s}) = ({e}, {r}) but a {era} epoch has {} slots (own arithmetic: ({}, {}))", n.name, n.size(s), own.0, own.1),
                    replay(),
                );
                fired = true;
            }
            if back != s {
                // is the inverse at least right for the pair it was given?
                let own_back: u128 = if e < n.start_epoch {
                    e as u128 * n.size_b as u128 + r as u128
                } else {
                    n.sks as u128 + (e - n.start_epoch) as u128 * n.size_s as u128 + r as u128
                };
                let inv = if back as u128 == own_back { "consistent" } else { "inconsistent" };
                ctx.violation(
                    &format!("roundtrip:era={era}:relative={rcls}:inverse={inv}"),
                    &format!("{} slot {s} -> ({e}, {r}) -> relative_slot_to_absolute = {back}", n.name),
                    replay(),
                );
                fired = true;
            }
            if !fired && (e, r) != own {
                ctx.violation(
                    &format!("relative:differs-from-own-arithmetic:era={era}"),
                    &format!("{} absolute_slot_to_relative({s}) = ({e}, {r}), own arithmetic from the genesis values gives ({}, {})", n.name, own.0, own.1),
                    replay(),
                );
            }
            // wall clock: step from s to s+1 is the slot length of the era s belongs to
            let step = w1 as i128 - w0 as i128;
            if step != n.len(s) as i128 {
                let dir = if step <= 0 { "not-increasing" } else { "wrong-step" };
                ctx.violation(
                    &format!("wallclock:{dir}:era={era}:at={}:network={}", n.place(s), n.name),
                    &format!("{} slot_to_wallclock({s}) = {w0}, slot_to_wallclock({}) = {w1}: step {step}, the {era} slot length is {}", n.name, s + 1, n.len(s)),
                    replay(),
                );
            }
        }
    }
    let boundary = {
        let (_, r0) = own;
        r0 == 0 || r0 + 1 == n.size(s) || s + 1 == n.sks || s == n.sks
    };
    let nt = (s < n.sks && s >= n.size_b) || boundary;
    Tally { nontrivial: nt }
}

fn run_range(ctx: &mut Ctx, n: &Net, ni: usize, lo: u64, hi: u64, label: &str, chunk_ctr: &mut u64) {
    // [lo, hi) split into chunks of 4096 slots, chunks dealt to the shards
    let mut a = lo;
    while a < hi {
        let b = (a + 4096).min(hi);
        *chunk_ctr += 1;
        if ctx.owns(*chunk_ctr) {
            let mut nt = 0u64;
            for s in a..b {
                if check_slot(ctx, n, s).nontrivial {
                    nt += 1;
                }
            }
            // dense ranges: one fingerprint per (network, chunk, non-trivial slot) would exceed the
            // fingerprint cap; record boundary slots individually and chunks of Byron slots as one
            ctx.add(&format!("slots_{label}"), b - a);
            ctx.add("nontrivial_slots_in_dense_ranges", nt);
            if nt > 0 {
                ctx.nontrivial(fp_mix(fp(n.name.as_bytes()), fp_mix(ni as u64, a)));
            }
        }
        a = b;
    }
}

fn main() {
    let mut ctx = Ctx::from_args("C32");
    let nets = nets();
    if let Some(p) = ctx.replay.clone() {
        let v: serde_json::Value = serde_json::from_slice(&std::fs::read(p).unwrap()).unwrap();
        let name = v["replay"]["network"].as_str().unwrap().to_string();
        let s: u64 = v["replay"]["slot"].as_str().unwrap().parse().unwrap();
        let n = nets.iter().find(|n| n.name == name).unwrap();
        check_slot(&mut ctx, n, s);
        println!(
            "replayed {name} slot {s}: rel={:?} own={:?} wallclock={} violations={}",
            pv::panics::catch(|| n.g.absolute_slot_to_relative(s)).ok(),
            n.own_rel(s),
            pv::panics::catch(|| n.g.slot_to_wallclock(s)).map(|x| x.to_string()).unwrap_or("panic".into()),
            ctx.n_violations()
        );
        ctx.finish();
    }
    // genesis sanity of the oracle's own derived values (exact divisions)
    for n in &nets {
        if n.g.byron_epoch_length as u64 % n.len_b != 0 || n.g.shelley_epoch_length as u64 % n.len_s != 0 || n.sks % n.size_b != 0 || n.g.byron_known_slot != 0 {
            ctx.inconclusive(&format!("{}: genesis values are not of the shape the oracle assumes (exact epoch sizes, Shelley starting on a Byron epoch boundary, Byron known slot 0)", n.name));
        }
        ctx.set_insert("networks", n.name);
    }
    let mut chunk = 0u64;
    let quick = ctx.quick();
    for (ni, n) in nets.iter().enumerate() {
        // 1. every Byron-era slot of the network (complete in both tiers)
        run_range(&mut ctx, n, ni, 0, n.sks, "byron_all", &mut chunk);
        // 2. Shelley: dense after the era boundary
        let dense_epochs = if quick { 4 } else { 50 };
        run_range(&mut ctx, n, ni, n.sks, n.sks + dense_epochs * n.size_s, "shelley_dense", &mut chunk);
        // 3. windows around each of the next epoch boundaries
        let (k_lo, k_hi, win) = if quick { (4, 60, 1500u64) } else { (50, 400, 5000u64) };
        for k in k_lo..=k_hi {
            let b = n.sks + k * n.size_s;
            run_range(&mut ctx, n, ni, b - win, b + win, "shelley_epoch_boundary_windows", &mut chunk);
            ctx.count("epoch_boundary_windows");
        }
    }
    ctx.note("byron_slots_complete", json!(true));
    // 4. log-spaced and random slots up to 2^40, with the epoch boundaries nearest to them
    let nrand = ctx.budget(10_000_000, 1_500_000_000);
    for i in 0..nrand {
        let ni = ctx.rng.usize_below(nets.len());
        let n = &nets[ni];
        let s = match ctx.rng.below(4) {
            0 => {
                let bits = ctx.rng.range(1, 40);
                ctx.rng.below(1u64 << bits)
            }
            1 => ctx.rng.below(1u64 << 40),
            2 => {
                // an epoch boundary far out, +- a few slots
                let k = ctx.rng.below(((1u64 << 40) - n.sks) / n.size_s - 1) + 1;
                (n.sks + k * n.size_s + ctx.rng.below(7)).saturating_sub(3)
            }
            _ => {
                // last slots below 2^40
                (1u64 << 40) - 1 - ctx.rng.below(100_000)
            }
        };
        let t = check_slot(&mut ctx, n, s);
        ctx.count("slots_random_or_log_spaced");
        ctx.max("max_slot", s);
        if t.nontrivial {
            ctx.nontrivial(fp_mix(ni as u64 + 100, s));
            ctx.count("nontrivial_random_slots");
        }
        if i < 1 && ctx.want_sample() {
            ctx.sample(json!({"network": n.name, "slot": s, "own_epoch_and_slot": n.own_rel(s), "era": n.era(s)}));
        }
    }
    ctx.finish();
}
