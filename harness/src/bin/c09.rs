//! C09 — ledger and network decoders never panic on untrusted bytes.
//!
//! Oracle: panic / crash watch over the public decode entry points (accessors are outside the
//! property).  In-process cases run under `catch_unwind` with a crash witness (`begin_case`) and a
//! 20 s CPU bound; nesting bombs run in a child process of this binary (`--child`), so that a stack
//! overflow is observed as the child's death by signal and attributed to (entry, construct).
use pallas_addresses::{Address, ByronAddress};
use pallas_codec::minicbor::{self, Decode};
use pallas_codec::utils::Bytes;
use pallas_network::miniprotocols as n1;
use pallas_network::miniprotocols::localstate::queries_v16 as q;
use pallas_network2::protocol as n2;
use pallas_traverse::{Era, MultiEraBlock, MultiEraHeader, MultiEraOutput, MultiEraTx};
use pv::cbor::Node;
use pv::netgen::*;
use pv::*;
use std::collections::BTreeMap;
use std::str::FromStr;

/// result of one decode call: Ok / Err with the position the decoder reported (if any)
#[derive(Clone, Copy, Debug)]
struct R {
    ok: bool,
    pos: Option<usize>,
}

fn pos_in(msg: &str) -> Option<usize> {
    let i = msg.find("position ")?;
    let t: String = msg[i + 9..].chars().take_while(|c| c.is_ascii_digit()).collect();
    t.parse().ok()
}
fn r_mini<T>(r: Result<T, minicbor::decode::Error>) -> R {
    match r {
        Ok(_) => R { ok: true, pos: None },
        Err(e) => R { ok: false, pos: e.position().or_else(|| pos_in(&e.to_string())) },
    }
}
fn r_disp<T, E: std::fmt::Display>(r: Result<T, E>) -> R {
    match r {
        Ok(_) => R { ok: true, pos: None },
        Err(e) => R { ok: false, pos: pos_in(&e.to_string()) },
    }
}
fn m<T: for<'b> Decode<'b, ()>>(b: &[u8]) -> R {
    r_mini(minicbor::decode::<T>(b))
}


/// `file:function:message-class` of the panic plus the type whose `impl` block contains the panicking
/// line (read from the source file; the short frame names of the backtrace do not carry it). No line numbers.
fn site_ext(p: &pv::panics::PanicInfo) -> String {
    let mut target = String::new();
    if let Ok(src) = std::fs::read_to_string(&p.file) {
        let lines: Vec<&str> = src.lines().collect();
        let mut i = (p.line as usize).min(lines.len());
        while i > 0 {
            i -= 1;
            let l = lines[i];
            if l.starts_with("impl") || l.starts_with("pub fn ") || l.starts_with("fn ") || l.starts_with("pub(crate) fn ") {
                // may continue on the next lines ("impl<..> Decode<..>\n    for X {")
                let joined = format!("{} {}", l.trim(), lines.get(i + 1).map(|x| x.trim()).unwrap_or(""));
                let t = match joined.find(" for ") {
                    Some(k) if l.starts_with("impl") => joined[k + 5..].to_string(),
                    _ => joined.clone(),
                };
                target = t.chars().take_while(|c| c.is_alphanumeric() || *c == '_' || *c == ':').collect();
                break;
            }
        }
    }
    if target.is_empty() {
        p.site()
    } else {
        format!("{}:{}:{}:{}", p.rel_file(), target, p.func, p.msg_class())
    }
}

#[derive(Clone, Copy, PartialEq, Eq, Debug)]
enum Fam {
    Ledger,
    AddrBytes,
    AddrText,
    Net,
}

struct Entry {
    name: &'static str,
    fam: Fam,
    f: fn(&[u8]) -> R,
}

fn text(b: &[u8]) -> String {
    String::from_utf8_lossy(b).to_string()
}

macro_rules! e {
    ($v:ident, $name:expr, $fam:expr, $f:expr) => {
        $v.push(Entry { name: $name, fam: $fam, f: $f })
    };
}

fn entries() -> Vec<Entry> {
    let mut v: Vec<Entry> = vec![];
    use Fam::*;
    e!(v, "MultiEraBlock::decode", Ledger, |b| r_disp(MultiEraBlock::decode(b)));
    e!(v, "MultiEraTx::decode", Ledger, |b| r_disp(MultiEraTx::decode(b)));
    e!(v, "MultiEraTx::decode_for_era(Byron)", Ledger, |b| r_mini(MultiEraTx::decode_for_era(Era::Byron, b)));
    e!(v, "MultiEraTx::decode_for_era(Shelley)", Ledger, |b| r_mini(MultiEraTx::decode_for_era(Era::Shelley, b)));
    e!(v, "MultiEraTx::decode_for_era(Allegra)", Ledger, |b| r_mini(MultiEraTx::decode_for_era(Era::Allegra, b)));
    e!(v, "MultiEraTx::decode_for_era(Mary)", Ledger, |b| r_mini(MultiEraTx::decode_for_era(Era::Mary, b)));
    e!(v, "MultiEraTx::decode_for_era(Alonzo)", Ledger, |b| r_mini(MultiEraTx::decode_for_era(Era::Alonzo, b)));
    e!(v, "MultiEraTx::decode_for_era(Babbage)", Ledger, |b| r_mini(MultiEraTx::decode_for_era(Era::Babbage, b)));
    e!(v, "MultiEraTx::decode_for_era(Conway)", Ledger, |b| r_mini(MultiEraTx::decode_for_era(Era::Conway, b)));
    e!(v, "MultiEraHeader::decode(0,Some(0))", Ledger, |b| r_disp(MultiEraHeader::decode(0, Some(0), b)));
    e!(v, "MultiEraHeader::decode(0,Some(1))", Ledger, |b| r_disp(MultiEraHeader::decode(0, Some(1), b)));
    e!(v, "MultiEraHeader::decode(0,None)", Ledger, |b| r_disp(MultiEraHeader::decode(0, None, b)));
    e!(v, "MultiEraHeader::decode(1..4)", Ledger, |b| r_disp(MultiEraHeader::decode(1 + (b.len() % 4) as u8, None, b)));
    e!(v, "MultiEraHeader::decode(5..)", Ledger, |b| r_disp(MultiEraHeader::decode(5 + (b.len() % 3) as u8, None, b)));
    e!(v, "MultiEraOutput::decode(Byron)", Ledger, |b| r_mini(MultiEraOutput::decode(Era::Byron, b)));
    e!(v, "MultiEraOutput::decode(Shelley)", Ledger, |b| r_mini(MultiEraOutput::decode(Era::Shelley, b)));
    e!(v, "MultiEraOutput::decode(Mary)", Ledger, |b| r_mini(MultiEraOutput::decode(Era::Mary, b)));
    e!(v, "MultiEraOutput::decode(Alonzo)", Ledger, |b| r_mini(MultiEraOutput::decode(Era::Alonzo, b)));
    e!(v, "MultiEraOutput::decode(Babbage)", Ledger, |b| r_mini(MultiEraOutput::decode(Era::Babbage, b)));
    e!(v, "MultiEraOutput::decode(Conway)", Ledger, |b| r_mini(MultiEraOutput::decode(Era::Conway, b)));
    e!(v, "Address::from_bytes", AddrBytes, |b| r_disp(Address::from_bytes(b)));
    e!(v, "ByronAddress::from_bytes", AddrBytes, |b| r_disp(ByronAddress::from_bytes(b)));
    e!(v, "Address::from_hex", AddrText, |b| r_disp(Address::from_hex(&text(b))));
    e!(v, "Address::from_bech32", AddrText, |b| r_disp(Address::from_bech32(&text(b))));
    e!(v, "Address::from_str", AddrText, |b| r_disp(Address::from_str(&text(b))));
    e!(v, "ByronAddress::from_base58", AddrText, |b| r_disp(ByronAddress::from_base58(&text(b))));
    // pallas-network messages
    e!(v, "n1:handshake-n2n", Net, m::<n1::handshake::Message<n1::handshake::n2n::VersionData>>);
    e!(v, "n1:handshake-n2c", Net, m::<n1::handshake::Message<n1::handshake::n2c::VersionData>>);
    e!(v, "n1:chainsync-n2n", Net, m::<n1::chainsync::Message<n1::chainsync::HeaderContent>>);
    e!(v, "n1:chainsync-n2c", Net, m::<n1::chainsync::Message<n1::chainsync::BlockContent>>);
    e!(v, "n1:blockfetch", Net, m::<n1::blockfetch::Message>);
    e!(v, "n1:txsubmission", Net, m::<N1TxSub>);
    e!(v, "n1:keepalive", Net, m::<n1::keepalive::Message>);
    e!(v, "n1:peersharing", Net, m::<n1::peersharing::Message>);
    e!(v, "n1:localstate", Net, m::<n1::localstate::Message>);
    e!(v, "n1:localtxsubmission", Net, m::<N1LocalTx>);
    e!(v, "n1:txmonitor", Net, m::<n1::txmonitor::Message>);
    e!(v, "n1:localmsgsubmission", Net, m::<N1LocalMsgSub>);
    e!(v, "n1:localmsgnotification", Net, m::<n1::localmsgnotification::Message>);
    // local-state query / result payload types and reject reasons
    e!(v, "n1:q:Request", Net, m::<q::Request>);
    e!(v, "n1:q:TxValidationError", Net, m::<n1::localtxsubmission::TxValidationError>);
    e!(v, "n1:q:SystemStart", Net, m::<q::SystemStart>);
    e!(v, "n1:q:ChainBlockNumber", Net, m::<q::ChainBlockNumber>);
    e!(v, "n1:q:Point", Net, m::<n1::Point>);
    e!(v, "n1:q:(GenesisConfig,)", Net, m::<(q::GenesisConfig,)>);
    e!(v, "n1:q:(StakeDistribution,)", Net, m::<(q::StakeDistribution,)>);
    e!(v, "n1:q:(UTxOByAddress,)", Net, m::<(q::UTxOByAddress,)>);
    e!(v, "n1:q:(PoolParamsMap,)", Net, m::<(BTreeMap<Bytes, q::PoolParams>,)>);
    e!(v, "n1:q:(PState,)", Net, m::<(q::PState,)>);
    e!(v, "n1:q:(PoolDistr,)", Net, m::<(q::PoolDistr,)>);
    e!(v, "n1:q:(StakeSnapshots,)", Net, m::<(q::StakeSnapshots,)>);
    e!(v, "n1:q:(FilteredDelegsRewards,)", Net, m::<(q::FilteredDelegsRewards,)>);
    e!(v, "n1:q:(DRepStateMap,)", Net, m::<(BTreeMap<q::StakeAddr, q::DRepState>,)>);
    e!(v, "n1:q:(DRepStakeDistr,)", Net, m::<(BTreeMap<q::DRep, q::Coin>,)>);
    e!(v, "n1:q:(VoteDelegatees,)", Net, m::<(BTreeMap<q::StakeAddr, q::DRep>,)>);
    e!(v, "n1:q:(CommitteeMembersState,)", Net, m::<(q::CommitteeMembersState,)>);
    e!(v, "n1:q:(GovState,)", Net, m::<(q::GovState,)>);
    e!(v, "n1:q:(RatifyState,)", Net, m::<(q::RatifyState,)>);
    e!(v, "n1:q:(ProtocolParam,)", Net, m::<(q::ProtocolParam,)>);
    e!(v, "n1:q:(SMaybe<ProtocolParam>,)", Net, m::<(n1::localtxsubmission::SMaybe<q::ProtocolParam>,)>);
    e!(v, "n1:q:(Constitution,)", Net, m::<(q::Constitution,)>);
    e!(v, "n1:q:(AccountState,)", Net, m::<(q::AccountState,)>);
    e!(v, "n1:q:(Proposals,)", Net, m::<(Vec<q::GovActionState>,)>);
    e!(v, "n1:q:(ProposedPPUpdates,)", Net, m::<(q::ProposedPPUpdates,)>);
    e!(v, "n1:q:(NonMyopicMemberRewards,)", Net, m::<(q::NonMyopicMemberRewards,)>);
    e!(v, "n1:q:CommitteeAuthorization", Net, m::<q::CommitteeAuthorization>);
    e!(v, "n1:q:FuturePParams", Net, m::<q::FuturePParams>);
    // pallas-network2 messages
    e!(v, "n2:handshake-n2n", Net, m::<n2::handshake::Message<n2::handshake::n2n::VersionData>>);
    e!(v, "n2:handshake-n2c", Net, m::<n2::handshake::Message<n2::handshake::n2c::VersionData>>);
    e!(v, "n2:chainsync", Net, m::<n2::chainsync::Message<n2::chainsync::HeaderContent>>);
    e!(v, "n2:blockfetch", Net, m::<n2::blockfetch::Message>);
    e!(v, "n2:txsubmission", Net, m::<n2::txsubmission::Message>);
    e!(v, "n2:keepalive", Net, m::<n2::keepalive::Message>);
    e!(v, "n2:peersharing", Net, m::<n2::peersharing::Message>);
    e!(v, "n2:leiosnotify", Net, m::<n2::leiosnotify::Message>);
    e!(v, "n2:leiosfetch", Net, m::<n2::leiosfetch::Message>);
    v
}

// ---------------------------------------------------------------------------------------
// corpus
// ---------------------------------------------------------------------------------------

struct Corpus {
    /// (name, bytes) — blocks, txs, headers, outputs
    ledger: Vec<(String, Vec<u8>)>,
    addr_bytes: Vec<Vec<u8>>,
    addr_text: Vec<String>,
    /// (entry name that decodes it, bytes)
    net: Vec<(&'static str, Vec<u8>)>,
}

fn sub<'a>(it: &'a cbor::Item, path: &[usize]) -> Option<&'a cbor::Item> {
    let mut cur = it;
    for &i in path {
        cur = cur.children.get(i)?;
    }
    Some(cur)
}

fn build_corpus(ctx: &mut Ctx, rng: &mut Rng) -> Corpus {
    let mut c = Corpus { ledger: vec![], addr_bytes: vec![], addr_text: vec![], net: vec![] };
    let mut blocks = pv::corpus::blocks();
    // thorough tier: plus a seed-dependent sample of the 1782 chunk blocks (splitting them costs seconds per shard)
    if !ctx.quick() {
        let chunk = pv::corpus::chunk_blocks();
        for _ in 0..60 {
            blocks.push(chunk[rng.usize_below(chunk.len())].clone());
        }
    }
    for a in pv::corpus::txs() {
        c.ledger.push((a.name, a.bytes));
    }
    for a in pv::corpus::headers() {
        c.ledger.push((a.name, a.bytes));
    }
    for b in &blocks {
        let Ok(it) = cbor::parse(&b.bytes) else { continue };
        let era = it.children.first().map(|x| x.arg).unwrap_or(0);
        // header
        if let Some(h) = sub(&it, &[1, 0]) {
            c.ledger.push((format!("{}#header", b.name), h.bytes(&b.bytes).to_vec()));
        }
        if era >= 2 {
            let (Some(bodies), Some(wits)) = (sub(&it, &[1, 1]), sub(&it, &[1, 2])) else { continue };
            let aux = sub(&it, &[1, 3]);
            for (i, body) in bodies.children.iter().enumerate().take(3) {
                let Some(w) = wits.children.get(i) else { continue };
                let auxi = aux.and_then(|a| a.map_get_uint(i as u64)).map(|x| Node::raw(x.bytes(&b.bytes))).unwrap_or(Node::Null);
                let tx = if era >= 5 {
                    Node::arr(vec![Node::raw(body.bytes(&b.bytes)), Node::raw(w.bytes(&b.bytes)), Node::Bool(true), auxi])
                } else {
                    Node::arr(vec![Node::raw(body.bytes(&b.bytes)), Node::raw(w.bytes(&b.bytes)), auxi])
                };
                c.ledger.push((format!("{}#tx{i}", b.name), tx.to_vec()));
                if let Some(outs) = body.map_get_uint(1) {
                    for (k, o) in outs.children.iter().enumerate().take(2) {
                        c.ledger.push((format!("{}#tx{i}out{k}", b.name), o.bytes(&b.bytes).to_vec()));
                        let addr = if o.is_map() { o.map_get_uint(0) } else { o.children.first() };
                        if let Some(a) = addr {
                            if a.major == 2 {
                                c.addr_bytes.push(a.str_payload(&b.bytes));
                            }
                        }
                    }
                }
            }
        } else if era == 1 {
            // byron main block: [hdr, [tx_payload, ...], extra]; tx_payload = [[tx, witnesses], ...]
            if let Some(tp) = sub(&it, &[1, 1, 0]) {
                for (i, t) in tp.children.iter().enumerate().take(3) {
                    c.ledger.push((format!("{}#byrontx{i}", b.name), t.bytes(&b.bytes).to_vec()));
                    if let Some(outs) = sub(t, &[0, 1]) {
                        for o in outs.children.iter().take(2) {
                            c.ledger.push((format!("{}#byronout", b.name), o.bytes(&b.bytes).to_vec()));
                            if let Some(a) = o.children.first() {
                                c.addr_bytes.push(a.bytes(&b.bytes).to_vec());
                            }
                        }
                    }
                }
            }
        }
    }
    for b in blocks {
        c.ledger.push((b.name, b.bytes));
    }
    // textual addresses from the byte forms that parse
    let mut texts = vec![];
    for a in &c.addr_bytes {
        if let Ok(Ok(x)) = pv::panics::catch(|| Address::from_bytes(a)) {
            texts.push(x.to_string());
            texts.push(x.to_hex());
        }
        if let Ok(Ok(x)) = pv::panics::catch(|| ByronAddress::from_bytes(a)) {
            texts.push(x.to_base58());
        }
    }
    texts.sort();
    texts.dedup();
    c.addr_text = texts;
    c.addr_bytes.sort();
    c.addr_bytes.dedup();
    // network: encodings of generated messages and of typed query results
    for p in N1_PROTOS {
        let name: &'static str = match p {
            N1Proto::HandshakeN2N => "n1:handshake-n2n",
            N1Proto::HandshakeN2C => "n1:handshake-n2c",
            N1Proto::ChainSyncN2N => "n1:chainsync-n2n",
            N1Proto::ChainSyncN2C => "n1:chainsync-n2c",
            N1Proto::BlockFetch => "n1:blockfetch",
            N1Proto::TxSubmission => "n1:txsubmission",
            N1Proto::KeepAlive => "n1:keepalive",
            N1Proto::PeerSharing => "n1:peersharing",
            N1Proto::LocalState => "n1:localstate",
            N1Proto::LocalTxSubmission => "n1:localtxsubmission",
            N1Proto::TxMonitor => "n1:txmonitor",
            N1Proto::LocalMsgSubmission => "n1:localmsgsubmission",
            N1Proto::LocalMsgNotification => "n1:localmsgnotification",
        };
        let n = if p == N1Proto::LocalTxSubmission { 160 } else { 40 };
        for _ in 0..n {
            let mut g = G::new(rng);
            let (msg, _) = gen_n1_message(&mut g, p);
            if let Ok(b) = msg.encode() {
                if b.len() < 20_000 {
                    c.net.push((name, b));
                }
            }
        }
    }
    for p in N2_PROTOS {
        let name: &'static str = match p {
            N2Proto::Handshake => "n2:handshake-n2n",
            N2Proto::KeepAlive => "n2:keepalive",
            N2Proto::ChainSync => "n2:chainsync",
            N2Proto::PeerSharing => "n2:peersharing",
            N2Proto::BlockFetch => "n2:blockfetch",
            N2Proto::TxSubmission => "n2:txsubmission",
            N2Proto::LeiosNotify => "n2:leiosnotify",
            N2Proto::LeiosFetch => "n2:leiosfetch",
        };
        for _ in 0..30 {
            let mut g = G::new(rng);
            let (msg, _) = gen_n2_message(&mut g, p);
            let b = encode_n2(&msg);
            if b.len() < 20_000 {
                c.net.push((name, b));
            }
        }
    }
    macro_rules! typed {
        ($name:expr, $n:expr, $gen:expr) => {
            for _ in 0..$n {
                let mut g = G::new(rng);
                let v = $gen(&mut g);
                if let Ok(b) = enc(&v) {
                    c.net.push(($name, b));
                }
            }
        };
    }
    use pv::netgen::lsq as l;
    typed!("n2:handshake-n2c", 20, n2_handshake_n2c);
    typed!("n1:q:Request", 120, l::request);
    // the encoder writes [era, errs]; the decoder wants [[era, errs]]
    for _ in 0..200 {
        let mut g = G::new(rng);
        let v = pv::netgen::ltx::tx_validation_error(&mut g);
        if let Ok(b) = enc(&v) {
            c.net.push(("n1:q:TxValidationError", Node::arr(vec![Node::raw(&b)]).to_vec()));
            c.net.push(("n1:localtxsubmission", Node::arr(vec![Node::u(2), Node::arr(vec![Node::raw(&b)])]).to_vec()));
        }
    }
    typed!("n1:q:SystemStart", 10, l::system_start);
    typed!("n1:q:ChainBlockNumber", 5, l::chain_block_no);
    typed!("n1:q:(GenesisConfig,)", 10, |g: &mut G| (l::genesis_config(g),));
    typed!("n1:q:(StakeDistribution,)", 10, |g: &mut G| (l::stake_distribution(g),));
    typed!("n1:q:(UTxOByAddress,)", 40, |g: &mut G| (l::utxo_by_address(g),));
    typed!("n1:q:(PoolParamsMap,)", 20, |g: &mut G| (g.vec(3, |g| (g.cbytes(28), l::pool_params(g))).into_iter().collect::<BTreeMap<_, _>>(),));
    typed!("n1:q:(StakeSnapshots,)", 10, |g: &mut G| (l::stake_snapshots(g),));
    typed!("n1:q:(FilteredDelegsRewards,)", 10, |g: &mut G| (l::filtered_delegs(g),));
    typed!("n1:q:(DRepStateMap,)", 20, |g: &mut G| (g.vec(3, |g| (l::stake_addr(g), l::drep_state(g))).into_iter().collect::<BTreeMap<_, _>>(),));
    typed!("n1:q:(DRepStakeDistr,)", 20, |g: &mut G| (g.vec(4, |g| (l::drep(g), l::coin(g))).into_iter().collect::<BTreeMap<_, _>>(),));
    typed!("n1:q:(VoteDelegatees,)", 20, |g: &mut G| (g.vec(4, |g| (l::stake_addr(g), l::drep(g))).into_iter().collect::<BTreeMap<_, _>>(),));
    typed!("n1:q:(CommitteeMembersState,)", 30, |g: &mut G| (l::committee_members_state(g),));
    typed!("n1:q:(ProtocolParam,)", 20, |g: &mut G| (l::protocol_param(g),));
    typed!("n1:q:(SMaybe<ProtocolParam>,)", 10, |g: &mut G| (l::smaybe(g, l::protocol_param),));
    typed!("n1:q:(Constitution,)", 10, |g: &mut G| (l::constitution(g),));
    typed!("n1:q:(AccountState,)", 5, |g: &mut G| (l::account_state(g),));
    typed!("n1:q:(Proposals,)", 30, |g: &mut G| (g.vec(3, l::gov_action_state),));
    typed!("n1:q:CommitteeAuthorization", 20, l::committee_authorization);
    typed!("n1:q:FuturePParams", 20, l::future_pparams);
    typed!("n1:q:(GovState,)", 30, |g: &mut G| {
        // GovState = [proposals(any), SMaybe<Committee>, Constitution, cur, prev, FuturePParams, drep_pulsing(any)]
        (pallas_codec::utils::AnyCbor::from_raw_bytes(Node::arr(vec![
            Node::raw(&g.any_cbor().unwrap()),
            Node::raw(&enc(&l::smaybe(g, l::committee)).unwrap_or(vec![0x80])),
            Node::raw(&enc(&l::constitution(g)).unwrap_or(vec![0x80])),
            Node::raw(&enc(&l::protocol_param(g)).unwrap_or(vec![0x80])),
            Node::raw(&enc(&l::protocol_param(g)).unwrap_or(vec![0x80])),
            Node::raw(&enc(&l::future_pparams(g)).unwrap_or(vec![0x80])),
            Node::raw(&g.any_cbor().unwrap()),
        ])
        .to_vec()),)
    });
    ctx.note("corpus_ledger_artefacts", json!(c.ledger.len()));
    ctx.note("corpus_addresses", json!(c.addr_bytes.len() + c.addr_text.len()));
    ctx.note("corpus_network_encodings", json!(c.net.len()));
    c
}

// ---------------------------------------------------------------------------------------
// one monitored in-process case
// ---------------------------------------------------------------------------------------

/// crash / hang witness for the calls that follow (one descriptor per input, several entry points)
fn open_case(ctx: &mut Ctx, fam: &str, class: &str, src: &str, input: &[u8], calls: u64) {
    let label = format!("{fam}:{class}");
    if input.len() <= 300_000 {
        ctx.begin_case(&format!("{label}\nsource {src}\n{}", hexs(input)), 20 * calls.max(1));
    } else {
        ctx.begin_case(&format!("{label}\nsource {src}\n({} bytes)", input.len()), 20 * calls.max(1));
    }
}

fn run_case(ctx: &mut Ctx, e: &Entry, input: &[u8], class: &str, src: &str) {
    let r = pv::panics::catch(|| (e.f)(input));
    ctx.eval();
    ctx.count(&format!("decodes:{:?}", e.fam));
    ctx.set_insert("entry_points_exercised", e.name);
    match r {
        Err(p) => {
            ctx.count("panics_seen");
            let replay = if e.fam == Fam::AddrText { json!({"entry": e.name, "text": text(input)}) } else { json!({"entry": e.name, "input": hexs(input)}) };
            ctx.violation(
                &format!("panic:{}", site_ext(&p)),
                &format!("{} panicked on a {class} of {src} ({} bytes: {}): {} at {}:{}", e.name, input.len(), hex_short(input), p.msg, p.rel_file(), p.line),
                replay,
            );
        }
        Ok(r) => {
            if r.ok {
                ctx.count("decoded_ok");
            } else {
                ctx.count("decoded_err");
            }
            if ctx.want_sample() && class != "unmutated" && class != "random-bytes" && r.pos.map(|p| p >= 16).unwrap_or(r.ok) && ctx.evaluations % 97 == 0 {
                ctx.sample(json!({"entry": e.name, "mutation": class, "source": src, "input": hex_short(input), "result": if r.ok { "Ok".to_string() } else { format!("Err at position {:?}", r.pos) }}));
            }
            if r.ok || r.pos.map(|p| p >= 16).unwrap_or(false) {
                ctx.nontrivial(fp_mix(fp(input), fp(e.name.as_bytes())));
                ctx.count("nontrivial_past_16_bytes_or_ok");
            }
        }
    }
}

fn mutate_text(s: &str, rng: &mut Rng) -> (String, &'static str) {
    let mut v: Vec<char> = s.chars().collect();
    if v.is_empty() {
        return ("a".into(), "random-text");
    }
    match rng.below(7) {
        0 => {
            let i = rng.usize_below(v.len());
            v[i] = *rng.pick(&['1', 'b', 'i', 'o', 'q', 'z', '0', 'O', 'l', 'I', 'A', '_', ' ', 'é', '\u{0}']);
            (v.into_iter().collect(), "char-set")
        }
        1 => {
            v.truncate(rng.usize_below(v.len()));
            (v.into_iter().collect(), "truncate")
        }
        2 => {
            let i = rng.usize_below(v.len() + 1);
            v.insert(i, *rng.pick(&['1', 'q', 'x', '9', 'Z', '-', 'ß']));
            (v.into_iter().collect(), "insert")
        }
        3 => {
            let i = rng.usize_below(v.len());
            v.remove(i);
            (v.into_iter().collect(), "delete")
        }
        4 => {
            let up: String = v.iter().map(|c| if rng.bool() { c.to_ascii_uppercase() } else { *c }).collect();
            (up, "case-mix")
        }
        5 => {
            // keep the human readable part, random data part
            let cut = s.find('1').map(|i| i + 1).unwrap_or(0);
            let mut out: String = s[..cut].to_string();
            let n = rng.usize_below(120);
            for _ in 0..n {
                out.push(*rng.pick(&"qpzry9x8gf2tvdw0s3jn54khce6mua7l".chars().collect::<Vec<_>>()));
            }
            (out, "random-data-part")
        }
        _ => {
            let n = rng.usize_below(80);
            let t: String = (0..n).map(|_| (rng.range(0x20, 0x7e) as u8) as char).collect();
            (t, "random-text")
        }
    }
}

// ---------------------------------------------------------------------------------------
// nesting bombs (child process)
// ---------------------------------------------------------------------------------------

const DEPTH: usize = 1_000_000;

fn addr29() -> Node {
    let mut a = vec![0x61u8];
    a.extend_from_slice(&[0x11; 28]);
    Node::bytes(&a)
}
fn plutus_bomb(depth: usize) -> Vec<u8> {
    cbor::nesting_bomb(2, depth) // #6.121([ #6.121([ ... 0 ]) ])
}
fn native_script_bomb(depth: usize) -> Vec<u8> {
    // [1, [ [1, [ ... [0, keyhash] ... ]] ]]
    let mut v = Vec::with_capacity(depth * 3 + 40);
    for _ in 0..depth {
        v.extend_from_slice(&[0x82, 0x01, 0x81]);
    }
    v.extend_from_slice(&[0x82, 0x00, 0x58, 0x1c]);
    v.extend_from_slice(&[0x22; 28]);
    v
}
fn tx_with(body_outputs: Vec<Node>, wits: Vec<(Node, Node)>, aux: Node) -> Vec<u8> {
    let body = Node::map(vec![(Node::u(0), Node::arr(vec![])), (Node::u(1), Node::arr(body_outputs)), (Node::u(2), Node::u(0))]);
    Node::arr(vec![body, Node::map(wits), Node::Bool(true), aux]).to_vec()
}
fn output_with_datum(datum: &[u8]) -> Node {
    Node::map(vec![(Node::u(0), addr29()), (Node::u(1), Node::u(0)), (Node::u(2), Node::arr(vec![Node::u(1), Node::tag(24, Node::bytes(datum))]))])
}
fn output_with_script(script: &[u8]) -> Node {
    let sref = Node::arr(vec![Node::u(0), Node::raw(script)]).to_vec();
    Node::map(vec![(Node::u(0), addr29()), (Node::u(1), Node::u(0)), (Node::u(3), Node::tag(24, Node::bytes(&sref)))])
}
fn reject_tx_with_output(out: Node) -> Vec<u8> {
    // [2, [[6, [ [1, [0, [9, [out]]]] ]]]] = RejectTx(Shelley{Conway, [UtxowFailure(UtxoFailure(OutputTooSmallUTxO([out])))]})
    let f = Node::arr(vec![Node::u(1), Node::arr(vec![Node::u(0), Node::arr(vec![Node::u(9), Node::arr(vec![out])])])]);
    Node::arr(vec![Node::u(2), Node::arr(vec![Node::arr(vec![Node::u(6), Node::arr(vec![f])])])]).to_vec()
}

/// (construct label, entry names, builder(depth))
fn bomb_constructs() -> Vec<(&'static str, Vec<&'static str>, fn(usize) -> Vec<u8>)> {
    let tx_entries = vec!["MultiEraTx::decode", "MultiEraTx::decode_for_era(Conway)", "MultiEraTx::decode_for_era(Babbage)", "MultiEraTx::decode_for_era(Alonzo)"];
    let out_entries = vec!["MultiEraOutput::decode(Conway)", "MultiEraOutput::decode(Babbage)"];
    vec![
        ("tx:aux-metadatum-nested-arrays", tx_entries.clone(), |d| tx_with(vec![], vec![], Node::map(vec![(Node::u(0), Node::raw(&cbor::nesting_bomb(0, d)))]))),
        ("tx:aux-metadatum-nested-maps", tx_entries.clone(), |d| tx_with(vec![], vec![], Node::map(vec![(Node::u(0), Node::raw(&cbor::nesting_bomb(3, d)))]))),
        ("tx:witness-plutus-data-nested-constr", tx_entries.clone(), |d| tx_with(vec![], vec![(Node::u(4), Node::arr(vec![Node::raw(&plutus_bomb(d))]))], Node::Null)),
        ("tx:witness-plutus-data-nested-arrays", tx_entries.clone(), |d| tx_with(vec![], vec![(Node::u(4), Node::arr(vec![Node::raw(&cbor::nesting_bomb(0, d))]))], Node::Null)),
        ("tx:witness-plutus-data-nested-indef-arrays", tx_entries.clone(), |d| tx_with(vec![], vec![(Node::u(4), Node::arr(vec![Node::raw(&cbor::nesting_bomb(1, d))]))], Node::Null)),
        ("tx:witness-native-script-nested", tx_entries.clone(), |d| tx_with(vec![], vec![(Node::u(1), Node::arr(vec![Node::raw(&native_script_bomb(d))]))], Node::Null)),
        ("tx:redeemer-data-nested-constr", tx_entries.clone(), |d| {
            tx_with(vec![], vec![(Node::u(5), Node::arr(vec![Node::arr(vec![Node::u(0), Node::u(0), Node::raw(&plutus_bomb(d)), Node::arr(vec![Node::u(0), Node::u(0)])])]))], Node::Null)
        }),
        ("tx:output-inline-datum-nested-constr", tx_entries[..3].to_vec(), |d| tx_with(vec![output_with_datum(&plutus_bomb(d))], vec![], Node::Null)),
        ("tx:output-script-ref-native-script-nested", tx_entries[..3].to_vec(), |d| tx_with(vec![output_with_script(&native_script_bomb(d))], vec![], Node::Null)),
        ("output:inline-datum-nested-constr", out_entries.clone(), |d| output_with_datum(&plutus_bomb(d)).to_vec()),
        ("output:script-ref-native-script-nested", out_entries.clone(), |d| output_with_script(&native_script_bomb(d)).to_vec()),
        ("bare:nested-arrays", vec!["MultiEraBlock::decode", "MultiEraTx::decode", "n1:localstate", "n2:leiosnotify", "Address::from_bytes", "ByronAddress::from_bytes"], |d| cbor::nesting_bomb(0, d)),
        ("bare:nested-tags", vec!["MultiEraBlock::decode", "MultiEraTx::decode", "n1:chainsync-n2c", "ByronAddress::from_bytes"], |d| cbor::nesting_bomb(4, d)),
        ("net:localstate-query-anycbor-nested-arrays", vec!["n1:localstate"], |d| Node::arr(vec![Node::u(3), Node::raw(&cbor::nesting_bomb(0, d))]).to_vec()),
        ("net:localstate-result-anycbor-nested-indef-arrays", vec!["n1:localstate"], |d| Node::arr(vec![Node::u(4), Node::raw(&cbor::nesting_bomb(1, d))]).to_vec()),
        ("net:leiosnotify-announcement-nested-maps", vec!["n2:leiosnotify"], |d| Node::arr(vec![Node::u(1), Node::raw(&cbor::nesting_bomb(3, d))]).to_vec()),
        ("net:leiosfetch-block-nested-tags", vec!["n2:leiosfetch"], |d| Node::arr(vec![Node::u(1), Node::raw(&cbor::nesting_bomb(4, d))]).to_vec()),
        ("net:request-getcbor-nested", vec!["n1:q:Request"], |d| {
            // [0, [0, [era, [9, [9, ... [0]]]]]]
            let mut q = Vec::with_capacity(d * 2 + 2);
            for _ in 0..d {
                q.extend_from_slice(&[0x82, 0x09]);
            }
            q.extend_from_slice(&[0x81, 0x00]);
            let r = Node::arr(vec![Node::u(0), Node::arr(vec![Node::u(0), Node::arr(vec![Node::u(6), Node::raw(&q)])])]).to_vec();
            r
        }),
        ("net:rejecttx-output-inline-datum-nested-constr", vec!["n1:localtxsubmission"], |d| reject_tx_with_output(output_with_datum(&plutus_bomb(d)))),
        ("net:rejecttx-output-script-ref-native-script-nested", vec!["n1:localtxsubmission"], |d| reject_tx_with_output(output_with_script(&native_script_bomb(d)))),
        ("net:utxo-result-inline-datum-nested-constr", vec!["n1:q:(UTxOByAddress,)"], |d| {
            let k = Node::arr(vec![Node::bytes(&[0x33; 32]), Node::u(0)]);
            Node::arr(vec![Node::map(vec![(k, output_with_datum(&plutus_bomb(d)))])]).to_vec()
        }),
    ]
}

/// which recursive decoder a construct drives (the defect a crash on it points at)
fn recursive_decoder(construct: &str) -> &'static str {
    match construct {
        c if c.starts_with("tx:aux-metadatum") => "pallas-primitives:Metadatum",
        c if c.starts_with("tx:witness-plutus-data") || c.starts_with("tx:redeemer-data") || c.ends_with("output-inline-datum-nested-constr") && !c.starts_with("net:") || c == "output:inline-datum-nested-constr" => {
            "pallas-primitives:PlutusData"
        }
        c if (c.starts_with("tx:") || c.starts_with("output:")) && c.contains("native-script") => "pallas-primitives:NativeScript",
        "net:request-getcbor-nested" => "pallas-network:BlockQuery::GetCBOR",
        c if c.starts_with("net:") && c.contains("inline-datum") => "pallas-network:queries_v16::PlutusData",
        c if c.starts_with("net:") && c.contains("native-script") => "pallas-network:localtxsubmission::NativeScript",
        c if c.starts_with("net:") => "pallas-codec:AnyCbor",
        _ => "generic-nesting",
    }
}

fn child_main(args: &[String]) -> ! {
    // c09 --child <entry> <file>
    pv::panics::install();
    let name = &args[2];
    let input = std::fs::read(&args[3]).expect("input file");
    let es = entries();
    let e = es.iter().find(|e| e.name == name).expect("entry");
    match pv::panics::catch(|| (e.f)(&input)) {
        Ok(r) => println!("{}", if r.ok { "OK" } else { "ERR" }),
        Err(p) => println!("PANIC {}", site_ext(&p)),
    }
    std::process::exit(0)
}

fn children_cpu_s() -> f64 {
    unsafe {
        let mut ru: libc::rusage = std::mem::zeroed();
        libc::getrusage(libc::RUSAGE_CHILDREN, &mut ru);
        ru.ru_utime.tv_sec as f64 + ru.ru_utime.tv_usec as f64 / 1e6 + ru.ru_stime.tv_sec as f64 + ru.ru_stime.tv_usec as f64 / 1e6
    }
}

fn run_bomb(ctx: &mut Ctx, es: &[Entry], construct: &str, entry: &str, input: &[u8]) {
    let e = es.iter().find(|e| e.name == entry).expect("entry");
    let path = ctx.out.join(format!("bomb-{}-{}.bin", ctx.shard, std::process::id()));
    if std::fs::write(&path, input).is_err() {
        ctx.inconclusive("could not write a bomb input file");
        return;
    }
    let exe = std::env::current_exe().unwrap();
    let cpu0 = children_cpu_s();
    let out = std::process::Command::new(exe).arg("--child").arg(e.name).arg(&path).output();
    let cpu = children_cpu_s() - cpu0;
    let _ = std::fs::remove_file(&path);
    ctx.eval();
    ctx.count("nesting_bomb_cases");
    ctx.set_insert("nesting_bomb_constructs", construct);
    ctx.nontrivial(fp_mix(fp(construct.as_bytes()), fp(entry.as_bytes())));
    let Ok(out) = out else {
        ctx.inconclusive("could not spawn the bomb child process");
        return;
    };
    let stdout = String::from_utf8_lossy(&out.stdout).to_string();
    let stderr = String::from_utf8_lossy(&out.stderr).to_string();
    use std::os::unix::process::ExitStatusExt;
    if let Some(sig) = out.status.signal() {
        let kind = if stderr.contains("overflowed its stack") || stderr.contains("stack overflow") { "stack-overflow".to_string() } else if stderr.contains("memory allocation") { "alloc-abort".to_string() } else { format!("signal-{sig}") };
        ctx.count("bomb_child_crashes");
        ctx.violation(
            &format!("crash:{kind}:{}", recursive_decoder(construct)),
            &format!("{entry} kills the process ({kind}, signal {sig}) on {construct} nested {DEPTH} deep ({} bytes, starts {}): {}", input.len(), hex_short(&input[..input.len().min(48)]), stderr.trim().replace('\n', " | ").chars().take(200).collect::<String>()),
            json!({"entry": entry, "bomb": construct, "depth": DEPTH}),
        );
    } else if let Some(rest) = stdout.trim().strip_prefix("PANIC ") {
        ctx.count("panics_seen");
        ctx.violation(&format!("panic:{rest}"), &format!("{entry} panicked on {construct} nested {DEPTH} deep: {rest}"), json!({"entry": entry, "bomb": construct, "depth": DEPTH}));
    } else if !out.status.success() {
        ctx.inconclusive(&format!("bomb child for {entry}/{construct} exited with {:?}: {}", out.status.code(), stderr.chars().take(200).collect::<String>()));
    } else {
        ctx.count(if stdout.trim() == "OK" { "bomb_decoded_ok" } else { "bomb_rejected_with_error" });
    }
    if cpu > 20.0 {
        ctx.violation(&format!("hang:{}", recursive_decoder(construct)), &format!("{entry} used {cpu:.1} s CPU on {construct} nested {DEPTH} deep"), json!({"entry": entry, "bomb": construct, "depth": DEPTH}));
    }
}

fn main() {
    let args: Vec<String> = std::env::args().collect();
    if args.len() >= 4 && args[1] == "--child" {
        child_main(&args);
    }
    let mut ctx = Ctx::from_args("C09");
    let es = entries();
    if let Some(p) = ctx.replay.clone() {
        let v: serde_json::Value = serde_json::from_slice(&std::fs::read(p).unwrap()).unwrap();
        let r = &v["replay"];
        let name = r["entry"].as_str().unwrap();
        let e = es.iter().find(|e| e.name == name).expect("entry");
        if let Some(b) = r.get("bomb").and_then(|x| x.as_str()) {
            let cs = bomb_constructs();
            let c = cs.iter().find(|c| c.0 == b).expect("construct");
            let input = (c.2)(DEPTH);
            run_bomb(&mut ctx, &es, b, name, &input);
        } else {
            let input = match r.get("text").and_then(|x| x.as_str()) {
                Some(t) => t.as_bytes().to_vec(),
                None => hex::decode(r["input"].as_str().unwrap()).unwrap(),
            };
            open_case(&mut ctx, e.name, "replay", "replay file", &input, 1);
            run_case(&mut ctx, e, &input, "replay", "replay file");
            ctx.end_case();
        }
        println!("replayed: violations={}", ctx.n_violations());
        ctx.finish();
    }
    let mut rng = ctx.rng.clone();
    let corpus = build_corpus(&mut ctx, &mut rng);
    let ledger_entries: Vec<&Entry> = es.iter().filter(|e| e.fam == Fam::Ledger).collect();
    let addrb_entries: Vec<&Entry> = es.iter().filter(|e| e.fam == Fam::AddrBytes).collect();
    let addrt_entries: Vec<&Entry> = es.iter().filter(|e| e.fam == Fam::AddrText).collect();
    let net_entries: Vec<&Entry> = es.iter().filter(|e| e.fam == Fam::Net).collect();

    if std::env::var("PV_DEBUG").is_ok() {
        eprintln!("t={:.1}s evals={} next: unmutated artefacts", ctx.elapsed_s(), ctx.evaluations);
    }
    // ---- unmutated artefacts: every entry of the family once (sharded) ---------------------
    for (i, (name, b)) in corpus.ledger.iter().enumerate() {
        if !ctx.owns(i as u64) {
            continue;
        }
        open_case(&mut ctx, "ledger", "unmutated", name, b, ledger_entries.len() as u64);
        for e in &ledger_entries {
            run_case(&mut ctx, e, b, "unmutated", name);
        }
        ctx.end_case();
    }

    if std::env::var("PV_DEBUG").is_ok() {
        eprintln!("t={:.1}s evals={} next: ledger mutations", ctx.elapsed_s(), ctx.evaluations);
    }
    // ---- ledger mutations ----------------------------------------------------------------------
    let n_ledger = ctx.budget(160_000, 2_400_000);
    let others: Vec<&[u8]> = corpus.ledger.iter().filter(|(_, b)| b.len() < 4000).map(|(_, b)| b.as_slice()).collect();
    for _ in 0..n_ledger {
        let (name, src) = &corpus.ledger[rng.usize_below(corpus.ledger.len())];
        // big blocks less often (mutation + decode cost)
        if src.len() > 20_000 && !rng.chance(1, 6) {
            continue;
        }
        let (mut input, kind) = cbor::mutate(src, &others, &mut rng);
        if rng.chance(1, 5) {
            let (i2, _) = cbor::mutate(&input, &others, &mut rng);
            input = i2;
        }
        // the natural entry points of the artefact plus a few foreign ones
        let k = 3 + rng.usize_below(3);
        open_case(&mut ctx, "ledger", kind, name, &input, k as u64 + 1);
        for _ in 0..k {
            let e = ledger_entries[rng.usize_below(ledger_entries.len())];
            run_case(&mut ctx, e, &input, kind, name);
        }
        if name.ends_with(".block") || name.contains(".chunk#") && !name.contains("#tx") && !name.contains("#header") && !name.contains("out") {
            run_case(&mut ctx, ledger_entries[0], &input, kind, name);
        } else if name.contains("tx") && !name.contains("out") {
            run_case(&mut ctx, ledger_entries[1], &input, kind, name);
        }
        ctx.end_case();
        ctx.count(&format!("mutation:{kind}"));
    }

    if std::env::var("PV_DEBUG").is_ok() {
        eprintln!("t={:.1}s evals={} next: addresses", ctx.elapsed_s(), ctx.evaluations);
    }
    // ---- addresses -----------------------------------------------------------------------------
    let n_addr = ctx.budget(48_000, 800_000);
    let aothers: Vec<&[u8]> = corpus.addr_bytes.iter().map(|b| b.as_slice()).collect();
    for i in 0..n_addr {
        if corpus.addr_bytes.is_empty() {
            break;
        }
        if i % 2 == 0 {
            let src = &corpus.addr_bytes[rng.usize_below(corpus.addr_bytes.len())];
            let (input, kind) = if rng.chance(1, 8) { (src.clone(), "unmutated") } else { cbor::mutate(src, &aothers, &mut rng) };
            open_case(&mut ctx, "address-bytes", kind, "address bytes from the corpus", &input, 2);
            for e in &addrb_entries {
                run_case(&mut ctx, e, &input, kind, "address bytes from the corpus");
            }
            ctx.end_case();
            // header-byte sweep: every address type nibble with the payload kept
            if rng.chance(1, 10) && !src.is_empty() {
                let mut v = src.clone();
                v[0] = rng.next_u8();
                let cut = rng.usize_below(v.len() + 1);
                v.truncate(cut.max(1));
                open_case(&mut ctx, "address-bytes", "header-byte+length", "address bytes from the corpus", &v, 2);
                for e in &addrb_entries {
                    run_case(&mut ctx, e, &v, "header-byte+length", "address bytes from the corpus");
                }
                ctx.end_case();
            }
        } else if !corpus.addr_text.is_empty() {
            let src = &corpus.addr_text[rng.usize_below(corpus.addr_text.len())];
            let (t, kind) = if rng.chance(1, 8) { (src.clone(), "unmutated") } else { mutate_text(src, &mut rng) };
            open_case(&mut ctx, "address-text", kind, "address text from the corpus", t.as_bytes(), 4);
            for e in &addrt_entries {
                run_case(&mut ctx, e, t.as_bytes(), kind, "address text from the corpus");
            }
            ctx.end_case();
        }
    }

    if std::env::var("PV_DEBUG").is_ok() {
        eprintln!("t={:.1}s evals={} next: network messages", ctx.elapsed_s(), ctx.evaluations);
    }
    // ---- network messages ----------------------------------------------------------------------
    let n_net = ctx.budget(240_000, 3_600_000);
    let nothers: Vec<&[u8]> = corpus.net.iter().filter(|(_, b)| b.len() < 3000).map(|(_, b)| b.as_slice()).collect();
    for _ in 0..n_net {
        let (ename, src) = &corpus.net[rng.usize_below(corpus.net.len())];
        let (mut input, kind) = if rng.chance(1, 25) { (src.clone(), "unmutated") } else { cbor::mutate(src, &nothers, &mut rng) };
        if rng.chance(1, 4) {
            let (i2, _) = cbor::mutate(&input, &nothers, &mut rng);
            input = i2;
        }
        open_case(&mut ctx, "network", kind, ename, &input, 3);
        if let Some(e) = net_entries.iter().find(|e| e.name == *ename) {
            run_case(&mut ctx, e, &input, kind, ename);
        }
        for _ in 0..2 {
            let e = net_entries[rng.usize_below(net_entries.len())];
            run_case(&mut ctx, e, &input, kind, ename);
        }
        ctx.end_case();
        ctx.count(&format!("mutation:{kind}"));
    }
    if std::env::var("PV_DEBUG").is_ok() {
        eprintln!("t={:.1}s evals={} next: random bytes into everything", ctx.elapsed_s(), ctx.evaluations);
    }
    // random bytes into everything (cheap sanity class)
    let n_rand = ctx.budget(32_000, 320_000);
    for _ in 0..n_rand {
        let n = rng.usize_below(64);
        let input = rng.bytes(n);
        let e = &es[rng.usize_below(es.len())];
        open_case(&mut ctx, e.name, "random-bytes", "prng", &input, 1);
        run_case(&mut ctx, e, &input, "random-bytes", "prng");
        ctx.end_case();
    }

    // long valid UTF-8 text (multi-byte characters at every alignment) into everything: several
    // decoders fall back to "free-form text" or parse textual forms (bech32 / base58 / hex)
    let n_text = ctx.budget(16_000, 160_000);
    for _ in 0..n_text {
        let mut s = String::new();
        for _ in 0..rng.usize_below(5) {
            s.push((b'a' + rng.below(26) as u8) as char);
        }
        let target = *rng.pick(&[20usize, 200, 1000, 1030, 2050, 4100, 9000]) + rng.usize_below(40);
        let ch = *rng.pick(&['é', '€', '😀', 'ß', '日', 'a']);
        while s.len() < target {
            s.push(if rng.chance(1, 30) { (b'a' + rng.below(26) as u8) as char } else { ch });
        }
        let input = s.into_bytes();
        let e = &es[rng.usize_below(es.len())];
        open_case(&mut ctx, e.name, "utf8-text", "prng", &input, 1);
        run_case(&mut ctx, e, &input, "utf8-text", "prng");
        ctx.end_case();
    }

    if std::env::var("PV_DEBUG").is_ok() {
        eprintln!("t={:.1}s evals={} next: nesting bombs", ctx.elapsed_s(), ctx.evaluations);
    }
    // ---- nesting bombs (child processes; deterministic list, sharded) --------------------------
    let mut idx = 0u64;
    for (construct, names, build) in bomb_constructs() {
        // the shallow template must reach the decoder (decode Ok) for the targeted constructs
        let shallow = build(3);
        let mut input: Option<Vec<u8>> = None;
        for entry in names {
            idx += 1;
            if !ctx.owns(idx) {
                continue;
            }
            let e = es.iter().find(|e| e.name == entry).expect("entry");
            if !construct.starts_with("bare:") {
                match pv::panics::catch(|| (e.f)(&shallow)) {
                    Ok(r) if r.ok => ctx.count("bomb_templates_decode_ok_when_shallow"),
                    Ok(_) => {
                        ctx.count("bomb_templates_rejected_when_shallow");
                        ctx.set_insert("bomb_templates_rejected_when_shallow", &format!("{entry}:{construct}"));
                    }
                    Err(p) => ctx.violation(&format!("panic:{}", site_ext(&p)), &format!("{entry} panicked on shallow {construct}"), json!({"entry": entry, "input": hexs(&shallow)})),
                }
            }
            let inp = input.get_or_insert_with(|| build(DEPTH));
            run_bomb(&mut ctx, &es, construct, entry, inp);
        }
    }
    if std::env::var("PV_DEBUG").is_ok() {
        eprintln!("t={:.1}s evals={} done", ctx.elapsed_s(), ctx.evaluations);
    }
    ctx.finish();
}
