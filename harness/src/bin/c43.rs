//! C43 — immutable-DB readers report corrupted files as errors (or fewer blocks), never a panic.
//!
//! Oracle: panic / crash watch. Every case (a database with one damaged chunk) runs in a forked
//! child process: panics are caught per entry point (`panics::catch`), anything `catch_unwind`
//! cannot see (allocation-failure abort, stack overflow, CPU-time limit) is read from the child's
//! wait status. All reader entry points are exercised on every case:
//!   primary::Reader (next / next_occupied), secondary::read_entries, chunk::read_blocks,
//!   immutable::read_blocks, read_blocks_from_point (exact / fuzzy / Origin), get_tip.
//! Any outcome other than panic / crash / hang is accepted (errors, fewer blocks, other blocks).
use pallas_hardano::storage::immutable::{self as imm, chunk, primary, secondary, Point};
use pv::immdb::{self, Blk};
use pv::*;
use std::io::{Read, Write};
use std::os::unix::io::FromRawFd;
use std::path::{Path, PathBuf};

// ------------------------------------------------------------------------------------------
// faults
// ------------------------------------------------------------------------------------------

#[derive(Clone, Copy, Debug, PartialEq, Eq)]
enum F {
    Primary,
    Secondary,
    Chunk,
}
impl F {
    fn ext(self) -> &'static str {
        match self {
            F::Primary => "primary",
            F::Secondary => "secondary",
            F::Chunk => "chunk",
        }
    }
    fn from(s: &str) -> F {
        match s {
            "primary" => F::Primary,
            "secondary" => F::Secondary,
            _ => F::Chunk,
        }
    }
    fn idx(self) -> usize {
        self as usize
    }
}

#[derive(Clone, Debug)]
enum Fault {
    Truncate(F, usize),
    /// primary: offset number idx := val
    SetU32(usize, u32),
    /// secondary: block_offset of entry := val
    SetU64(usize, u64),
    SetByte(F, usize, u8),
    Append(F, Vec<u8>),
}

impl Fault {
    fn file(&self) -> F {
        match self {
            Fault::Truncate(f, _) | Fault::SetByte(f, _, _) | Fault::Append(f, _) => *f,
            Fault::SetU32(..) => F::Primary,
            Fault::SetU64(..) => F::Secondary,
        }
    }
    fn apply(&self, b: &mut Vec<u8>) {
        match self {
            Fault::Truncate(_, n) => b.truncate(*n),
            Fault::SetU32(i, v) => {
                let p = 1 + 4 * i;
                if p + 4 <= b.len() {
                    b[p..p + 4].copy_from_slice(&v.to_be_bytes());
                }
            }
            Fault::SetU64(i, v) => {
                let p = immdb::ENTRY * i;
                if p + 8 <= b.len() {
                    b[p..p + 8].copy_from_slice(&v.to_be_bytes());
                }
            }
            Fault::SetByte(_, p, v) => {
                if *p < b.len() {
                    b[*p] = *v;
                }
            }
            Fault::Append(_, x) => b.extend_from_slice(x),
        }
    }
    fn to_json(&self) -> serde_json::Value {
        match self {
            Fault::Truncate(f, n) => json!({"k": "truncate", "file": f.ext(), "len": n}),
            Fault::SetU32(i, v) => json!({"k": "set_primary_offset", "idx": i, "val": v}),
            Fault::SetU64(i, v) => json!({"k": "set_block_offset", "entry": i, "val": v.to_string()}),
            Fault::SetByte(f, p, v) => json!({"k": "set_byte", "file": f.ext(), "pos": p, "val": v}),
            Fault::Append(f, x) => json!({"k": "append", "file": f.ext(), "bytes": hexs(x)}),
        }
    }
    fn from_json(v: &serde_json::Value) -> Fault {
        let f = F::from(v["file"].as_str().unwrap_or(""));
        match v["k"].as_str().unwrap() {
            "truncate" => Fault::Truncate(f, v["len"].as_u64().unwrap() as usize),
            "set_primary_offset" => Fault::SetU32(v["idx"].as_u64().unwrap() as usize, v["val"].as_u64().unwrap() as u32),
            "set_block_offset" => Fault::SetU64(v["entry"].as_u64().unwrap() as usize, v["val"].as_str().unwrap().parse().unwrap()),
            "set_byte" => Fault::SetByte(f, v["pos"].as_u64().unwrap() as usize, v["val"].as_u64().unwrap() as u8),
            _ => Fault::Append(f, hex::decode(v["bytes"].as_str().unwrap()).unwrap()),
        }
    }
}

#[derive(Clone, Debug)]
struct Case {
    base: usize,
    with_w: bool,
    faults: Vec<Fault>,
    /// stable class label (no random payload)
    label: String,
}
impl Case {
    fn to_json(&self, bases: &[Base]) -> serde_json::Value {
        json!({"base": bases[self.base].name, "with_w": self.with_w, "label": self.label, "faults": self.faults.iter().map(|f| f.to_json()).collect::<Vec<_>>()})
    }
}

// ------------------------------------------------------------------------------------------
// bases
// ------------------------------------------------------------------------------------------

struct Base {
    name: &'static str,
    /// pristine bytes of the three files
    files: [Vec<u8>; 3],
    /// points derived from the intact database
    points: Vec<Point>,
    /// may be given an intact older chunk in front
    allow_w: bool,
    n_blocks: usize,
}

const X: &str = "00001";
const W: &str = "00000";
const T: &str = "00002";

struct Env {
    root: PathBuf,
    db: PathBuf,
    db_w: PathBuf,
    bases: Vec<Base>,
    /// pristine copies on disk (symlink targets): root/pristine/<base>.<ext>
    w_blocks: Vec<Blk>,
}

fn points_of(blocks: &[Blk]) -> Vec<Point> {
    let mut v = vec![];
    if blocks.is_empty() {
        return v;
    }
    let f = &blocks[0];
    let m = &blocks[blocks.len() / 2];
    let l = &blocks[blocks.len() - 1];
    v.push(Point::Specific(f.slot, f.hash.to_vec()));
    v.push(Point::Specific(m.slot, m.hash.to_vec()));
    v.push(Point::Specific(l.slot, l.hash.to_vec()));
    v.push(Point::Specific(m.slot.saturating_sub(1), vec![]));
    v.push(Point::Specific(l.slot + 1, vec![]));
    v.push(Point::Specific(0, vec![]));
    v.push(Point::Origin);
    v
}

fn setup(ctx: &Ctx, chunks: &[Vec<Blk>]) -> std::io::Result<Env> {
    // absolute: symlink targets are resolved relative to the link's directory
    let root = std::fs::canonicalize(&ctx.out).unwrap_or_else(|_| ctx.out.clone()).join(format!("c43-{}", ctx.shard));
    let _ = std::fs::remove_dir_all(&root);
    std::fs::create_dir_all(root.join("pristine"))?;
    let td = pv::corpus::test_data();
    let rd = |p: PathBuf| std::fs::read(p);
    let mut bases = vec![];
    // small: the 5 blocks of the shipped 02019.chunk with regenerated, consistent indexes
    {
        let refs: Vec<&Blk> = chunks[2].iter().collect();
        let base_slot = refs[0].slot - 14;
        let (p, s, c) = immdb::chunk_files(&refs, base_slot, false);
        bases.push(Base { name: "small", files: [p, s, c], points: points_of(&chunks[2]), allow_w: true, n_blocks: refs.len() });
    }
    // large: shipped 01285 (864 blocks, finalised primary index)
    bases.push(Base {
        name: "large",
        files: [rd(td.join("01285.primary"))?, rd(td.join("01285.secondary"))?, rd(td.join("01285.chunk"))?],
        points: {
            // 864 blocks are decoded per query: first / middle exact, fuzzy middle, fuzzy past the end
            let p = points_of(&chunks[0]);
            vec![p[0].clone(), p[1].clone(), p[3].clone(), p[4].clone()]
        },
        allow_w: false,
        n_blocks: chunks[0].len(),
    });
    // the two inconsistent databases that ship with the repository, as they are
    bases.push(Base {
        name: "shipped-02019",
        files: [rd(td.join("02019.primary"))?, rd(td.join("02019.secondary"))?, rd(td.join("02019.chunk"))?],
        points: points_of(&chunks[2]),
        allow_w: true,
        n_blocks: chunks[2].len(),
    });
    {
        let d = td.join("inconsistent_indexes");
        let sec = rd(d.join("10366.secondary"))?;
        let mut pts = vec![];
        for e in sec.chunks(immdb::ENTRY).filter(|e| e.len() == immdb::ENTRY).take(3) {
            pts.push(Point::Specific(u64::from_be_bytes(e[48..56].try_into().unwrap()), e[16..48].to_vec()));
        }
        pts.push(Point::Specific(0, vec![]));
        pts.push(Point::Specific(u64::MAX, vec![]));
        pts.push(Point::Origin);
        bases.push(Base { name: "shipped-inconsistent-10366", files: [rd(d.join("10366.primary"))?, sec, rd(d.join("10366.chunk"))?], points: pts, allow_w: true, n_blocks: 0 });
    }
    for b in &bases {
        for f in [F::Primary, F::Secondary, F::Chunk] {
            std::fs::write(root.join("pristine").join(format!("{}.{}", b.name, f.ext())), &b.files[f.idx()])?;
        }
    }
    // W: an intact older chunk (prefix of shipped 01836: 40 blocks), T: the empty newest chunk
    let w_blocks: Vec<Blk> = chunks[1][..40].to_vec();
    {
        let refs: Vec<&Blk> = w_blocks.iter().collect();
        let files = immdb::chunk_files(&refs, 1836 * immdb::CHUNK_SLOTS, false);
        for (i, f) in [F::Primary, F::Secondary, F::Chunk].iter().enumerate() {
            let data = [&files.0, &files.1, &files.2][i];
            std::fs::write(root.join("pristine").join(format!("W.{}", f.ext())), data)?;
        }
    }
    let db = root.join("db");
    let db_w = root.join("db-w");
    let env = Env { root, db, db_w, bases, w_blocks };
    env.prepare_dirs()?;
    Ok(env)
}

fn link_or_write(env: &Env, dir: &Path, name: &str, f: F, pristine: &str, data: Option<&[u8]>) -> std::io::Result<()> {
    let dst = dir.join(format!("{name}.{}", f.ext()));
    let _ = std::fs::remove_file(&dst);
    match data {
        Some(d) => std::fs::write(dst, d),
        None => std::os::unix::fs::symlink(env.root.join("pristine").join(format!("{pristine}.{}", f.ext())), dst),
    }
}

/// builds the database of a case; returns the damaged bytes of the three files of X
fn build_case(env: &Env, c: &Case) -> std::io::Result<[Option<Vec<u8>>; 3]> {
    let base = &env.bases[c.base];
    let mut out: [Option<Vec<u8>>; 3] = [None, None, None];
    for fl in &c.faults {
        let i = fl.file().idx();
        let mut cur = out[i].take().unwrap_or_else(|| base.files[i].clone());
        fl.apply(&mut cur);
        out[i] = Some(cur);
    }
    // the older chunk W and the empty newest chunk T stay in place; only X is replaced
    let dir = env.db_dir(c);
    for f in [F::Primary, F::Secondary, F::Chunk] {
        link_or_write(env, dir, X, f, base.name, out[f.idx()].as_deref())?;
    }
    Ok(out)
}

impl Env {
    fn db_dir(&self, c: &Case) -> &Path {
        if c.with_w {
            &self.db_w
        } else {
            &self.db
        }
    }
    fn prepare_dirs(&self) -> std::io::Result<()> {
        for (dir, with_w) in [(&self.db, false), (&self.db_w, true)] {
            std::fs::create_dir_all(dir)?;
            for f in [F::Primary, F::Secondary, F::Chunk] {
                // newest chunk: empty files
                std::fs::write(dir.join(format!("{T}.{}", f.ext())), if f == F::Primary { &[1u8, 0, 0, 0, 0][..] } else { &[][..] })?;
                if with_w {
                    link_or_write(self, dir, W, f, "W", None)?;
                }
            }
        }
        Ok(())
    }
}

// ------------------------------------------------------------------------------------------
// running the entry points (inside the forked child)
// ------------------------------------------------------------------------------------------

const ITEM_CAP: usize = 5_000_000;

/// returns (outcome class, items yielded)
fn drain<T, E: std::fmt::Display>(it: impl Iterator<Item = Result<T, E>>) -> (String, usize) {
    let mut n = 0usize;
    let mut errs = 0usize;
    for x in it {
        match x {
            Ok(_) => n += 1,
            Err(_) => errs += 1,
        }
        if n + errs > ITEM_CAP {
            return ("item-cap".into(), n);
        }
    }
    (if errs > 0 { "iter-error".into() } else { "ok".into() }, n)
}

fn entry_names(n_points: usize) -> Vec<String> {
    let mut v: Vec<String> = ["primary::Reader::next", "primary::Reader::next_occupied", "secondary::read_entries", "chunk::read_blocks", "read_blocks", "get_tip"].iter().map(|s| s.to_string()).collect();
    for i in 0..n_points {
        v.push(format!("read_blocks_from_point#{i}"));
    }
    v
}

fn run_entry(dir: &Path, entry: &str, points: &[Point]) -> Result<(String, usize), pv::panics::PanicInfo> {
    pv::panics::catch(|| -> (String, usize) {
        match entry {
            "primary::Reader::next" => match std::fs::File::open(dir.join(format!("{X}.primary"))) {
                Err(_) => ("open-error".into(), 0),
                Ok(f) => match primary::Reader::open(f) {
                    Err(_) => ("open-error".into(), 0),
                    Ok(r) => {
                        let _ = r.version();
                        drain(r)
                    }
                },
            },
            "primary::Reader::next_occupied" => match std::fs::File::open(dir.join(format!("{X}.primary"))) {
                Err(_) => ("open-error".into(), 0),
                Ok(f) => match primary::Reader::open(f) {
                    Err(_) => ("open-error".into(), 0),
                    Ok(mut r) => {
                        let mut n = 0usize;
                        let mut cls = "ok";
                        while let Some(e) = r.next_occupied() {
                            match e {
                                Ok(e) => {
                                    let _ = e.offset();
                                    n += 1;
                                }
                                Err(_) => cls = "iter-error",
                            }
                            if n > ITEM_CAP {
                                cls = "item-cap";
                                break;
                            }
                        }
                        (cls.into(), n)
                    }
                },
            },
            "secondary::read_entries" => match secondary::read_entries(dir, X) {
                Err(_) => ("open-error".into(), 0),
                Ok(r) => drain(r),
            },
            "chunk::read_blocks" => match chunk::read_blocks(dir, X) {
                Err(_) => ("open-error".into(), 0),
                Ok(r) => drain(r),
            },
            "read_blocks" => match imm::read_blocks(dir) {
                Err(_) => ("open-error".into(), 0),
                Ok(r) => drain(r),
            },
            "get_tip" => match imm::get_tip(dir) {
                Err(_) => ("error".into(), 0),
                Ok(None) => ("none".into(), 0),
                Ok(Some(_)) => ("ok".into(), 1),
            },
            e => {
                let i: usize = e.rsplit('#').next().unwrap().parse().unwrap();
                match imm::read_blocks_from_point(dir, points[i].clone()) {
                    Err(_) => ("open-error".into(), 0),
                    Ok(r) => drain(r),
                }
            }
        }
    })
}

struct EntryResult {
    entry: String,
    /// "ok" | "iter-error" | "open-error" | "error" | "none" | "item-cap" | "panic" | "crash:<kind>" | "hang"
    class: String,
    items: usize,
    site: String,
    msg: String,
}

/// Runs the entries `from..` in a forked child; returns results and, if the child died, the index
/// of the entry that was running.
fn fork_run(env: &Env, dir: &Path, entries: &[String], from: usize, points: &[Point], cpu_limit_s: u64) -> (Vec<EntryResult>, Option<(usize, String)>) {
    let errfile = env.root.join("child-stderr.txt");
    let mut fds = [0i32; 2];
    unsafe {
        if libc::pipe(fds.as_mut_ptr()) != 0 {
            return (vec![], Some((from, "harness:pipe".into())));
        }
    }
    let _ = std::io::stdout().flush();
    let pid = unsafe { libc::fork() };
    if pid < 0 {
        return (vec![], Some((from, "harness:fork".into())));
    }
    if pid == 0 {
        // ---- child
        unsafe {
            libc::close(fds[0]);
            let lim = libc::rlimit { rlim_cur: cpu_limit_s, rlim_max: cpu_limit_s + 2 };
            libc::setrlimit(libc::RLIMIT_CPU, &lim);
            let nocore = libc::rlimit { rlim_cur: 0, rlim_max: 0 };
            libc::setrlimit(libc::RLIMIT_CORE, &nocore);
            if let Ok(f) = std::fs::File::create(&errfile) {
                use std::os::unix::io::IntoRawFd;
                let fd = f.into_raw_fd();
                libc::dup2(fd, 2);
            }
        }
        let mut w = unsafe { std::fs::File::from_raw_fd(fds[1]) };
        for (i, e) in entries.iter().enumerate().skip(from) {
            let _ = writeln!(w, "B {i}");
            let line = match run_entry(dir, e, points) {
                Ok((cls, n)) => format!("R {i} {n} {cls}"),
                Err(p) => format!("P {i} {}\t{}", p.site(), p.msg.replace(['\n', '\t'], " ")),
            };
            let _ = writeln!(w, "{line}");
        }
        let _ = w.flush();
        unsafe { libc::_exit(0) }
    }
    // ---- parent
    unsafe { libc::close(fds[1]) };
    let mut r = unsafe { std::fs::File::from_raw_fd(fds[0]) };
    let mut buf = String::new();
    let _ = r.read_to_string(&mut buf);
    let mut status = 0i32;
    unsafe { libc::waitpid(pid, &mut status, 0) };
    let mut res = vec![];
    let mut running: Option<usize> = None;
    for line in buf.lines() {
        let mut it = line.splitn(3, ' ');
        let tag = it.next().unwrap_or("");
        let idx: usize = it.next().and_then(|s| s.parse().ok()).unwrap_or(0);
        let rest = it.next().unwrap_or("");
        match tag {
            "B" => running = Some(idx),
            "R" => {
                running = None;
                let (n, cls) = rest.split_once(' ').unwrap_or(("0", "?"));
                res.push(EntryResult { entry: entries[idx].clone(), class: cls.to_string(), items: n.parse().unwrap_or(0), site: String::new(), msg: String::new() });
            }
            "P" => {
                running = None;
                let (site, msg) = rest.split_once('\t').unwrap_or((rest, ""));
                res.push(EntryResult { entry: entries[idx].clone(), class: "panic".into(), items: 0, site: site.to_string(), msg: msg.to_string() });
            }
            _ => {}
        }
    }
    let exited_ok = libc::WIFEXITED(status) && libc::WEXITSTATUS(status) == 0;
    if exited_ok && running.is_none() {
        return (res, None);
    }
    let err = std::fs::read_to_string(&errfile).unwrap_or_default();
    let kind = if libc::WIFSIGNALED(status) {
        let sig = libc::WTERMSIG(status);
        if sig == libc::SIGXCPU || sig == libc::SIGKILL && err.is_empty() {
            "hang".to_string()
        } else if err.contains("stack overflow") || err.contains("has overflowed its stack") {
            "crash:stack-overflow".to_string()
        } else if err.contains("memory allocation of") {
            "crash:alloc-abort".to_string()
        } else {
            format!("crash:signal-{sig}")
        }
    } else {
        format!("crash:exit-{}", libc::WEXITSTATUS(status))
    };
    let tail: String = err.chars().rev().take(300).collect::<String>().chars().rev().collect();
    (res, Some((running.unwrap_or(from), format!("{kind}\t{}", tail.replace('\n', " | ")))))
}

/// Can any secondary entry that the (damaged) primary index points to carry a block offset in
/// [2^31, 2^63 + 2^40)? (delta = offset - position in the chunk file) Those are the values that turn into a huge-but-representable allocation request
/// (abort instead of panic); such cases run in a forked child.
fn is_risky(base: &Base, damaged: &[Option<Vec<u8>>; 3]) -> bool {
    let prim = damaged[0].as_ref().unwrap_or(&base.files[0]);
    let sec = damaged[1].as_ref().unwrap_or(&base.files[1]);
    let mut p = 1usize;
    while p + 4 <= prim.len() {
        let o = u32::from_be_bytes(prim[p..p + 4].try_into().unwrap()) as usize;
        if o + 8 <= sec.len() {
            let v = u64::from_be_bytes(sec[o..o + 8].try_into().unwrap());
            if (1u64 << 31..(1u64 << 63) + (1u64 << 40)).contains(&v) {
                return true;
            }
        }
        p += 4;
    }
    false
}

fn entry_group(e: &str) -> &str {
    e.split('#').next().unwrap()
}

fn run_case(ctx: &mut Ctx, env: &Env, c: &Case, verbose: bool) {
    let base = &env.bases[c.base];
    let mut points = base.points.clone();
    if c.with_w {
        let b = &env.w_blocks[0];
        points.push(Point::Specific(b.slot, b.hash.to_vec()));
        let m = &env.w_blocks[env.w_blocks.len() - 1];
        points.push(Point::Specific(m.slot, vec![]));
    }
    let damaged = match build_case(env, c) {
        Ok(d) => d,
        Err(e) => {
            ctx.inconclusive(&format!("cannot build scratch database: {e}"));
            return;
        }
    };
    let entries = entry_names(points.len());
    let replay = c.to_json(&env.bases);
    let risky = is_risky(base, &damaged) || std::env::var("PV_C43_FORK_ALL").is_ok();
    let mut all: Vec<EntryResult> = vec![];
    if !risky {
        // no block offset reachable through the primary index can make the reader ask for an
        // absurd allocation: run in-process (a crash is still witnessed by the driver)
        ctx.begin_case(&format!("{}\n{}", c.label, replay), 120);
        ctx.count("cases_in_process");
        for e in &entries {
            match run_entry(env.db_dir(c), e, &points) {
                Ok((cls, n)) => all.push(EntryResult { entry: e.clone(), class: cls, items: n, site: String::new(), msg: String::new() }),
                Err(p) => all.push(EntryResult { entry: e.clone(), class: "panic".into(), items: 0, site: p.site(), msg: p.msg.clone() }),
            }
        }
    } else {
        ctx.begin_case(&format!("{}\n{}", c.label, replay), 0);
        ctx.count("cases_forked");
        let mut from = 0usize;
        let mut guard = 0;
        while from < entries.len() && guard < entries.len() + 2 {
            guard += 1;
            let (res, died) = fork_run(env, env.db_dir(c), &entries, from, &points, 60);
            all.extend(res);
            match died {
                None => break,
                Some((idx, how)) => {
                    let (kind, tail) = how.split_once('\t').unwrap_or((&how, ""));
                    if kind.starts_with("harness:") {
                        ctx.inconclusive(&format!("{kind} failed"));
                        break;
                    }
                    all.push(EntryResult { entry: entries[idx].clone(), class: kind.to_string(), items: 0, site: String::new(), msg: tail.to_string() });
                    from = idx + 1;
                    // the same damaged offset kills every further query of the same kind: after two
                    // crashes of read_blocks_from_point the remaining points are not run
                    let g = entry_group(&entries[idx]).to_string();
                    let crashes = all.iter().filter(|r| r.class.starts_with("crash:") && entry_group(&r.entry) == g).count();
                    if crashes >= 2 {
                        while from < entries.len() && entry_group(&entries[from]) == g {
                            ctx.count("entries_skipped_after_repeated_crash");
                            from += 1;
                        }
                    }
                }
            }
        }
    }
    ctx.end_case();
    ctx.count("cases");
    ctx.count(&format!("cases_base_{}", base.name));
    // version byte still readable?
    let prim_len = damaged[0].as_ref().map(|d| d.len()).unwrap_or(base.files[0].len());
    let mut reached_iteration = false;
    for r in &all {
        ctx.eval();
        let g = entry_group(&r.entry);
        ctx.count(&format!("outcome:{}:{}", g, r.class.split(':').next().unwrap()));
        if verbose {
            println!("  {:<34} {:<12} items={} {} {}", r.entry, r.class, r.items, r.site, r.msg);
        }
        if r.class == "iter-error" || (r.class == "ok" && r.items > 0) {
            reached_iteration = true;
        }
        if r.class == "ok" && base.n_blocks > 0 && (g == "chunk::read_blocks") {
            if r.items < base.n_blocks {
                ctx.count("fewer_blocks_without_error");
            } else if r.items > base.n_blocks {
                ctx.count("more_items_than_intact");
            }
        }
        if r.class == "panic" {
            ctx.violation(&format!("panic:{}", r.site), &format!("{} panicked ({}) on a database with fault [{}]: {}", g, r.site, c.label, r.msg), replay.clone());
        } else if r.class.starts_with("crash:") {
            ctx.violation(&format!("{}:{}", r.class, g), &format!("process died ({}) inside {} on a database with fault [{}]: {}", r.class, g, c.label, r.msg), replay.clone());
        } else if r.class == "hang" {
            ctx.violation(&format!("hang:{}", g), &format!("{} exceeded 60 CPU-seconds on a database with fault [{}]", g, c.label), replay.clone());
        } else if r.class == "item-cap" {
            ctx.violation(&format!("unbounded-iteration:{}", g), &format!("{} yielded more than {ITEM_CAP} items on fault [{}]", g, c.label), replay.clone());
        }
    }
    if prim_len >= 1 && reached_iteration && !c.faults.is_empty() {
        ctx.nontrivial(fp(replay.to_string().as_bytes()));
    }
    ctx.set_insert("fault_classes", &c.label);
    if ctx.want_sample() && c.faults.len() == 1 && reached_iteration {
        ctx.sample(json!({"case": replay, "outcomes": all.iter().map(|r| format!("{}={}({})", r.entry, r.class, r.items)).collect::<Vec<_>>()}));
    }
}

// ------------------------------------------------------------------------------------------
// case generation (identical list in every shard; shards pick by index)
// ------------------------------------------------------------------------------------------

fn u32_value(rng: &mut Rng, bytes: &[u8], idx: usize, class: usize) -> (u32, &'static str) {
    let get = |i: usize| -> u32 {
        let p = 1 + 4 * i;
        if p + 4 <= bytes.len() {
            u32::from_be_bytes(bytes[p..p + 4].try_into().unwrap())
        } else {
            0
        }
    };
    let n = (bytes.len().saturating_sub(1)) / 4;
    let last = if n > 0 { get(n - 1) } else { 0 };
    let prev = if idx > 0 { get(idx - 1) } else { 0 };
    match class % 9 {
        0 => (0, "zero"),
        1 => (prev.saturating_sub(56), "below-predecessor"),
        2 => (prev.saturating_sub(1 + rng.below(55) as u32), "below-predecessor-unaligned"),
        3 => (last + 56 * (1 + rng.below(4) as u32), "past-eof"),
        4 => (last.saturating_add(1 + rng.below(1000) as u32), "past-eof-unaligned"),
        5 => (0xffff_ffff, "ffffffff"),
        6 => (get(idx) + 1 + rng.below(55) as u32, "unaligned"),
        7 => (0x8000_0000 | rng.next_u32(), "high-bit"),
        _ => (rng.next_u32(), "random"),
    }
}

fn u64_value(rng: &mut Rng, sec: &[u8], chunk_len: usize, entry: usize, class: usize) -> (u64, &'static str) {
    let get = |i: usize| -> u64 {
        let p = immdb::ENTRY * i;
        if p + 8 <= sec.len() {
            u64::from_be_bytes(sec[p..p + 8].try_into().unwrap())
        } else {
            0
        }
    };
    let prev = if entry > 0 { get(entry - 1) } else { 0 };
    let l = chunk_len as u64;
    match class % 16 {
        0 => (0, "zero"),
        1 => (prev.saturating_sub(1), "below-predecessor"),
        2 => (prev / 2, "below-predecessor"),
        3 => (prev, "equal-predecessor"),
        4 => (prev + 1, "predecessor+1"),
        5 => (l, "eof"),
        6 => (l + 1 + rng.below(100_000), "past-eof"),
        7 => (0xffff_ffff, "ffffffff"),
        8 => ((1u64 << 32) + rng.below(1 << 20), "huge"),
        9 => (1u64 << 40, "huge"),
        10 => (1u64 << 62, "huge"),
        11 => (i64::MAX as u64, "huge"),
        12 => (1u64 << 63, "ge-2^63"),
        13 => ((1u64 << 63) + 1 + rng.below(1 << 40), "ge-2^63"),
        14 => (u64::MAX, "ge-2^63"),
        _ => (rng.next_u64() >> rng.below(40), "random"),
    }
}

fn random_fault(rng: &mut Rng, b: &Base, bi: usize) -> (Fault, String) {
    let _ = bi;
    let n_off = (b.files[0].len().saturating_sub(1)) / 4;
    let n_ent = b.files[1].len() / immdb::ENTRY;
    match rng.below(10) {
        0 | 1 => {
            let f = *rng.pick(&[F::Primary, F::Secondary, F::Chunk]);
            let len = b.files[f.idx()].len();
            let n = match rng.below(4) {
                0 => rng.usize_below(len.min(64) + 1),
                1 => len - rng.usize_below(len.min(64) + 1),
                _ => rng.usize_below(len + 1),
            };
            (Fault::Truncate(f, n), format!("truncate-{}", f.ext()))
        }
        2 | 3 | 4 => {
            let idx = interesting_offset_index(rng, &b.files[0], n_off);
            let k = rng.usize_below(9);
            let (v, cls) = u32_value(rng, &b.files[0], idx, k);
            (Fault::SetU32(idx, v), format!("primary.offset={cls}"))
        }
        5 | 6 | 7 => {
            let e = if n_ent == 0 { 0 } else { rng.usize_below(n_ent) };
            let k = rng.usize_below(16);
            let (v, cls) = u64_value(rng, &b.files[1], b.files[2].len(), e, k);
            (Fault::SetU64(e, v), format!("secondary.block_offset={cls}"))
        }
        8 => {
            let f = *rng.pick(&[F::Primary, F::Secondary, F::Chunk]);
            let len = b.files[f.idx()].len().max(1);
            (Fault::SetByte(f, rng.usize_below(len), rng.next_u8()), format!("byte-{}", f.ext()))
        }
        _ => {
            let f = *rng.pick(&[F::Primary, F::Secondary, F::Chunk]);
            let n = 1 + rng.usize_below(80);
            (Fault::Append(f, rng.bytes(n)), format!("append-{}", f.ext()))
        }
    }
}

/// index of a primary offset, biased to the places where the offset value changes (occupied slots)
fn interesting_offset_index(rng: &mut Rng, prim: &[u8], n_off: usize) -> usize {
    if n_off == 0 {
        return 0;
    }
    if rng.chance(1, 4) {
        return rng.usize_below(n_off);
    }
    // walk from a random start to the next change
    let get = |i: usize| -> u32 { u32::from_be_bytes(prim[1 + 4 * i..5 + 4 * i].try_into().unwrap()) };
    let mut i = rng.usize_below(n_off);
    let start = i;
    while i + 1 < n_off && get(i + 1) == get(i) && i - start < 400 {
        i += 1;
    }
    (i + rng.usize_below(3)).saturating_sub(1).min(n_off - 1)
}

fn gen_cases(env: &Env, seed: u64, quick: bool, scale: f64) -> Vec<Case> {
    let mut cases: Vec<Case> = vec![];
    let mut rng = Rng::derive(seed, "C43-cases", 0);
    let sc = |q: usize, t: usize| -> usize { if quick { (q as f64 * scale.min(1.0)) as usize } else { (t as f64 * scale) as usize } };
    // 0. the pristine bases (two of them are inconsistent as shipped)
    for bi in 0..env.bases.len() {
        for w in [false, true] {
            if w && !env.bases[bi].allow_w {
                continue;
            }
            cases.push(Case { base: bi, with_w: w, faults: vec![], label: format!("{}:as-shipped", env.bases[bi].name) });
        }
    }
    // 1. small database: every truncation point of .primary and .secondary; .chunk: every point
    //    (thorough) or every 24th + around block boundaries (quick)
    {
        let b = &env.bases[0];
        for f in [F::Primary, F::Secondary] {
            for n in 0..b.files[f.idx()].len() {
                cases.push(Case { base: 0, with_w: n % 5 == 0, faults: vec![Fault::Truncate(f, n)], label: format!("small:truncate-{}", f.ext()) });
            }
        }
        let clen = b.files[2].len();
        let mut pos: Vec<usize> = if quick { (0..clen).step_by(24).collect() } else { (0..clen).collect() };
        // block boundaries from the secondary index
        for e in b.files[1].chunks(immdb::ENTRY) {
            let o = u64::from_be_bytes(e[0..8].try_into().unwrap()) as usize;
            for d in 0..5usize {
                pos.push((o + d).saturating_sub(2).min(clen));
            }
        }
        pos.sort();
        pos.dedup();
        for n in pos {
            cases.push(Case { base: 0, with_w: n % 7 == 0, faults: vec![Fault::Truncate(F::Chunk, n)], label: "small:truncate-chunk".into() });
        }
    }
    // 2. other bases: sampled truncation points, biased to entry boundaries
    for bi in 1..env.bases.len() {
        let b = &env.bases[bi];
        for f in [F::Primary, F::Secondary, F::Chunk] {
            let len = b.files[f.idx()].len();
            let n = if bi == 1 { sc(50, 1500) } else { sc(30, 400) };
            for _ in 0..n {
                let unit = match f {
                    F::Primary => 4,
                    F::Secondary => immdb::ENTRY,
                    F::Chunk => 1,
                };
                let at = match rng.below(4) {
                    0 => rng.usize_below(len + 1),
                    1 => rng.usize_below(len.min(200) + 1),
                    _ => {
                        let k = rng.usize_below(len / unit + 1) * unit + if f == F::Primary { 1 } else { 0 };
                        (k + rng.usize_below(3)).saturating_sub(1).min(len)
                    }
                };
                cases.push(Case { base: bi, with_w: b.allow_w && rng.chance(1, 4), faults: vec![Fault::Truncate(f, at)], label: format!("{}:truncate-{}", b.name, f.ext()) });
            }
        }
    }
    // 3. offsets overwritten. small: every secondary entry x every value class; primary: indexes
    //    around every change x every class
    {
        let b = &env.bases[0];
        let n_ent = b.files[1].len() / immdb::ENTRY;
        for e in 0..n_ent {
            for cls in 0..16 {
                let (v, name) = u64_value(&mut rng, &b.files[1], b.files[2].len(), e, cls);
                cases.push(Case { base: 0, with_w: cls % 4 == 0, faults: vec![Fault::SetU64(e, v)], label: format!("small:secondary.block_offset={name}") });
            }
        }
        let n_off = (b.files[0].len() - 1) / 4;
        let get = |i: usize| -> u32 { u32::from_be_bytes(b.files[0][1 + 4 * i..5 + 4 * i].try_into().unwrap()) };
        let mut idxs: Vec<usize> = vec![0, 1, 2, n_off - 3, n_off - 2, n_off - 1];
        for i in 1..n_off {
            if get(i) != get(i - 1) {
                idxs.extend([i - 1, i, (i + 1).min(n_off - 1)]);
            }
        }
        idxs.sort();
        idxs.dedup();
        for i in idxs {
            for cls in 0..9 {
                let (v, name) = u32_value(&mut rng, &b.files[0], i, cls);
                cases.push(Case { base: 0, with_w: cls % 4 == 1, faults: vec![Fault::SetU32(i, v)], label: format!("small:primary.offset={name}") });
            }
        }
    }
    for bi in 1..env.bases.len() {
        let b = &env.bases[bi];
        let n = if bi == 1 { sc(80, 4000) } else { sc(40, 600) };
        let n_off = (b.files[0].len().saturating_sub(1)) / 4;
        let n_ent = b.files[1].len() / immdb::ENTRY;
        for k in 0..n {
            if n_ent > 0 {
                let e = if k % 3 == 0 { k / 3 % n_ent.min(4) } else { rng.usize_below(n_ent) };
                let (v, name) = u64_value(&mut rng, &b.files[1], b.files[2].len(), e, k);
                cases.push(Case { base: bi, with_w: b.allow_w && rng.chance(1, 4), faults: vec![Fault::SetU64(e, v)], label: format!("{}:secondary.block_offset={name}", b.name) });
            }
            if n_off > 0 {
                let i = interesting_offset_index(&mut rng, &b.files[0], n_off);
                let (v, name) = u32_value(&mut rng, &b.files[0], i, k);
                cases.push(Case { base: bi, with_w: b.allow_w && rng.chance(1, 4), faults: vec![Fault::SetU32(i, v)], label: format!("{}:primary.offset={name}", b.name) });
            }
        }
    }
    // 4. random byte corruptions (index files: inside offset fields; chunk: anywhere)
    let n = sc(300, 15000);
    for _ in 0..n {
        let bi = if rng.chance(2, 3) { 0 } else { rng.usize_below(env.bases.len()) };
        let b = &env.bases[bi];
        let f = *rng.pick(&[F::Primary, F::Secondary, F::Secondary, F::Chunk]);
        let len = b.files[f.idx()].len();
        if len == 0 {
            continue;
        }
        let pos = match f {
            F::Secondary if rng.chance(3, 4) => (rng.usize_below(len / immdb::ENTRY + 1) * immdb::ENTRY + rng.usize_below(8)).min(len - 1),
            _ => rng.usize_below(len),
        };
        let val = match rng.below(4) {
            0 => 0,
            1 => 0xff,
            2 => b.files[f.idx()][pos] ^ (1 << rng.below(8)),
            _ => rng.next_u8(),
        };
        let fld = if f == F::Secondary && pos % immdb::ENTRY < 8 { "secondary.block_offset" } else if f == F::Primary && pos == 0 { "primary.version" } else { f.ext() };
        cases.push(Case { base: bi, with_w: b.allow_w && rng.chance(1, 4), faults: vec![Fault::SetByte(f, pos, val)], label: format!("{}:byte-{}", b.name, fld) });
    }
    // 5. garbage appended
    for bi in 0..env.bases.len() {
        for f in [F::Primary, F::Secondary, F::Chunk] {
            for _ in 0..sc(6, 200) {
                let n = 1 + rng.usize_below(120);
                cases.push(Case { base: bi, with_w: false, faults: vec![Fault::Append(f, rng.bytes(n))], label: format!("{}:append-{}", env.bases[bi].name, f.ext()) });
            }
        }
    }
    // 6. pairs of faults
    let n = sc(300, 20000);
    for _ in 0..n {
        let bi = if rng.chance(2, 3) { 0 } else { rng.usize_below(env.bases.len()) };
        let b = &env.bases[bi];
        let (f1, l1) = random_fault(&mut rng, b, bi);
        let (f2, l2) = random_fault(&mut rng, b, bi);
        let (la, lb) = if l1 <= l2 { (l1, l2) } else { (l2, l1) };
        cases.push(Case { base: bi, with_w: b.allow_w && rng.chance(1, 4), faults: vec![f1, f2], label: format!("{}:pair:{la}+{lb}", b.name) });
    }
    cases
}

fn main() {
    // the monitor takes its own backtraces; the runtime's (printed on abort paths) only cost time
    std::env::set_var("RUST_BACKTRACE", "0");
    let mut ctx = Ctx::from_args("C43");
    // an allocation failure is fatal whatever the hook does (the process aborts and the parent
    // reads the wait status): do not spend a symbolised backtrace on it in every child
    {
        let prev = std::panic::take_hook();
        std::panic::set_hook(Box::new(move |info| {
            let msg = info.payload().downcast_ref::<String>().map(|s| s.as_str()).or_else(|| info.payload().downcast_ref::<&str>().copied()).unwrap_or("");
            if msg.starts_with("memory allocation of") {
                eprintln!("{msg}");
                return;
            }
            prev(info)
        }));
    }
    let chunks = match immdb::load_chunks() {
        Ok(c) => c,
        Err(e) => {
            ctx.inconclusive(&format!("cannot split the shipped chunk files with the own walker: {e}"));
            ctx.finish();
        }
    };
    if let Err(e) = immdb::selftest(&chunks) {
        ctx.inconclusive(&format!("own index encoder is not pinned: {e}"));
        ctx.finish();
    }
    let env = match setup(&ctx, &chunks) {
        Ok(e) => e,
        Err(e) => {
            ctx.inconclusive(&format!("cannot set up scratch databases: {e}"));
            ctx.finish();
        }
    };
    if let Some(p) = ctx.replay.clone() {
        let v: serde_json::Value = serde_json::from_slice(&std::fs::read(p).unwrap()).unwrap();
        let r = &v["replay"];
        let bname = r["base"].as_str().unwrap();
        let base = env.bases.iter().position(|b| b.name == bname).expect("base");
        let c = Case { base, with_w: r["with_w"].as_bool().unwrap_or(false), faults: r["faults"].as_array().unwrap().iter().map(Fault::from_json).collect(), label: r["label"].as_str().unwrap_or("replay").to_string() };
        println!("replaying case {}", c.to_json(&env.bases));
        run_case(&mut ctx, &env, &c, true);
        println!("replayed: violations={}", ctx.n_violations());
        let _ = std::fs::remove_dir_all(&env.root);
        ctx.finish();
    }
    // sanity: the intact small database is read completely by every entry point
    {
        let c = Case { base: 0, with_w: true, faults: vec![], label: "small:intact".into() };
        if build_case(&env, &c).is_ok() {
            let n = imm::read_blocks(env.db_dir(&c)).map(|it| it.filter(|b| b.is_ok()).count()).unwrap_or(0);
            if n != env.w_blocks.len() + env.bases[0].n_blocks {
                ctx.inconclusive(&format!("intact scratch database yields {n} blocks, expected {}", env.w_blocks.len() + env.bases[0].n_blocks));
            }
        }
    }
    // load the debug info once in the parent so that forked children resolve panic sites cheaply
    let _ = pv::panics::catch(|| {
        let v: Vec<u8> = vec![];
        std::hint::black_box(&v)[std::hint::black_box(1)]
    });
    let cases = gen_cases(&env, ctx.seed, ctx.quick(), ctx.scale);
    ctx.note("cases_total", json!(cases.len()));
    for (i, c) in cases.iter().enumerate() {
        if !ctx.owns(i as u64) {
            continue;
        }
        run_case(&mut ctx, &env, c, false);
    }
    if ctx.scale >= 1.0 {
        ctx.note("small_index_truncations_exhaustive", json!(true));
    }
    let _ = std::fs::remove_dir_all(&env.root);
    ctx.finish();
}
