//! C38 — each implemented ledger rule rejects transactions that break only it.
//!
//! For every accepted re-keyed fixture and every rule of the property statement there is
//!   * one own predicate (`eval`), written from the era documents / ledger specification over the own
//!     CBOR view of the transaction, the harness UTxO table and the environment, and
//!   * one or more mutators that break the rule (and keep value balance, fees and signatures intact:
//!     balance is restored through the harness-owned UTxO entry of input 0, the fee is topped up and the
//!     transaction is re-signed).
//! A mutant counts as *applied* only when the predicate of the targeted rule, which held on the base,
//! is false on the mutant. `validate_tx` must then reject; an acceptance is `C38:<era>:<rule>:accepted`.
//! Mutators are applied alone and in random pairs. Rules of fee/size (C36), execution units (C37),
//! signatures (C35) and certificate state (C39) are not duplicated here.
use pallas_traverse::Era;
use pallas_validate::utils::MultiEraProtocolParameters as Mpp;
use pv::cbor::{self, Node};
use pv::fixmut::*;
use pv::fixtures::*;
use pv::*;
use std::collections::{BTreeMap, BTreeSet};

#[derive(Clone)]
struct World {
    tx: Vec<u8>,
    utxo: Vec<UtxoEntry>,
    env: EnvSpec,
}

// ---------------------------------------------------------------------------------------
// parameters (read only)
// ---------------------------------------------------------------------------------------

struct P {
    max_val_size: Option<u64>,
    coll_pct: Option<u64>,
    max_coll: Option<u64>,
    coins_per: u64,
    min_utxo: u64,
}

fn params(env: &EnvSpec) -> P {
    match &env.params {
        Mpp::Shelley(p) => P { max_val_size: None, coll_pct: None, max_coll: None, coins_per: 0, min_utxo: p.min_utxo_value },
        Mpp::Alonzo(p) => P { max_val_size: Some(p.max_value_size as u64), coll_pct: Some(p.collateral_percentage as u64), max_coll: Some(p.max_collateral_inputs as u64), coins_per: p.ada_per_utxo_byte, min_utxo: 0 },
        Mpp::Babbage(p) => P { max_val_size: Some(p.max_value_size as u64), coll_pct: Some(p.collateral_percentage as u64), max_coll: Some(p.max_collateral_inputs as u64), coins_per: p.ada_per_utxo_byte, min_utxo: 0 },
        Mpp::Conway(p) => P { max_val_size: Some(p.max_value_size as u64), coll_pct: Some(p.collateral_percentage as u64), max_coll: Some(p.max_collateral_inputs as u64), coins_per: p.ada_per_utxo_byte, min_utxo: 0 },
        _ => P { max_val_size: None, coll_pct: None, max_coll: None, coins_per: 0, min_utxo: 1 },
    }
}

// ---------------------------------------------------------------------------------------
// own predicates
// ---------------------------------------------------------------------------------------

const RULES: [&str; 20] = [
    "inputs-nonempty",
    "inputs-in-utxo",
    "collateral-in-utxo",
    "refinputs-in-utxo",
    "validity-interval",
    "min-ada",
    "value-size",
    "network-id-outputs",
    "network-id-body",
    "collateral-count",
    "collateral-kind",
    "collateral-amount",
    "collateral-annotation",
    "mint-policy-witness",
    "script-witness",
    "datum-witness",
    "redeemer-coverage",
    "aux-data-hash",
    "script-integrity-hash",
    "language-availability",
];

/// does the era's document (docs/*.md; Conway has none: the Babbage list, which its validator mirrors)
/// or the era validator claim the rule?
fn claimed_variant(era: Era, rule: &str, variant: &str) -> bool {
    // the Shelley-MA document speaks of the TTL only (no lower bound); whether the upper bound of the later eras is
    // inclusive is not said by the documents (the ledger specification makes it exclusive): both are listed, not counted
    if variant.starts_with("start>slot") && matches!(era, Era::Shelley | Era::Allegra | Era::Mary) {
        return false;
    }
    if variant.starts_with("ttl==slot") {
        return false;
    }
    claimed(era, rule)
}
fn claimed(era: Era, rule: &str) -> bool {
    match era {
        Era::Byron => matches!(rule, "inputs-nonempty" | "inputs-in-utxo" | "min-ada"),
        Era::Shelley | Era::Allegra | Era::Mary => matches!(rule, "inputs-nonempty" | "inputs-in-utxo" | "validity-interval" | "min-ada" | "network-id-outputs" | "aux-data-hash" | "script-witness" | "mint-policy-witness"),
        Era::Alonzo => !matches!(rule, "refinputs-in-utxo" | "collateral-annotation"),
        _ => true,
    }
}

fn umap(utxo: &[UtxoEntry]) -> BTreeMap<InRef, &Out> {
    let mut m = BTreeMap::new();
    for e in utxo {
        m.insert((e.tx_hash, e.index), &e.out);
    }
    m
}

fn addr_type(a: &[u8]) -> Option<u8> {
    a.first().map(|b| b >> 4)
}
/// Some(hash) when the payment credential of a Shelley-style address is a script
fn script_cred(a: &[u8]) -> Option<Vec<u8>> {
    let t = addr_type(a)?;
    if t <= 7 && t & 1 == 1 && a.len() >= 29 {
        Some(a[1..29].to_vec())
    } else {
        None
    }
}

fn script_hash(lang: u8, body: &[u8]) -> Vec<u8> {
    let mut pre = vec![lang];
    pre.extend_from_slice(body);
    refhash::blake2b_224(&pre).to_vec()
}

struct Scripts {
    /// hash -> language (0 native) of the scripts carried in the witness set
    wits: BTreeMap<Vec<u8>, u8>,
    /// scripts reachable through reference scripts of reference inputs and spent inputs
    refs: BTreeMap<Vec<u8>, u8>,
}

fn scripts_of(w: &World, v: &TxV) -> Scripts {
    let mut s = Scripts { wits: BTreeMap::new(), refs: BTreeMap::new() };
    let wn = wits_node(&w.tx);
    if let Some(list) = map_get(&wn, 1).and_then(elems) {
        for x in list {
            s.wits.insert(script_hash(0, &x.to_vec()), 0);
        }
    }
    for (key, lang) in [(3u64, 1u8), (6, 2), (7, 3)] {
        if let Some(list) = map_get(&wn, key).and_then(elems) {
            for x in list {
                if let Some(b) = node_bytes(x) {
                    s.wits.insert(script_hash(lang, &b), lang);
                }
            }
        }
    }
    let m = umap(&w.utxo);
    for r in v.reference_inputs.iter().flatten().chain(v.inputs.iter()) {
        if let Some(o) = m.get(r) {
            if let Some((lang, body)) = &o.script_ref {
                s.refs.insert(script_hash(*lang, body), *lang);
            }
        }
    }
    s
}

fn redeemer_ptrs(tx: &[u8]) -> Option<BTreeSet<(u64, u64)>> {
    let mut out = BTreeSet::new();
    match redeemers(tx) {
        None => {}
        Some(Node::Map(es, _)) | Some(Node::MapIndef(es)) => {
            for (k, _) in es {
                let xs = elems(&k)?;
                out.insert((node_u64(xs.first()?)?, node_u64(xs.get(1)?)?));
            }
        }
        Some(n) => {
            for r in elems(&n)? {
                let xs = elems(r)?;
                out.insert((node_u64(xs.first()?)?, node_u64(xs.get(1)?)?));
            }
        }
    }
    Some(out)
}

fn ceil_div(a: u64, b: u64) -> u64 {
    a.div_ceil(b)
}

/// (lower bound, upper bound) of the minimum lovelace of an output over the candidate formulas
fn min_ada_bounds(era: Era, p: &P, o: &OutV, out_len: usize) -> (u64, u64) {
    match era {
        Era::Byron => (1, 1),
        Era::Shelley | Era::Allegra | Era::Mary | Era::Alonzo => {
            // ledger: coinsPerUTxOWord * (27 [+10 with a datum hash] + size(value)); size = 2 for ada only, else the
            // heuristic 6 + ceil((12*assets + name bytes + 28*policies)/8); pallas uses the CBOR length in words instead
            let names: u64 = o.val.assets.keys().map(|k| k.1.len() as u64).sum();
            let pols = o.val.assets.keys().map(|k| &k.0).collect::<BTreeSet<_>>().len() as u64;
            let heur = if o.val.assets.is_empty() { 2 } else { 6 + ceil_div(o.val.assets.len() as u64 * 12 + names + pols * 28, 8) };
            let words = ceil_div(o.value_len as u64, 8);
            let fixed = if o.datum_hash.is_some() { 37 } else { 27 };
            if era == Era::Alonzo {
                (p.coins_per * 27, p.coins_per * (fixed + heur.max(words)))
            } else {
                (p.min_utxo, p.min_utxo.max((p.min_utxo / 27) * (27 + heur.max(words))))
            }
        }
        // ledger: coinsPerUTxOByte * (160 + |serialised output|); pallas: coinsPerUTxOByte * (160 + value words)
        _ => (p.coins_per * 160, p.coins_per * (160 + out_len as u64).max(160 + ceil_div(o.value_len as u64, 8))),
    }
}

type Eval = BTreeMap<&'static str, Option<bool>>;

fn eval_byron(w: &World) -> Eval {
    let mut e: Eval = BTreeMap::new();
    let Some(v) = parse_byron(&w.tx) else { return e };
    let m = umap(&w.utxo);
    e.insert("inputs-nonempty", Some(!v.inputs.is_empty()));
    e.insert("inputs-in-utxo", Some(v.inputs.iter().all(|r| m.contains_key(r))));
    e.insert("min-ada", Some(v.outputs.iter().all(|o| o.1 > num_bigint::BigInt::from(0))));
    e
}

fn eval(f: &Fixture, base_sdh_reproduced: bool, base: Option<&World>, w: &World) -> Eval {
    if f.era == Era::Byron {
        return eval_byron(w);
    }
    let mut e: Eval = BTreeMap::new();
    let Some(v) = parse_tx(&w.tx) else { return e };
    let m = umap(&w.utxo);
    let p = params(&w.env);
    let slot = w.env.block_slot;
    let net = w.env.network_id;
    let shelley = matches!(f.era, Era::Shelley | Era::Allegra | Era::Mary);
    e.insert("inputs-nonempty", Some(!v.inputs.is_empty()));
    e.insert("inputs-in-utxo", Some(v.inputs.iter().all(|r| m.contains_key(r))));
    e.insert("collateral-in-utxo", Some(v.collateral.iter().flatten().all(|r| m.contains_key(r))));
    e.insert("refinputs-in-utxo", Some(v.reference_inputs.iter().flatten().all(|r| m.contains_key(r))));
    // validity: Shelley needs ttl >= slot; from Allegra on the interval is start <= slot < ttl (ledger specification);
    // the boundary slot == ttl is produced by one mutator only, which is listed and never reported
    let ttl_ok = match v.ttl {
        Some(t) => t > slot || (t == slot && f.era == Era::Shelley),
        None => !shelley,
    };
    e.insert("validity-interval", Some(ttl_ok && v.start.map(|s| s <= slot).unwrap_or(true)));
    // min ada / value size
    let outs_nodes = outputs(&w.tx);
    let mut lo_fail = false;
    let mut all_hi = true;
    let mut size_fail = false;
    for (i, o) in v.outputs.iter().enumerate() {
        let len = outs_nodes.get(i).map(|n| n.to_vec().len()).unwrap_or(0);
        let (lb, ub) = min_ada_bounds(f.era, &p, o, len);
        let c = u64::try_from(o.val.coin.clone()).unwrap_or(u64::MAX);
        if c < lb {
            lo_fail = true;
        }
        if c < ub {
            all_hi = false;
        }
        if let Some(mx) = p.max_val_size {
            if o.value_len as u64 > mx {
                size_fail = true;
            }
        }
    }
    e.insert("min-ada", if lo_fail { Some(false) } else if all_hi { Some(true) } else { None });
    e.insert("value-size", Some(!size_fail));
    // network ids
    e.insert("network-id-outputs", Some(v.outputs.iter().all(|o| addr_type(&o.addr).map(|t| t > 7 && t != 14 && t != 15).unwrap_or(false) || o.addr.first().map(|b| b & 0x0f == net).unwrap_or(false))));
    e.insert("network-id-body", Some(v.network_id.map(|n| n == net as u64).unwrap_or(true)));
    // scripts
    let sc = scripts_of(w, &v);
    let lookup = |h: &Vec<u8>| sc.wits.get(h).or(sc.refs.get(h)).copied();
    let mut needed: BTreeSet<Vec<u8>> = BTreeSet::new();
    let mut spend_scripts: Vec<(InRef, Vec<u8>)> = vec![];
    for r in &v.inputs {
        if let Some(o) = m.get(r) {
            if let Some(h) = script_cred(&o.address) {
                needed.insert(h.clone());
                spend_scripts.push((*r, h));
            }
        }
    }
    for pol in &v.mint_policies {
        needed.insert(pol.clone());
    }
    let all_found = spend_scripts.iter().all(|(_, h)| lookup(h).is_some());
    let no_extra = sc.wits.keys().all(|h| needed.contains(h));
    e.insert("script-witness", Some(all_found && (shelley || no_extra)));
    e.insert("mint-policy-witness", Some(v.mint_policies.iter().all(|h| lookup(h).is_some())));
    // languages in use (of the needed scripts that are found)
    let langs: BTreeSet<u8> = needed.iter().filter_map(lookup).filter(|l| *l > 0).collect();
    let phase2 = !langs.is_empty();
    // datums
    let wn = wits_node(&w.tx);
    let wit_datums: Vec<Vec<u8>> = map_get(&wn, 4).and_then(elems).map(|xs| xs.iter().map(|d| refhash::blake2b_256(&d.to_vec()).to_vec()).collect()).unwrap_or_default();
    let mut wanted_datums: BTreeSet<Vec<u8>> = BTreeSet::new();
    let mut allowed_datums: BTreeSet<Vec<u8>> = BTreeSet::new();
    for (r, h) in &spend_scripts {
        if lookup(h).map(|l| l > 0).unwrap_or(false) {
            if let Some(Datum::Hash(d)) = m.get(r).map(|o| &o.datum) {
                wanted_datums.insert(d.to_vec());
            }
        }
    }
    for o in v.outputs.iter().chain(v.collateral_return.iter()) {
        if let Some(d) = &o.datum_hash {
            allowed_datums.insert(d.clone());
        }
    }
    for r in v.reference_inputs.iter().flatten() {
        if let Some(Datum::Hash(d)) = m.get(r).map(|o| &o.datum) {
            allowed_datums.insert(d.to_vec());
        }
    }
    let datums_ok = wanted_datums.iter().all(|d| wit_datums.contains(d)) && wit_datums.iter().all(|d| wanted_datums.contains(d) || allowed_datums.contains(d));
    e.insert("datum-witness", Some(datums_ok));
    // redeemers
    let mut sorted_inputs = v.inputs.clone();
    sorted_inputs.sort();
    sorted_inputs.dedup();
    let mut want_ptrs: BTreeSet<(u64, u64)> = BTreeSet::new();
    for (r, h) in &spend_scripts {
        if lookup(h).map(|l| l > 0).unwrap_or(false) {
            want_ptrs.insert((0, sorted_inputs.iter().position(|x| x == r).unwrap_or(0) as u64));
        }
    }
    let mut pols = v.mint_policies.clone();
    pols.sort();
    for (i, pol) in pols.iter().enumerate() {
        if lookup(pol).map(|l| l > 0).unwrap_or(false) {
            want_ptrs.insert((1, i as u64));
        }
    }
    e.insert("redeemer-coverage", redeemer_ptrs(&w.tx).map(|have| have == want_ptrs));
    // collateral (only meaningful when phase-2 scripts run)
    if shelley {
        for r in ["collateral-count", "collateral-kind", "collateral-amount", "collateral-annotation"] {
            e.insert(r, Some(true));
        }
    } else {
        let coll = v.collateral.clone().unwrap_or_default();
        let n = coll.len() as u64;
        e.insert("collateral-count", Some(!phase2 || (n >= 1 && n <= p.max_coll.unwrap_or(u64::MAX))));
        let kinds_ok = coll.iter().all(|r| m.get(r).map(|o| script_cred(&o.address).is_none()).unwrap_or(true));
        e.insert("collateral-kind", Some(!phase2 || kinds_ok));
        let mut bal = Val::default();
        let mut known = true;
        for r in &coll {
            match m.get(r) {
                Some(o) => bal.add(&Val::from_out(o)),
                None => known = false,
            }
        }
        let mut ret = Val::default();
        if let Some(o) = &v.collateral_return {
            ret = o.val.clone();
        }
        let zero = num_bigint::BigInt::from(0);
        let paid = &bal.coin - &ret.coin;
        let mut assets = bal.assets.clone();
        for (k, q) in &ret.assets {
            *assets.entry(k.clone()).or_default() -= q;
        }
        let ada_only = assets.values().all(|q| *q == zero);
        let enough = &paid * 100 >= &v.fee * p.coll_pct.unwrap_or(0);
        e.insert("collateral-amount", if !phase2 { Some(true) } else if !known { None } else { Some(ada_only && enough) });
        e.insert("collateral-annotation", if !known { None } else { Some(v.total_collateral.map(|t| num_bigint::BigInt::from(t) == paid).unwrap_or(true)) });
    }
    // auxiliary data hash
    let aux_bytes = aux(&w.tx);
    e.insert(
        "aux-data-hash",
        Some(match (&v.aux_hash, &aux_bytes) {
            (None, None) => true,
            (Some(h), Some(a)) => h[..] == refhash::blake2b_256(a)[..],
            _ => false,
        }),
    );
    // script integrity hash
    let has_red = redeemer_ptrs(&w.tx).map(|s| !s.is_empty()).unwrap_or(true);
    let sdh = if !has_red && wit_datums.is_empty() && !phase2 {
        Some(v.script_data_hash.is_none())
    } else {
        match &v.script_data_hash {
            None => Some(false),
            Some(h) => {
                let mut g = f.clone();
                g.utxo = w.utxo.clone();
                g.env = w.env.clone();
                let own = script_data_hash_for(&g, &w.tx);
                if base_sdh_reproduced {
                    Some(own.map(|o| o[..] == h[..]).unwrap_or(false))
                } else {
                    // the own computation does not reproduce this fixture's hash (cost-model table differs):
                    // decide only relative to the base
                    match base {
                        None => None,
                        Some(b) => {
                            let same_inputs = wits_get(&b.tx, 5).map(|n| n.to_vec()) == wits_get(&w.tx, 5).map(|n| n.to_vec()) && wits_get(&b.tx, 4).map(|n| n.to_vec()) == wits_get(&w.tx, 4).map(|n| n.to_vec());
                            let same_hash = body_get(&b.tx, 11).and_then(|n| node_bytes(&n)) == Some(h.clone());
                            if same_inputs {
                                Some(same_hash)
                            } else {
                                None
                            }
                        }
                    }
                }
            }
        }
    };
    e.insert("script-integrity-hash", sdh);
    e.insert("language-availability", Some(langs.iter().all(|l| w.env.cost_model(*l).is_some())));
    e
}

// ---------------------------------------------------------------------------------------
// mutators
// ---------------------------------------------------------------------------------------

fn fund(utxo: &mut [UtxoEntry], r: &InRef, add: i128) -> bool {
    let mut ok = false;
    for e in utxo.iter_mut() {
        if (e.tx_hash, e.index) == *r {
            let c = e.out.coin as i128 + add;
            if c < 0 || c > u64::MAX as i128 {
                return false;
            }
            e.out.coin = c as u64;
            ok = true;
        }
    }
    ok
}

/// restore the ada balance through input 0's UTxO entry, top the fee up, re-sign
fn settle(f: &Fixture, mut w: World) -> Option<World> {
    if f.era == Era::Byron {
        w.tx = byron_resign(f, &w.tx);
        return Some(w);
    }
    // fee
    let (a, b) = w.env.minfee();
    let need = a * (ledger_size(&w.tx) as u64 + 24) + b;
    if fee(&w.tx) < need {
        w.tx = set_fee(&w.tx, need);
    }
    // ada balance (own arithmetic) : coin(in0) := produced + fee - others
    if let Some(v) = parse_tx(&w.tx) {
        if let Some(in0) = v.inputs.first().copied() {
            let m = umap(&w.utxo);
            if m.contains_key(&in0) {
                let mut need = v.fee.clone();
                for o in &v.outputs {
                    need += &o.val.coin;
                }
                let mut seen = BTreeSet::new();
                for r in &v.inputs {
                    if !seen.insert(*r) {
                        continue;
                    }
                    if let Some(o) = m.get(r) {
                        need -= num_bigint::BigInt::from(o.coin);
                    }
                }
                let delta = i128::try_from(need).ok()?;
                if delta != 0 && !fund(&mut w.utxo, &in0, delta) {
                    return None;
                }
            }
        }
    }
    w.tx = f.resign(&w.tx);
    Some(w)
}

fn fresh_ref(rng: &mut Rng) -> InRef {
    (rng.array(), rng.below(4))
}

fn key_addr_like(f: &Fixture, w: &World) -> Option<Vec<u8>> {
    // a key-locked address whose key signs this transaction: that of a collateral entry, else of a key-locked input
    let v = parse_tx(&w.tx)?;
    let m = umap(&w.utxo);
    for r in v.collateral.iter().flatten().chain(v.inputs.iter()) {
        if let Some(o) = m.get(r) {
            if let Some((true, h)) = o.payment_cred() {
                if f.own_key(&h).is_some() {
                    return Some(o.address.clone());
                }
            }
        }
    }
    None
}

/// the collateral rules are known to be skipped when the Plutus scripts are reference scripts: keep
/// that class apart from transactions that carry their scripts in the witness set
fn rule_class(rule: &str, tx: &[u8]) -> String {
    if rule.starts_with("collateral-") {
        let wit = [3u64, 6, 7].iter().any(|k| wits_get(tx, *k).is_some());
        format!("{rule}:scripts={}", if wit { "witness" } else { "reference" })
    } else {
        rule.to_string()
    }
}
fn has_phase2(f: &Fixture, w: &World) -> bool {
    eval_langs(f, w).map(|l| !l.is_empty()).unwrap_or(false)
}
fn eval_langs(_f: &Fixture, w: &World) -> Option<BTreeSet<u8>> {
    let v = parse_tx(&w.tx)?;
    let sc = scripts_of(w, &v);
    let m = umap(&w.utxo);
    let mut needed = BTreeSet::new();
    for r in &v.inputs {
        if let Some(h) = m.get(r).and_then(|o| script_cred(&o.address)) {
            needed.insert(h);
        }
    }
    for p in &v.mint_policies {
        needed.insert(p.clone());
    }
    Some(needed.iter().filter_map(|h| sc.wits.get(h).or(sc.refs.get(h)).copied()).filter(|l| *l > 0).collect())
}

fn set_sdh(f: &Fixture, w: &mut World, reproduced: bool) {
    if !reproduced {
        return;
    }
    let mut g = f.clone();
    g.utxo = w.utxo.clone();
    g.env = w.env.clone();
    if body_get(&w.tx, 11).is_some() {
        if let Some(h) = script_data_hash_for(&g, &w.tx) {
            w.tx = body_set(&w.tx, 11, Some(Node::bytes(&h)));
        }
    }
}

struct MutCtx<'a> {
    f: &'a Fixture,
    sdh_ok: bool,
}

type MutFn = fn(&mut Rng, &MutCtx, &World) -> Option<World>;

fn legacy_outputs(w: &World) -> bool {
    outputs(&w.tx).first().map(|o| !matches!(o, Node::Map(..) | Node::MapIndef(..))).unwrap_or(true)
}

fn m_inputs_empty(_r: &mut Rng, c: &MutCtx, w: &World) -> Option<World> {
    let mut n = w.clone();
    n.tx = if c.f.era == Era::Byron { byron_set_inputs(&w.tx, &[]) } else { set_inputs(&w.tx, 0, &[]) };
    Some(n)
}
fn m_input_missing(r: &mut Rng, c: &MutCtx, w: &World) -> Option<World> {
    let ins = body_inputs(&w.tx, 0);
    let pick = *r.pick(&ins);
    let mut n = w.clone();
    // keep entries that serve other roles under another reference
    let _ = c;
    n.utxo.retain(|e| (e.tx_hash, e.index) != pick);
    Some(n)
}
fn m_input_fresh_missing(r: &mut Rng, c: &MutCtx, w: &World) -> Option<World> {
    // an additional input that is not in the UTxO (all existing inputs stay resolvable)
    let mut ins = body_inputs(&w.tx, 0);
    ins.push(fresh_ref(r));
    let mut n = w.clone();
    n.tx = if c.f.era == Era::Byron { byron_set_inputs(&w.tx, &ins) } else { set_inputs(&w.tx, 0, &ins) };
    Some(n)
}
fn m_collateral_missing(r: &mut Rng, _c: &MutCtx, w: &World) -> Option<World> {
    let mut col = body_inputs(&w.tx, 13);
    col.push(fresh_ref(r));
    let mut n = w.clone();
    n.tx = set_inputs(&w.tx, 13, &col);
    Some(n)
}
fn m_refinput_missing(r: &mut Rng, _c: &MutCtx, w: &World) -> Option<World> {
    let mut x = body_inputs(&w.tx, 18);
    x.push(fresh_ref(r));
    let mut n = w.clone();
    n.tx = set_inputs(&w.tx, 18, &x);
    Some(n)
}
fn m_ttl_passed(r: &mut Rng, _c: &MutCtx, w: &World) -> Option<World> {
    let mut n = w.clone();
    let slot = w.env.block_slot;
    n.tx = body_set(&w.tx, 3, Some(Node::u(slot.checked_sub(1 + r.below(1000))?)));
    // keep start <= ttl
    if let Some(s) = body_get(&w.tx, 8).and_then(|x| node_u64(&x)) {
        if s >= slot.saturating_sub(1001) {
            n.tx = body_set(&n.tx, 8, Some(Node::u(slot.saturating_sub(2000))));
        }
    }
    Some(n)
}
fn m_ttl_equals_slot(_r: &mut Rng, c: &MutCtx, w: &World) -> Option<World> {
    // the ledger's interval is [start, ttl) from Allegra on: slot == ttl is outside
    if matches!(c.f.era, Era::Shelley | Era::Byron) {
        return None;
    }
    let mut n = w.clone();
    n.tx = body_set(&w.tx, 3, Some(Node::u(w.env.block_slot)));
    Some(n)
}
fn m_start_future(r: &mut Rng, c: &MutCtx, w: &World) -> Option<World> {
    if matches!(c.f.era, Era::Shelley) {
        return None;
    }
    let mut n = w.clone();
    let slot = w.env.block_slot;
    let s = slot + 1 + r.below(1000);
    n.tx = body_set(&w.tx, 8, Some(Node::u(s)));
    if let Some(t) = body_get(&w.tx, 3).and_then(|x| node_u64(&x)) {
        if t <= s {
            n.tx = body_set(&n.tx, 3, Some(Node::u(s + 5000)));
        }
    }
    Some(n)
}
fn m_ttl_absent(_r: &mut Rng, c: &MutCtx, w: &World) -> Option<World> {
    if !matches!(c.f.era, Era::Shelley | Era::Allegra | Era::Mary) {
        return None;
    }
    let mut n = w.clone();
    n.tx = body_set(&w.tx, 3, None);
    Some(n)
}
fn m_min_ada(r: &mut Rng, c: &MutCtx, w: &World) -> Option<World> {
    let mut n = w.clone();
    if c.f.era == Era::Byron {
        let outs = byron_outputs(&w.tx);
        n.tx = byron_set_coin(&w.tx, r.usize_below(outs.len()), 0);
        return Some(n);
    }
    let p = params(&w.env);
    let outs = outputs(&w.tx);
    let i = r.usize_below(outs.len());
    let v = parse_output(&outs[i])?;
    let (lb, _) = min_ada_bounds(c.f.era, &p, &v, 0);
    let tiny = match r.below(3) {
        0 => 0,
        1 => lb / 2,
        _ => lb - 1,
    };
    let (_, a) = out_get(&outs[i])?;
    n.tx = edit_output(&w.tx, i, |o| out_set(o, tiny, &a));
    Some(n)
}
fn m_value_size(r: &mut Rng, c: &MutCtx, w: &World) -> Option<World> {
    // a bundle of many assets of one policy, present in input 0's UTxO entry and in a new output
    let p = params(&w.env);
    let mx = p.max_val_size?;
    let mut n = w.clone();
    let pol = r.bytes(28);
    let count = (mx as usize + 400 + r.usize_below(600)) / 35;
    let names: Vec<(Vec<u8>, u64)> = (0..count).map(|i| {
        let mut nm = vec![0u8; 32];
        nm[..8].copy_from_slice(&(i as u64).to_be_bytes());
        (nm, 1 + r.below(5))
    }).collect();
    let in0 = *body_inputs(&w.tx, 0).first()?;
    for e in n.utxo.iter_mut() {
        if (e.tx_hash, e.index) == in0 {
            e.out.assets.push((pol.clone(), names.clone()));
        }
    }
    let addr = parse_output(outputs(&w.tx).first()?)?.addr;
    let mut outs = outputs(&w.tx);
    outs.push(mk_output(&addr, 60_000_000, &vec![(pol, names)], legacy_outputs(w)));
    n.tx = set_outputs(&w.tx, outs);
    let _ = c;
    Some(n)
}
fn m_network_out(r: &mut Rng, _c: &MutCtx, w: &World) -> Option<World> {
    let outs = outputs(&w.tx);
    let i = r.usize_below(outs.len());
    let mut a = parse_output(&outs[i])?.addr;
    let t = a.first()? >> 4;
    if t > 7 {
        return None;
    }
    let net = w.env.network_id;
    a[0] = (a[0] & 0xf0) | if net == 1 { *r.pick(&[0u8, 2, 7]) } else { *r.pick(&[1u8, 3, 15]) };
    let mut n = w.clone();
    n.tx = edit_output(&w.tx, i, |o| {
        if let Some(x) = out_address_mut(o) {
            *x = Node::bytes(&a)
        }
    });
    Some(n)
}
/// the whole transaction moved to network 0 (environment and every output address), except one
/// output that sits on another non-mainnet network id (2..15): "not mainnet" is not "this network"
fn m_network_out_other_testnet(r: &mut Rng, _c: &MutCtx, w: &World) -> Option<World> {
    let outs = outputs(&w.tx);
    let odd = r.usize_below(outs.len());
    let mut n = w.clone();
    n.env.network_id = 0;
    for i in 0..outs.len() {
        let mut a = parse_output(&outs[i])?.addr;
        if a.first()? >> 4 > 7 {
            return None;
        }
        a[0] = (a[0] & 0xf0) | if i == odd { 2 + r.below(14) as u8 } else { 0 };
        n.tx = edit_output(&n.tx, i, |o| {
            if let Some(x) = out_address_mut(o) {
                *x = Node::bytes(&a)
            }
        });
    }
    if body_get(&n.tx, 15).is_some() {
        n.tx = body_set(&n.tx, 15, Some(Node::u(0)));
    }
    Some(n)
}
fn m_network_body(_r: &mut Rng, c: &MutCtx, w: &World) -> Option<World> {
    if matches!(c.f.era, Era::Shelley | Era::Allegra | Era::Mary) {
        return None;
    }
    let mut n = w.clone();
    n.tx = body_set(&w.tx, 15, Some(Node::u(if w.env.network_id == 1 { 0 } else { 1 })));
    Some(n)
}
fn m_collateral_none(r: &mut Rng, c: &MutCtx, w: &World) -> Option<World> {
    if !has_phase2(c.f, w) {
        return None;
    }
    let mut n = w.clone();
    let empty_list = r.bool() && c.f.era != Era::Conway;
    n.tx = if empty_list { set_inputs(&w.tx, 13, &[]) } else { body_set(&w.tx, 13, None) };
    // without collateral inputs there is nothing to return / annotate
    n.tx = body_set(&body_set(&n.tx, 16, None), 17, None);
    Some(n)
}
fn m_collateral_too_many(r: &mut Rng, c: &MutCtx, w: &World) -> Option<World> {
    if !has_phase2(c.f, w) {
        return None;
    }
    let p = params(&w.env);
    let mut col = body_inputs(&w.tx, 13);
    let addr = key_addr_like(c.f, w)?;
    let mut n = w.clone();
    let mut added = 0u64;
    while (col.len() as u64) <= p.max_coll? {
        let x = fresh_ref(r);
        col.push(x);
        n.utxo.push(UtxoEntry { role: Role::Collateral, tx_hash: x.0, index: x.1, out: Out { address: addr.clone(), coin: 1_000_000, assets: vec![], datum: Datum::None, script_ref: None } });
        added += 1_000_000;
    }
    n.tx = set_inputs(&w.tx, 13, &col);
    if let Some(t) = body_get(&w.tx, 17).and_then(|x| node_u64(&x)) {
        n.tx = body_set(&n.tx, 17, Some(Node::u(t + added)));
    }
    Some(n)
}
/// replace the collateral by one fresh input owned by `addr` worth `coin` (+ assets)
fn replace_collateral(r: &mut Rng, w: &World, addr: Vec<u8>, coin: u64, assets: Vec<(Vec<u8>, Vec<(Vec<u8>, u64)>)>) -> World {
    let x = fresh_ref(r);
    let mut n = w.clone();
    n.utxo.push(UtxoEntry { role: Role::Collateral, tx_hash: x.0, index: x.1, out: Out { address: addr, coin, assets, datum: Datum::None, script_ref: None } });
    n.tx = set_inputs(&w.tx, 13, &[x]);
    n
}
fn collateral_state(w: &World) -> Option<(u64, u64, Option<u64>)> {
    // (Σ collateral coin, return coin, annotation)
    let v = parse_tx(&w.tx)?;
    let m = umap(&w.utxo);
    let mut s = 0u64;
    for r in v.collateral.iter().flatten() {
        s = s.checked_add(m.get(r)?.coin)?;
    }
    let ret = v.collateral_return.as_ref().map(|o| u64::try_from(o.val.coin.clone()).unwrap_or(0)).unwrap_or(0);
    Some((s, ret, v.total_collateral))
}
fn m_collateral_script_locked(r: &mut Rng, c: &MutCtx, w: &World) -> Option<World> {
    if !has_phase2(c.f, w) {
        return None;
    }
    let (s, _, _) = collateral_state(w)?;
    let mut a = vec![0x70 | w.env.network_id];
    a.extend(r.bytes(28));
    Some(replace_collateral(r, w, a, s, vec![]))
}
fn m_collateral_too_small(r: &mut Rng, c: &MutCtx, w: &World) -> Option<World> {
    if !has_phase2(c.f, w) {
        return None;
    }
    let p = params(&w.env);
    let (_, ret, ann) = collateral_state(w)?;
    let addr = key_addr_like(c.f, w)?;
    let needed = (fee(&w.tx) as u128 * p.coll_pct? as u128).div_ceil(100) as u64;
    let paid = needed.checked_sub(1 + r.below(needed.min(1000)))?;
    let mut n = replace_collateral(r, w, addr, ret + paid, vec![]);
    if ann.is_some() {
        n.tx = body_set(&n.tx, 17, Some(Node::u(paid)));
    }
    Some(n)
}
fn m_collateral_non_ada(r: &mut Rng, c: &MutCtx, w: &World) -> Option<World> {
    if !has_phase2(c.f, w) {
        return None;
    }
    let (s, _, _) = collateral_state(w)?;
    let addr = key_addr_like(c.f, w)?;
    let assets = vec![(r.bytes(28), vec![(b"tok".to_vec(), 1 + r.below(9))])];
    Some(replace_collateral(r, w, addr, s, assets))
}
/// collateral input with two asset names under one policy, collateral return that gives back only one
/// of them: the other asset would be forfeited, so the balance is not "nothing but lovelace"
fn m_collateral_partial_asset_return(r: &mut Rng, c: &MutCtx, w: &World) -> Option<World> {
    if !has_phase2(c.f, w) || !matches!(c.f.era, Era::Babbage | Era::Conway) {
        return None;
    }
    let (s, ret, _) = collateral_state(w)?;
    let addr = key_addr_like(c.f, w)?;
    let pol = r.bytes(28);
    let (qa, qb) = (1 + r.below(9), 1 + r.below(9));
    let extra = 3_000_000u64;
    let both = vec![(pol.clone(), vec![(b"A".to_vec(), qa), (b"B".to_vec(), qb)])];
    let kept = vec![(pol, vec![(if r.bool() { b"A".to_vec() } else { b"B".to_vec() }, qa)])];
    let mut n = replace_collateral(r, w, addr.clone(), s.checked_add(extra)?, both);
    n.tx = body_set(&n.tx, 16, Some(mk_output(&addr, ret.checked_add(extra)?, &kept, false)));
    Some(n)
}
fn m_collateral_annotation(r: &mut Rng, c: &MutCtx, w: &World) -> Option<World> {
    if !matches!(c.f.era, Era::Babbage | Era::Conway) {
        return None;
    }
    let (s, ret, _) = collateral_state(w)?;
    if body_inputs(&w.tx, 13).is_empty() {
        return None;
    }
    let paid = s.checked_sub(ret)?;
    let wrong = if r.bool() { paid + 1 + r.below(1000) } else { paid.checked_sub(1 + r.below(paid.min(1000)))? };
    let mut n = w.clone();
    n.tx = body_set(&w.tx, 17, Some(Node::u(wrong)));
    Some(n)
}
fn m_mint_unwitnessed(r: &mut Rng, c: &MutCtx, w: &World) -> Option<World> {
    if matches!(c.f.era, Era::Shelley | Era::Allegra) {
        return None;
    }
    let pol = r.bytes(28);
    let q = 1 + r.below(1000);
    let mut m = mint_get(&w.tx);
    mint_put(&mut m, &pol, b"free", q as i128);
    let mut n = w.clone();
    n.tx = mint_set(&w.tx, &m);
    let addr = parse_output(outputs(&w.tx).first()?)?.addr;
    let mut outs = outputs(&n.tx);
    outs.push(mk_output(&addr, 5_000_000, &vec![(pol, vec![(b"free".to_vec(), q)])], legacy_outputs(w)));
    n.tx = set_outputs(&n.tx, outs);
    // a new policy shifts the mint redeemer indices: keep the redeemers pointing at the same policies
    if redeemers(&w.tx).is_some() && redeemer_ptrs(&w.tx).map(|s| s.iter().any(|p| p.0 == 1)).unwrap_or(false) {
        return None;
    }
    Some(n)
}
fn m_mint_script_dropped(r: &mut Rng, _c: &MutCtx, w: &World) -> Option<World> {
    // drop the native script that is the policy of a minted asset
    let v = parse_tx(&w.tx)?;
    let list = wits_get(&w.tx, 1)?;
    let items = elems(&list)?.clone();
    let cands: Vec<usize> = (0..items.len()).filter(|i| v.mint_policies.contains(&script_hash(0, &items[*i].to_vec()))).collect();
    if cands.is_empty() {
        return None;
    }
    let k = *r.pick(&cands);
    let mut rest = items.clone();
    rest.remove(k);
    let mut n = w.clone();
    n.tx = wits_set(&w.tx, 1, if rest.is_empty() { None } else { Some(list_like(Some(&list), rest)) });
    Some(n)
}
fn m_script_dropped(r: &mut Rng, c: &MutCtx, w: &World) -> Option<World> {
    // drop the script (witness or reference) that a script-locked input needs
    let v = parse_tx(&w.tx)?;
    let m = umap(&w.utxo);
    let needed: Vec<Vec<u8>> = v.inputs.iter().filter_map(|r| m.get(r).and_then(|o| script_cred(&o.address))).collect();
    if needed.is_empty() {
        return None;
    }
    let mut n = w.clone();
    let mut done = false;
    for (key, lang) in [(1u64, 0u8), (3, 1), (6, 2), (7, 3)] {
        if let Some(list) = wits_get(&w.tx, key) {
            let items = elems(&list)?.clone();
            let keep: Vec<Node> = items
                .iter()
                .filter(|x| {
                    let h = if lang == 0 { script_hash(0, &x.to_vec()) } else { script_hash(lang, &node_bytes(x).unwrap_or_default()) };
                    !needed.contains(&h)
                })
                .cloned()
                .collect();
            if keep.len() != items.len() {
                n.tx = wits_set(&n.tx, key, if keep.is_empty() { None } else { Some(list_like(Some(&list), keep)) });
                done = true;
            }
        }
    }
    for e in n.utxo.iter_mut() {
        if let Some((lang, body)) = &e.out.script_ref {
            if needed.contains(&script_hash(*lang, body)) {
                e.out.script_ref = None;
                done = true;
            }
        }
    }
    let _ = (r, c);
    if done {
        Some(n)
    } else {
        None
    }
}
fn m_script_extra(r: &mut Rng, c: &MutCtx, w: &World) -> Option<World> {
    if matches!(c.f.era, Era::Shelley | Era::Allegra | Era::Mary) {
        return None;
    }
    let mut n = w.clone();
    n.tx = add_native_script(&w.tx, native_always(1 + r.below(3) as u8).0);
    Some(n)
}
fn m_datum_dropped(_r: &mut Rng, c: &MutCtx, w: &World) -> Option<World> {
    let list = wits_get(&w.tx, 4)?;
    if elems(&list)?.is_empty() {
        return None;
    }
    let mut n = w.clone();
    n.tx = wits_set(&w.tx, 4, None);
    set_sdh(c.f, &mut n, c.sdh_ok);
    Some(n)
}
fn m_datum_extra(r: &mut Rng, c: &MutCtx, w: &World) -> Option<World> {
    if matches!(c.f.era, Era::Shelley | Era::Allegra | Era::Mary) || redeemers(&w.tx).is_none() {
        return None;
    }
    let cur = wits_get(&w.tx, 4);
    let mut items = cur.as_ref().and_then(|n| elems(n).cloned()).unwrap_or_default();
    items.push(Node::bytes(&r.bytes(9)));
    let mut n = w.clone();
    n.tx = wits_set(&w.tx, 4, Some(list_like(cur.as_ref(), items)));
    set_sdh(c.f, &mut n, c.sdh_ok);
    Some(n)
}
fn m_redeemer_dropped(_r: &mut Rng, c: &MutCtx, w: &World) -> Option<World> {
    let red = redeemers(&w.tx)?;
    let mut n = w.clone();
    // remove one redeemer (the first); an empty container is removed altogether
    let new = match &red {
        Node::Map(es, wd) => {
            let mut es = es.clone();
            if es.is_empty() {
                return None;
            }
            es.remove(0);
            if es.is_empty() { None } else { Some(Node::Map(es, *wd)) }
        }
        other => {
            let mut xs = elems(other)?.clone();
            if xs.is_empty() {
                return None;
            }
            xs.remove(0);
            if xs.is_empty() { None } else { Some(list_like(Some(other), xs)) }
        }
    };
    n.tx = wits_set(&w.tx, 5, new);
    set_sdh(c.f, &mut n, c.sdh_ok);
    Some(n)
}
fn m_redeemer_extra(r: &mut Rng, c: &MutCtx, w: &World) -> Option<World> {
    let red = redeemers(&w.tx)?;
    let have = redeemer_ptrs(&w.tx)?;
    let mut idx = 1 + r.below(6);
    while have.contains(&(0, idx)) {
        idx += 1;
    }
    let data = Node::tag(121, Node::arr(vec![]));
    let ex = Node::arr(vec![Node::u(1000), Node::u(1000)]);
    let new = match &red {
        Node::Map(es, wd) => {
            let mut es = es.clone();
            es.push((Node::arr(vec![Node::u(0), Node::u(idx)]), Node::arr(vec![data, ex])));
            Node::Map(es, *wd)
        }
        other => {
            let mut xs = elems(other)?.clone();
            xs.push(Node::arr(vec![Node::u(0), Node::u(idx), data, ex]));
            list_like(Some(other), xs)
        }
    };
    let mut n = w.clone();
    n.tx = wits_set(&w.tx, 5, Some(new));
    set_sdh(c.f, &mut n, c.sdh_ok);
    Some(n)
}
/// a second Plutus purpose (a token minted under the transaction's own witness-set Plutus script used as
/// policy) whose redeemer is missing, while the list carries a second entry for the existing spend
/// pointer: as many redeemers as purposes, but one purpose is not covered
fn m_redeemer_duplicate_instead_of_new_purpose(_r: &mut Rng, c: &MutCtx, w: &World) -> Option<World> {
    let red = redeemers(&w.tx)?;
    if matches!(red, Node::Map(..) | Node::MapIndef(..)) {
        return None;
    }
    let mut xs = elems(&red)?.clone();
    let first = xs.first()?.clone();
    let wn = wits_node(&w.tx);
    let (lang, script) = [(3u64, 1u8), (6, 2), (7, 3)].iter().find_map(|(k, l)| map_get(&wn, *k).and_then(elems).and_then(|l2| l2.first().and_then(node_bytes)).map(|b| (*l, b)))?;
    if !mint_get(&w.tx).is_empty() {
        return None;
    }
    let pol = script_hash(lang, &script);
    let mut m = mint_get(&w.tx);
    mint_put(&mut m, &pol, b"pv", 1);
    let mut n = w.clone();
    n.tx = mint_set(&w.tx, &m);
    let addr = parse_output(outputs(&w.tx).first()?)?.addr;
    let mut outs = outputs(&n.tx);
    outs.push(mk_output(&addr, 5_000_000, &vec![(pol, vec![(b"pv".to_vec(), 1)])], legacy_outputs(w)));
    n.tx = set_outputs(&n.tx, outs);
    // the second entry asks for no execution units, so the budget rule is not what rejects the mutant
    let mut dup = first;
    if let Node::Array(f, _) | Node::ArrayIndef(f) = &mut dup {
        if let Some(last) = f.last_mut() {
            *last = Node::arr(vec![Node::u(0), Node::u(0)]);
        }
    }
    xs.push(dup);
    n.tx = wits_set(&n.tx, 5, Some(list_like(Some(&red), xs)));
    set_sdh(c.f, &mut n, c.sdh_ok);
    Some(n)
}
fn m_aux_hash(r: &mut Rng, _c: &MutCtx, w: &World) -> Option<World> {
    let mut n = w.clone();
    match (body_get(&w.tx, 7).and_then(|x| node_bytes(&x)), aux(&w.tx)) {
        (Some(mut h), Some(_)) => {
            if r.bool() {
                let i = r.usize_below(h.len());
                h[i] ^= 1 << r.below(8);
                n.tx = body_set(&w.tx, 7, Some(Node::bytes(&h)));
            } else {
                n.tx = body_set(&w.tx, 7, None);
            }
        }
        (None, None) => {
            if r.bool() {
                n.tx = body_set(&w.tx, 7, Some(Node::bytes(&r.bytes(32))));
            } else {
                // auxiliary data without the hash in the body
                n.tx = set_aux(&w.tx, Some(Node::map(vec![(Node::u(674), Node::text("pv"))])));
            }
        }
        _ => return None,
    }
    Some(n)
}
fn m_sdh(r: &mut Rng, c: &MutCtx, w: &World) -> Option<World> {
    if matches!(c.f.era, Era::Shelley | Era::Allegra | Era::Mary) {
        return None;
    }
    let mut n = w.clone();
    match body_get(&w.tx, 11).and_then(|x| node_bytes(&x)) {
        Some(mut h) => match r.below(3) {
            0 => {
                let i = r.usize_below(h.len());
                h[i] ^= 1 << r.below(8);
                n.tx = body_set(&w.tx, 11, Some(Node::bytes(&h)));
            }
            1 => n.tx = body_set(&w.tx, 11, None),
            _ => {
                // the hash stays, a redeemer's data changes
                let mut red = redeemers(&w.tx)?;
                let newdata = Node::tag(121, Node::arr(vec![Node::u(r.below(1000))]));
                match &mut red {
                    Node::Map(es, _) => {
                        let e = es.first_mut()?;
                        if let Node::Array(xs, _) = &mut e.1 {
                            xs[0] = newdata;
                        }
                    }
                    other => {
                        let xs = elems_mut(other)?;
                        if let Some(Node::Array(ys, _)) = xs.first_mut() {
                            if ys.len() == 4 {
                                ys[2] = newdata;
                            }
                        }
                    }
                }
                n.tx = set_redeemers(&w.tx, red);
            }
        },
        None => n.tx = body_set(&w.tx, 11, Some(Node::bytes(&r.bytes(32)))),
    }
    Some(n)
}
fn m_language(_r: &mut Rng, c: &MutCtx, w: &World) -> Option<World> {
    // the same network's well-known parameter set of an earlier epoch that has no cost model for a language in use
    let langs = eval_langs(c.f, w)?;
    if langs.is_empty() {
        return None;
    }
    let mut n = w.clone();
    let cand: Vec<EnvSpec> = all_fixtures().into_iter().map(|g| g.env).filter(|e| std::mem::discriminant(&e.params) == std::mem::discriminant(&w.env.params) && e.prot_magic == w.env.prot_magic && e.network_id == w.env.network_id && langs.iter().any(|l| e.cost_model(*l).is_none())).collect();
    let e = cand.first()?;
    n.env.params = e.params.clone();
    Some(n)
}

const MUTATORS: [(&str, &str, MutFn); 35] = [
    ("validity-interval", "ttl==slot(upper bound exclusive in the ledger specification)", m_ttl_equals_slot),
    ("inputs-nonempty", "inputs=[]", m_inputs_empty),
    ("inputs-in-utxo", "utxo-entry-of-an-input-removed", m_input_missing),
    ("inputs-in-utxo", "extra-input-not-in-utxo", m_input_fresh_missing),
    ("collateral-in-utxo", "extra-collateral-input-not-in-utxo", m_collateral_missing),
    ("refinputs-in-utxo", "extra-reference-input-not-in-utxo", m_refinput_missing),
    ("validity-interval", "ttl<slot", m_ttl_passed),
    ("validity-interval", "start>slot", m_start_future),
    ("validity-interval", "ttl-absent", m_ttl_absent),
    ("min-ada", "output-coin-below-any-minimum", m_min_ada),
    ("value-size", "output-value-larger-than-max-value-size", m_value_size),
    ("network-id-outputs", "output-address-of-another-network", m_network_out),
    ("network-id-outputs", "transaction-on-network-0-with-one-output-on-network-2..15", m_network_out_other_testnet),
    ("network-id-body", "body-network-id-of-another-network", m_network_body),
    ("collateral-count", "no-collateral", m_collateral_none),
    ("collateral-count", "more-than-max-collateral-inputs", m_collateral_too_many),
    ("collateral-kind", "script-locked-collateral", m_collateral_script_locked),
    ("collateral-amount", "collateral-below-percentage", m_collateral_too_small),
    ("collateral-amount", "collateral-with-other-assets", m_collateral_non_ada),
    ("collateral-amount", "collateral-return-gives-back-only-part-of-the-assets", m_collateral_partial_asset_return),
    ("collateral-annotation", "total-collateral-differs-from-balance", m_collateral_annotation),
    ("mint-policy-witness", "mint-under-a-policy-without-script", m_mint_unwitnessed),
    ("mint-policy-witness", "policy-script-removed", m_mint_script_dropped),
    ("script-witness", "script-of-a-spent-script-input-removed", m_script_dropped),
    ("script-witness", "unneeded-script-added", m_script_extra),
    ("datum-witness", "datums-removed", m_datum_dropped),
    ("datum-witness", "unneeded-datum-added", m_datum_extra),
    ("redeemer-coverage", "redeemer-removed", m_redeemer_dropped),
    ("redeemer-coverage", "unneeded-redeemer-added", m_redeemer_extra),
    ("redeemer-coverage", "new-plutus-mint-purpose-uncovered-while-a-pointer-is-listed-twice", m_redeemer_duplicate_instead_of_new_purpose),
    ("aux-data-hash", "hash-flipped/removed/added-or-unhashed-aux-data", m_aux_hash),
    ("script-integrity-hash", "hash-flipped/removed/added-or-redeemer-data-changed", m_sdh),
    ("language-availability", "parameters-without-cost-model-for-a-used-language", m_language),
    ("validity-interval", "ttl<slot(2)", m_ttl_passed),
    ("min-ada", "output-coin-below-any-minimum(2)", m_min_ada),
];

// ---------------------------------------------------------------------------------------
// driver
// ---------------------------------------------------------------------------------------

struct Base {
    f: Fixture,
    w: World,
    sdh_ok: bool,
    ev: Eval,
}

/// fixtures whose tables already break a rule are repaired through the UTxO table first (reported)
enum Report {
    Set(&'static str, String),
    Violation(String, String, serde_json::Value),
}
struct Reports(Vec<Report>);
impl Reports {
    fn set_insert(&mut self, k: &'static str, v: &str) {
        self.0.push(Report::Set(k, v.to_string()));
    }
    fn violation(&mut self, sig: &str, what: &str, replay: serde_json::Value) {
        self.0.push(Report::Violation(sig.to_string(), what.to_string(), replay));
    }
}

fn mk_base(ctx: &mut Reports, f: &Fixture) -> Option<Base> {
    let mut w = World { tx: f.tx_bytes.clone(), utxo: f.utxo.clone(), env: f.env.clone() };
    let sdh_ok = if f.plutus { script_data_hash_for(f, &f.tx_bytes).map(|h| Some(h.to_vec()) == body_get(&f.tx_bytes, 11).and_then(|n| node_bytes(&n))).unwrap_or(false) } else { true };
    let mut ev = eval(f, sdh_ok, None, &w);
    let broken: Vec<&str> = ev.iter().filter(|(_, v)| **v == Some(false)).map(|(k, _)| *k).collect();
    if !broken.is_empty() {
        // the unmodified fixture (accepted by validate_tx) breaks a rule by the own predicate
        for r in &broken {
            ctx.set_insert("fixture_tables_breaking_a_rule", &format!("{}:{}", f.name, r));
        }
        if broken.iter().all(|r| r.starts_with("collateral-a")) {
            // collateral worth less than annotated: raise the collateral entry
            if let Some((s, ret, Some(ann))) = collateral_state(&w) {
                let col = body_inputs(&w.tx, 13);
                if let Some(c0) = col.first() {
                    let want = ret as i128 + ann as i128;
                    let delta = want - s as i128;
                    if fund(&mut w.utxo, c0, delta) {
                        // the collateral entry may also be a spent input: keep the ada balance through another input
                        let ins = body_inputs(&w.tx, 0);
                        if ins.contains(c0) {
                            if let Some(other) = ins.iter().find(|r| *r != c0) {
                                fund(&mut w.utxo, other, -delta);
                            }
                        }
                        ev = eval(f, sdh_ok, None, &w);
                    }
                }
            }
        }
    }
    let still: Vec<&str> = ev.iter().filter(|(_, v)| **v == Some(false)).map(|(k, _)| *k).collect();
    let verdict = f.validate_with(&w.tx, &w.utxo, &w.env);
    if !verdict.accepted() {
        ctx.set_insert("bases_unusable", &format!("{}: repaired base not accepted: {}", f.name, verdict.label()));
        return None;
    }
    // an accepted base that breaks a claimed rule is itself a witness of the property's violation
    for r in &still {
        if claimed(f.era, r) {
            ctx.violation(&format!("C38:{}:{}:accepted", era_name(f.era), rule_class(r, &f.tx_bytes)), &format!("{} (tables as in the test suite) breaks rule {r} by the own predicate and is accepted", f.name), json!({"fixture_name": f.name, "base": true}));
        }
    }
    Some(Base { f: f.clone(), w, sdh_ok, ev })
}

struct Applied {
    rule: &'static str,
    variant: &'static str,
    w: World,
    exact: bool,
    also_broken: Vec<&'static str>,
}

fn apply(rng: &mut Rng, b: &Base, from: &World, mi: usize) -> Result<Applied, &'static str> {
    let (rule, variant, mf) = MUTATORS[mi];
    if b.ev.get(rule).copied().flatten() != Some(true) {
        return Err("base-predicate-not-true");
    }
    let mc = MutCtx { f: &b.f, sdh_ok: b.sdh_ok };
    // a mutator meeting a shape it was not written for (e.g. after another mutator emptied a list) gives up
    let Some(w1) = pv::panics::catch(|| mf(rng, &mc, from)).ok().flatten() else { return Err("mutator-not-applicable") };
    let Some(w2) = pv::panics::catch(|| settle(&b.f, w1)).ok().flatten() else { return Err("cannot-settle") };
    let ev = eval(&b.f, b.sdh_ok, Some(&b.w), &w2);
    if ev.get(rule).copied().flatten() != Some(false) {
        return Err("not-confirmed-by-predicate");
    }
    let also: Vec<&'static str> = RULES.iter().filter(|r| **r != rule && ev.get(*r).copied().flatten() == Some(false) && b.ev.get(*r).copied().flatten() == Some(true)).copied().collect();
    Ok(Applied { rule, variant, w: w2, exact: also.is_empty(), also_broken: also })
}

fn short(name: &str) -> String {
    name.replace("successful_", "").replace("mainnet_", "")
}

fn world_json(w: &World) -> serde_json::Value {
    json!({"tx": hexs(&w.tx), "slot": w.env.block_slot, "network": w.env.network_id,
        "utxo": w.utxo.iter().map(|e| json!({"role": format!("{:?}", e.role), "tx": hexs(&e.tx_hash), "ix": e.index, "addr": hexs(&e.out.address), "coin": e.out.coin.to_string(), "n_policies": e.out.assets.len(), "script_ref": e.out.script_ref.as_ref().map(|s| s.0)})).collect::<Vec<_>>()})
}

fn single(ctx: &mut Ctx, b: &Base, bi: usize, mi: usize, seed: u64, verbose: bool) -> Option<(Applied, bool)> {
    let mut rng = Rng::new(seed);
    let era = era_name(b.f.era);
    let (rule, variant, _) = MUTATORS[mi];
    let is_claimed = claimed_variant(b.f.era, rule, variant);
    match apply(&mut rng, b, &b.w, mi) {
        Err(why) => {
            ctx.count(&format!("skip:{why}"));
            if is_claimed && (why == "not-confirmed-by-predicate" || why == "base-predicate-not-true") {
                ctx.set_insert("cells_not_applied", &format!("{}:{}:{}", short(b.f.name), variant, why));
            }
            if verbose {
                println!("{} {rule}/{variant}: {why}", b.f.name);
            }
            None
        }
        Ok(a) => {
            ctx.eval();
            let v = b.f.validate_with(&a.w.tx, &a.w.utxo, &a.w.env);
            let tag = if is_claimed { "rule" } else { "unclaimed-rule" };
            ctx.add(&format!("{tag}:{rule}:{era}:applied"), 1);
            if !a.exact {
                ctx.add(&format!("{tag}:{rule}:{era}:applied-inexact"), 1);
                ctx.set_insert("inexact_mutants(also_break)", &format!("{era}:{variant}:+{}", a.also_broken.join("+")));
            }
            ctx.nontrivial(fp_mix(fp(&a.w.tx), fp(world_json(&a.w).to_string().as_bytes())));
            if verbose {
                println!("{} {rule}/{variant}: applied (exact={}) -> {}", b.f.name, a.exact, v.label());
            }
            let accepted = match &v {
                Verdict::Accepted => {
                    ctx.add(&format!("{tag}:{rule}:{era}:accepted"), 1);
                    ctx.set_insert(&format!("matrix:{}", short(b.f.name)), &format!("{rule}[{variant}]=ACCEPTED"));
                    if is_claimed {
                        ctx.violation(
                            &format!("C38:{era}:{}:accepted", rule_class(rule, &a.w.tx)),
                            &format!("{} with {variant} breaks rule {rule} (own predicate: false{}) and is still accepted by validate_tx", b.f.name, if a.exact { ", every other predicate unchanged" } else { "" }),
                            json!({"base": bi, "fixture_name": b.f.name, "mutator": mi, "variant": variant, "case_seed": seed.to_string(), "world": world_json(&a.w)}),
                        );
                    } else {
                        ctx.set_insert("unclaimed_rules_accepted(listed_not_counted)", &format!("{era}:{rule}[{variant}]"));
                    }
                    true
                }
                Verdict::Rejected(e) => {
                    ctx.add(&format!("{tag}:{rule}:{era}:rejected"), 1);
                    ctx.set_insert(&format!("matrix:{}", short(b.f.name)), &format!("{rule}[{variant}]=rejected:{}", err_variant(e)));
                    false
                }
                Verdict::Panicked(p) => {
                    // not an acceptance; C33 reports panics
                    ctx.add(&format!("{tag}:{rule}:{era}:panicked"), 1);
                    ctx.set_insert("panic_sites_seen(reported_by_C33)", &p.site());
                    false
                }
                Verdict::Undecodable(_) => {
                    ctx.add(&format!("{tag}:{rule}:{era}:undecodable"), 1);
                    false
                }
            };
            if ctx.want_sample() && !accepted {
                ctx.sample(json!({"fixture": b.f.name, "rule": rule, "variant": variant, "verdict": v.label().chars().take(80).collect::<String>(), "exact": a.exact}));
            }
            Some((a, accepted))
        }
    }
}

fn pair(ctx: &mut Ctx, b: &Base, bi: usize, m1: usize, m2: usize, seed: u64, verbose: bool) {
    let era = era_name(b.f.era);
    let mut rng = Rng::new(seed);
    let Ok(a1) = apply(&mut rng, b, &b.w, m1) else {
        ctx.count("pair:first-not-applicable");
        return;
    };
    // the second mutator works on the result of the first; both rules must end up broken
    let (r2, v2, mf) = MUTATORS[m2];
    if b.ev.get(r2).copied().flatten() != Some(true) || r2 == a1.rule {
        ctx.count("pair:second-not-applicable");
        return;
    }
    let mc = MutCtx { f: &b.f, sdh_ok: b.sdh_ok };
    let Some(w2) = pv::panics::catch(|| mf(&mut rng, &mc, &a1.w).and_then(|w| settle(&b.f, w))).ok().flatten() else {
        ctx.count("pair:second-not-applicable");
        return;
    };
    let ev = eval(&b.f, b.sdh_ok, Some(&b.w), &w2);
    if ev.get(a1.rule).copied().flatten() != Some(false) || ev.get(r2).copied().flatten() != Some(false) {
        ctx.count("pair:not-confirmed");
        return;
    }
    ctx.eval();
    ctx.count("pair:applied");
    ctx.nontrivial(fp_mix(fp(&w2.tx), fp(world_json(&w2).to_string().as_bytes())));
    let v = b.f.validate_with(&w2.tx, &w2.utxo, &w2.env);
    if verbose {
        println!("{} pair {}[{}] + {r2}[{v2}] -> {}", b.f.name, a1.rule, a1.variant, v.label());
    }
    match v {
        Verdict::Accepted => {
            ctx.count("pair:accepted");
            // attribute to the single rules when each is accepted alone, else it is an interaction
            let s1 = b.f.validate_with(&a1.w.tx, &a1.w.utxo, &a1.w.env).accepted();
            let alone2 = apply(&mut Rng::new(seed ^ 0x55), b, &b.w, m2).ok().map(|a| b.f.validate_with(&a.w.tx, &a.w.utxo, &a.w.env).accepted());
            let c1 = claimed_variant(b.f.era, a1.rule, a1.variant);
            let c2 = claimed_variant(b.f.era, r2, v2);
            if s1 && alone2 == Some(true) {
                for (r, c) in [(a1.rule, c1), (r2, c2)] {
                    if c {
                        ctx.violation(&format!("C38:{era}:{}:accepted", rule_class(r, &w2.tx)), &format!("{} with the pair {}+{} is accepted (each is accepted alone too)", b.f.name, a1.variant, v2), json!({"base": bi, "pair": [m1, m2], "case_seed": seed.to_string(), "world": world_json(&w2)}));
                    }
                }
            } else if c1 || c2 {
                let (x, y) = if a1.rule <= r2 { (a1.rule, r2) } else { (r2, a1.rule) };
                ctx.violation(&format!("C38:{era}:pair-only:{x}+{y}:accepted"), &format!("{} with {}+{} is accepted although not both are accepted alone", b.f.name, a1.variant, v2), json!({"base": bi, "pair": [m1, m2], "case_seed": seed.to_string(), "world": world_json(&w2)}));
            }
        }
        Verdict::Rejected(_) => ctx.count("pair:rejected"),
        Verdict::Panicked(p) => {
            ctx.count("pair:panicked");
            ctx.set_insert("panic_sites_seen(reported_by_C33)", &p.site());
        }
        Verdict::Undecodable(_) => ctx.count("pair:undecodable"),
    }
}

fn main() {
    let mut ctx = Ctx::from_args("C38");
    let fixtures = all_rekeyed();
    ctx.note("fixtures_usable", json!(fixtures.len()));
    let mut bases = vec![];
    for f in &fixtures {
        // base construction reports are kept by shard 0 only (to avoid one copy per shard)
        let mut reps = Reports(vec![]);
        if let Some(b) = mk_base(&mut reps, f) {
            bases.push(b);
        }
        if ctx.shard == 0 && ctx.replay.is_none() {
            for r in reps.0 {
                match r {
                    Report::Set(k, v) => ctx.set_insert(k, &v),
                    Report::Violation(s, w, j) => ctx.violation(&s, &w, j),
                }
            }
        }
    }
    if bases.len() < 24 {
        ctx.inconclusive(&format!("only {} of 24 fixtures give a usable base", bases.len()));
    }
    if let Some(p) = ctx.replay.clone() {
        let v: serde_json::Value = serde_json::from_slice(&std::fs::read(p).unwrap()).unwrap();
        let r = &v["replay"];
        if r.get("base").map(|b| b.is_boolean()).unwrap_or(false) {
            println!("base fixture witness: {}", r["fixture_name"]);
            ctx.finish();
        }
        let bi = r["base"].as_u64().unwrap() as usize;
        let seed: u64 = r["case_seed"].as_str().unwrap().parse().unwrap();
        if let Some(pr) = r.get("pair").and_then(|p| p.as_array()) {
            pair(&mut ctx, &bases[bi], bi, pr[0].as_u64().unwrap() as usize, pr[1].as_u64().unwrap() as usize, seed, true);
        } else {
            single(&mut ctx, &bases[bi], bi, r["mutator"].as_u64().unwrap() as usize, seed, true);
        }
        println!("replayed: violations={}", ctx.n_violations());
        ctx.finish();
    }
    // the matrix: every fixture x every mutator, a few random instantiations each
    let reps = if ctx.quick() { 4 } else { 40 };
    let mut idx = 0u64;
    for (bi, b) in bases.iter().enumerate() {
        for mi in 0..MUTATORS.len() {
            for rep in 0..reps {
                idx += 1;
                if !ctx.owns(idx) {
                    continue;
                }
                let seed = Rng::derive(ctx.seed, "c38-single", idx ^ (rep << 40)).next_u64();
                single(&mut ctx, b, bi, mi, seed, false);
            }
        }
    }
    // rules that cannot be exercised with well-known parameters / decodable transactions are listed
    if ctx.shard == 0 {
        for b in &bases {
            for r in RULES {
                if !claimed(b.f.era, r) {
                    ctx.set_insert("not_applicable(rule not claimed for the era)", &format!("{}:{r}", era_name(b.f.era)));
                }
            }
        }
    }
    // random pairs
    let n = ctx.budget(5_000, 300_000);
    for _ in 0..n {
        let bi = ctx.rng.usize_below(bases.len());
        let m1 = ctx.rng.usize_below(MUTATORS.len());
        let m2 = ctx.rng.usize_below(MUTATORS.len());
        let seed = ctx.rng.next_u64();
        pair(&mut ctx, &bases[bi], bi, m1, m2, seed, false);
    }
    let _ = cbor::parse(&[0]);
    ctx.finish();
}
