//! Prints, for every validation fixture, whether the original and the re-keyed version are accepted.
use pv::fixtures::*;
fn main() {
    pv::panics::install();
    for f in all_fixtures() {
        let o = f.validate(&f.tx_bytes);
        let r = f.rekeyed();
        let rv = r.validate(&r.tx_bytes);
        println!(
            "{:62} era={:?} size={} L={} wits={} plutus={} original={} rekeyed={} keys={}",
            f.name, f.era, f.tx_bytes.len(), ledger_size(&f.tx_bytes), vkey_witnesses(&f.tx_bytes).len(), f.plutus, o.label(), rv.label(), r.keys.len()
        );
    }
    println!("--- edit helpers on re-keyed fixtures");
    for r in usable_rekeyed() {
        let t = &r.tx_bytes;
        let ident = replace_body(t, body_node(t)) == *t && replace_wits(t, wits_node(t)) == *t && set_fee(t, fee(t)) == *t;
        let n = output_count(t);
        let last = n - 1;
        let t2 = set_output_coin(&set_fee(t, fee(t) + 1), last, output_coin(t, last) - 1);
        let unsigned = r.validate(&t2);
        let signed = r.validate(&r.resign(&t2));
        let sdh = if r.plutus { script_data_hash_for(&r, t).map(|h| Some(h.to_vec()) == body_get(t, 11).and_then(|n| node_bytes(&n))) } else { None };
        println!("{:62} identity={} fee+1/out-1: unsigned={} resigned={} script_data_hash_reproduced={:?}", r.name, ident, unsigned.label(), signed.label(), sdh);
    }
}
