//! C08 — script integrity hash follows the ledger formula.
//!
//! Oracle (own code only): spans of witness-set keys 5 (redeemers) and 4 (datums) located with the own
//! CBOR walker, language views produced by an own encoder (`pv::txb::language_views_bytes`), hashed with the
//! reference Blake2b-256:   H( redeemer bytes | a0  ,  datum bytes  ,  language views | a0 ).
//! Sections: (A) the five real transactions of the existing test (three-way: own formula, hash in the
//! body, pallas); (B) generated witness sets x {no views, all 8 subsets of V1,V2,V3}; (C) `ScriptData::hash`
//! on directly assembled values; (D) the hash `build_conway_raw` puts into built transactions.
use pallas_primitives::conway::{LanguageViews, ScriptData, WitnessSet};
use pallas_txbuilder::{BuildConway, StagingTransaction};
use pv::cbor::{self, Node, Restyle};
use pv::txb::*;
use pv::*;
use std::collections::BTreeMap;

type Views = BTreeMap<u8, Vec<i64>>;

fn lang_label(v: &Option<Views>) -> String {
    match v {
        None => "none".into(),
        Some(m) if m.is_empty() => "empty".into(),
        Some(m) => m.keys().map(|k| format!("V{}", k + 1)).collect::<Vec<_>>().join("+"),
    }
}

// ------------------------------------------------------------------------------------------
// witness-set generator
// ------------------------------------------------------------------------------------------

#[derive(Clone, Debug)]
struct Wit {
    bytes: Vec<u8>,
    /// "none" | "list" | "map"
    red_form: &'static str,
    /// "ledger" (definite, minimal heads, map keys ascending) or the one non-canonical feature applied
    red_style: &'static str,
    /// encoding of the same redeemers in ledger style (what a re-encoding produces)
    red_base: Option<Vec<u8>>,
    dat_style: &'static str,
}

fn gen_redeemer_parts(rng: &mut Rng) -> (u64, u64, Node, (u64, u64)) {
    let tag = rng.below(6);
    let index = match rng.below(4) {
        0 => rng.below(3),
        1 => rng.below(300),
        2 => *rng.pick(&[23u64, 24, 255, 256, 65535, 65536, u32::MAX as u64]),
        _ => rng.below(1 << 32),
    };
    (tag, index, gen_plutus(rng, 2), (rng.edgy_u64(), rng.edgy_u64()))
}

fn widen(v: u64, rng: &mut Rng) -> Node {
    let min = if v < 24 { 0 } else if v < 256 { 1 } else if v < 65536 { 2 } else if v < (1 << 32) { 4 } else { 8 };
    let opts: Vec<u8> = [1u8, 2, 4, 8].iter().copied().filter(|w| *w > min).collect();
    if opts.is_empty() {
        Node::UInt(v, 0)
    } else {
        Node::UInt(v, *rng.pick(&opts))
    }
}

/// returns (node as it appears, ledger-style node, form, style)
fn gen_redeemers(rng: &mut Rng, allow_noncanonical: bool) -> (Node, Node, &'static str, &'static str) {
    let as_map = rng.bool();
    let n = if rng.chance(1, 12) { 0 } else { 1 + rng.usize_below(4) };
    let mut parts: Vec<(u64, u64, Node, (u64, u64))> = (0..n).map(|_| gen_redeemer_parts(rng)).collect();
    if as_map {
        parts.sort_by_key(|p| (p.0, p.1));
        parts.dedup_by_key(|p| (p.0, p.1));
    }
    let ex = |e: &(u64, u64)| Node::arr(vec![Node::u(e.0), Node::u(e.1)]);
    let base = if as_map {
        Node::map(parts.iter().map(|p| (Node::arr(vec![Node::u(p.0), Node::u(p.1)]), Node::arr(vec![p.2.clone(), ex(&p.3)]))).collect())
    } else {
        Node::arr(parts.iter().map(|p| Node::arr(vec![Node::u(p.0), Node::u(p.1), p.2.clone(), ex(&p.3)])).collect())
    };
    let form = if as_map { "map" } else { "list" };
    if !allow_noncanonical || parts.is_empty() && rng.bool() {
        return (base.clone(), base, form, "ledger");
    }
    let style = *rng.pick(&["outer-indef", "item-indef", "nonminimal-int", "unsorted", "outer-nonminimal-len", "data-nonminimal-int"]);
    let shown = match (style, as_map) {
        ("outer-indef", false) => match &base {
            Node::Array(xs, _) => Node::ArrayIndef(xs.clone()),
            _ => unreachable!(),
        },
        ("outer-indef", true) => match &base {
            Node::Map(xs, _) => Node::MapIndef(xs.clone()),
            _ => unreachable!(),
        },
        ("outer-nonminimal-len", false) => match &base {
            Node::Array(xs, _) => Node::Array(xs.clone(), *rng.pick(&[1u8, 2, 4, 8])),
            _ => unreachable!(),
        },
        ("outer-nonminimal-len", true) => match &base {
            Node::Map(xs, _) => Node::Map(xs.clone(), *rng.pick(&[1u8, 2, 4, 8])),
            _ => unreachable!(),
        },
        ("item-indef", false) if !parts.is_empty() => {
            let k = rng.usize_below(parts.len());
            Node::arr(
                parts
                    .iter()
                    .enumerate()
                    .map(|(i, p)| {
                        let items = vec![Node::u(p.0), Node::u(p.1), p.2.clone(), ex(&p.3)];
                        if i == k {
                            Node::ArrayIndef(items)
                        } else {
                            Node::arr(items)
                        }
                    })
                    .collect(),
            )
        }
        ("item-indef", true) if !parts.is_empty() => {
            let k = rng.usize_below(parts.len());
            Node::map(
                parts
                    .iter()
                    .enumerate()
                    .map(|(i, p)| {
                        let v = vec![p.2.clone(), ex(&p.3)];
                        (Node::arr(vec![Node::u(p.0), Node::u(p.1)]), if i == k { Node::ArrayIndef(v) } else { Node::arr(v) })
                    })
                    .collect(),
            )
        }
        ("nonminimal-int", _) if !parts.is_empty() => {
            let k = rng.usize_below(parts.len());
            let which = rng.below(3);
            let mk = |i: usize, p: &(u64, u64, Node, (u64, u64)), rng: &mut Rng| -> (Node, Node, Node) {
                if i != k {
                    return (Node::u(p.1), Node::u(p.3 .0), Node::u(p.3 .1));
                }
                match which {
                    0 => (widen(p.1, rng), Node::u(p.3 .0), Node::u(p.3 .1)),
                    1 => (Node::u(p.1), widen(p.3 .0, rng), Node::u(p.3 .1)),
                    _ => (Node::u(p.1), Node::u(p.3 .0), widen(p.3 .1, rng)),
                }
            };
            if as_map {
                Node::map(
                    parts
                        .iter()
                        .enumerate()
                        .map(|(i, p)| {
                            let (ix, m, s) = mk(i, p, rng);
                            (Node::arr(vec![Node::u(p.0), ix]), Node::arr(vec![p.2.clone(), Node::arr(vec![m, s])]))
                        })
                        .collect(),
                )
            } else {
                Node::arr(
                    parts
                        .iter()
                        .enumerate()
                        .map(|(i, p)| {
                            let (ix, m, s) = mk(i, p, rng);
                            Node::arr(vec![Node::u(p.0), ix, p.2.clone(), Node::arr(vec![m, s])])
                        })
                        .collect(),
                )
            }
        }
        ("unsorted", true) if parts.len() >= 2 => match &base {
            Node::Map(xs, _) => {
                let mut ys = xs.clone();
                let i = rng.usize_below(ys.len() - 1);
                ys.swap(i, i + 1);
                Node::Map(ys, 0)
            }
            _ => unreachable!(),
        },
        ("data-nonminimal-int", _) if !parts.is_empty() => {
            // replace the data of one redeemer by a list holding a widened integer
            let k = rng.usize_below(parts.len());
            let v = rng.below(1000);
            let odd = Node::arr(vec![widen(v, rng)]);
            let plain = Node::arr(vec![Node::u(v)]);
            let build = |d: &Node| -> Node {
                if as_map {
                    Node::map(parts.iter().enumerate().map(|(i, p)| (Node::arr(vec![Node::u(p.0), Node::u(p.1)]), Node::arr(vec![if i == k { d.clone() } else { p.2.clone() }, ex(&p.3)]))).collect())
                } else {
                    Node::arr(parts.iter().enumerate().map(|(i, p)| Node::arr(vec![Node::u(p.0), Node::u(p.1), if i == k { d.clone() } else { p.2.clone() }, ex(&p.3)])).collect())
                }
            };
            return (build(&odd), build(&plain), form, "data-nonminimal-int");
        }
        _ => return (base.clone(), base, form, "ledger"),
    };
    (shown, base, form, style)
}

/// The `[index, fields]` pair under tag 102 stays a definite array: pallas' PlutusData decoder does not
/// consume the break of an indefinite pair and mis-frames everything after it (a decoder defect outside
/// C08's mechanism; exercised once, as a labelled directed case, in `main`).
fn definite_pair_102(n: &Node) -> Node {
    match n {
        Node::Tag(102, w, inner) => match &**inner {
            Node::ArrayIndef(xs) | Node::Array(xs, _) => Node::Tag(102, *w, Box::new(Node::Array(xs.iter().map(definite_pair_102).collect(), 0))),
            other => Node::Tag(102, *w, Box::new(definite_pair_102(other))),
        },
        Node::Tag(t, w, inner) => Node::Tag(*t, *w, Box::new(definite_pair_102(inner))),
        Node::Array(xs, w) => Node::Array(xs.iter().map(definite_pair_102).collect(), *w),
        Node::ArrayIndef(xs) => Node::ArrayIndef(xs.iter().map(definite_pair_102).collect()),
        Node::Map(xs, w) => Node::Map(xs.iter().map(|(k, v)| (definite_pair_102(k), definite_pair_102(v))).collect(), *w),
        Node::MapIndef(xs) => Node::MapIndef(xs.iter().map(|(k, v)| (definite_pair_102(k), definite_pair_102(v))).collect()),
        other => other.clone(),
    }
}

fn gen_witness(rng: &mut Rng, allow_noncanonical: bool) -> Wit {
    let mut entries: Vec<(u64, Node)> = vec![];
    if rng.chance(1, 3) {
        let n = 1 + rng.usize_below(2);
        let ws = Node::arr((0..n).map(|_| Node::arr(vec![Node::bytes(&rng.bytes(32)), Node::bytes(&rng.bytes(64))])).collect());
        entries.push((0, if rng.bool() { Node::tag(258, ws) } else { ws }));
    }
    if rng.chance(1, 4) {
        let s = Node::arr(vec![gen_native(rng, 1)]);
        entries.push((1, if rng.bool() { Node::tag(258, s) } else { s }));
    }
    for key in [3u64, 6, 7] {
        if rng.chance(1, 5) {
            let n = 1 + rng.usize_below(40);
            let s = Node::arr(vec![Node::bytes(&rng.bytes(n))]);
            entries.push((key, if rng.bool() { Node::tag(258, s) } else { s }));
        }
    }
    // redeemers
    let (mut red_form, mut red_style, mut red_base) = ("none", "ledger", None);
    if rng.chance(3, 4) {
        let (shown, base, form, style) = gen_redeemers(rng, allow_noncanonical);
        red_form = form;
        red_style = style;
        red_base = Some(base.to_vec());
        entries.push((5, shown));
    }
    // datums
    let mut dat_style = "none";
    if rng.chance(3, 5) || (red_form == "none" && rng.chance(3, 4)) {
        let n = 1 + rng.usize_below(3);
        let mut items: Vec<Node> = (0..n).map(|_| gen_plutus(rng, 3)).collect();
        let elem_restyled = rng.chance(1, 3);
        if elem_restyled {
            items = items.iter().map(|d| definite_pair_102(&cbor::restyle(d, rng, &Restyle { width_pct: 30, indef_pct: 20, chunk_pct: 20, ..Restyle::NONE }).0)).collect();
        }
        let (node, st) = match rng.below(6) {
            0 => (Node::arr(items), "array"),
            1 => (Node::tag(258, Node::arr(items)), "tag258+array"),
            2 => (Node::ArrayIndef(items), "indef-array"),
            3 => (Node::tag(258, Node::ArrayIndef(items)), "tag258+indef-array"),
            4 => (Node::Array(items, *rng.pick(&[1u8, 2, 4, 8])), "array-wide-len"),
            _ => (Node::Tag(258, *rng.pick(&[4u8, 8]), Box::new(Node::arr(items))), "wide-tag258+array"),
        };
        dat_style = st;
        if elem_restyled {
            dat_style = match st {
                "array" => "array/elements-restyled",
                "tag258+array" => "tag258+array/elements-restyled",
                "indef-array" => "indef-array/elements-restyled",
                "tag258+indef-array" => "tag258+indef-array/elements-restyled",
                "array-wide-len" => "array-wide-len/elements-restyled",
                _ => "wide-tag258+array/elements-restyled",
            };
        }
        entries.push((4, node));
    }
    if rng.chance(1, 2) {
        rng.shuffle(&mut entries);
    } else {
        entries.sort_by_key(|e| e.0);
    }
    let kv: Vec<(Node, Node)> = entries.into_iter().map(|(k, v)| (Node::u(k), v)).collect();
    let top = if rng.chance(1, 6) { Node::MapIndef(kv) } else { Node::map(kv) };
    Wit { bytes: top.to_vec(), red_form, red_style, red_base, dat_style }
}

// ------------------------------------------------------------------------------------------
// checks
// ------------------------------------------------------------------------------------------

fn spans(ws: &[u8]) -> Result<(Option<Vec<u8>>, Option<Vec<u8>>), String> {
    let it = cbor::parse(ws).map_err(|e| format!("{e:?}"))?;
    if !it.is_map() {
        return Err("witness set is not a map".into());
    }
    Ok((it.map_get_uint(5).map(|x| x.bytes(ws).to_vec()), it.map_get_uint(4).map(|x| x.bytes(ws).to_vec())))
}

fn check_witness(ctx: &mut Ctx, w: &Wit, views: &Option<Views>, source: &str) {
    ctx.eval();
    let (red, dat) = match spans(&w.bytes) {
        Ok(x) => x,
        Err(e) => {
            ctx.inconclusive(&format!("own walker rejected a generated witness set: {e}"));
            return;
        }
    };
    let rp = json!({"witness_set": hex::encode(&w.bytes), "views": views, "source": source});
    let lv = views.clone().map(LanguageViews);
    let bytes = w.bytes.clone();
    let r = pv::panics::catch(|| {
        let ws: WitnessSet = match pallas_codec::minicbor::decode(&bytes) {
            Ok(x) => x,
            Err(e) => return Err(e.to_string()),
        };
        let sd = ScriptData::build_for(&ws, &lv);
        Ok(sd.map(|sd| {
            let h: [u8; 32] = *sd.hash();
            // (C) the same parts with the views forced in / out, hashed directly
            let forced = ScriptData { redeemers: sd.redeemers.clone(), datums: sd.datums.clone(), language_views: lv.clone() };
            let hf: [u8; 32] = *forced.hash();
            (h, hf, sd.redeemers.is_some())
        }))
    });
    let res = match r {
        Err(p) => {
            ctx.violation(&format!("panic:build_for/hash:{}", p.site()), &format!("ScriptData::build_for(..).hash() panicked: {} [witness set {}]", p.msg, hex_short(&w.bytes)), rp);
            return;
        }
        Ok(Err(e)) => {
            ctx.count("witness_set_rejected_by_decoder");
            ctx.set_insert("decoder_rejections", &format!("{}:{}:{}", w.red_form, w.red_style, e.chars().take(60).collect::<String>()));
            return;
        }
        Ok(Ok(x)) => x,
    };
    ctx.count("build_for_calls");
    let neither = red.is_none() && dat.is_none();
    let langs = lang_label(views);
    match (neither, res) {
        (true, None) => {
            ctx.count("no_hash_for_neither");
        }
        (true, Some(_)) => ctx.violation("C08:hash-produced-without-redeemers-and-datums", &format!("build_for returned Some for a witness set with neither redeemers nor datums [{}]", hex_short(&w.bytes)), rp),
        (false, None) => ctx.violation(&format!("C08:no-hash:redeemers={}:datums={}", w.red_form, dat.is_some()), &format!("build_for returned None although script data is present [{}]", hex_short(&w.bytes)), rp),
        (false, Some((h, hf, _))) => {
            // ledger rule. A transaction without redeemers executes no Plutus script: its set of language
            // views is empty (build_for drops the supplied views in that case)
            let eff_views = if red.is_some() { views.as_ref() } else { None };
            if red.is_none() && views.is_some() {
                ctx.count("datum_only_with_views_supplied");
            }
            let want = script_integrity_hash(red.as_deref(), dat.as_deref(), eff_views);
            let nlangs = views.as_ref().map(|v| v.len()).unwrap_or(0);
            let has_v1 = views.as_ref().map(|v| v.contains_key(&0)).unwrap_or(false);
            if h != want {
                // is it exactly "hash of the re-encoded redeemers"?
                let reenc = w.red_base.as_ref().map(|b| script_integrity_hash(Some(b), dat.as_deref(), eff_views));
                if w.red_style != "ledger" && reenc == Some(h) {
                    ctx.count("noncanonical_redeemers_hashed_after_reencoding");
                    ctx.violation(
                        &format!("C08:redeemers-noncanonical:{}-{}", w.red_form, w.red_style),
                        &format!(
                            "redeemers appear as {} but the hash covers their re-encoding {}: got {}, ledger formula over the bytes as they appeared gives {} [witness set {}, views {langs}]",
                            hex_short(red.as_ref().unwrap()),
                            hex_short(w.red_base.as_ref().unwrap()),
                            hex::encode(h),
                            hex::encode(want),
                            hex_short(&w.bytes)
                        ),
                        rp.clone(),
                    );
                } else {
                    ctx.violation(
                        &format!("C08:hash-mismatch:redeemers={}/{}:datums={}:v1={}:nlangs={}", w.red_form, w.red_style, if dat.is_some() { "yes" } else { "no" }, has_v1, nlangs),
                        &format!("build_for(..).hash() = {}, ledger formula = {} [witness set {}, datum style {}, views {langs}]", hex::encode(h), hex::encode(want), hex_short(&w.bytes), w.dat_style),
                        rp.clone(),
                    );
                }
            } else {
                ctx.count("hash_agrees");
                if w.red_style != "ledger" {
                    ctx.count("noncanonical_redeemers_hash_agrees");
                }
            }
            // (C) direct hash(): views always included as given
            if w.red_style == "ledger" {
                ctx.eval();
                let want_f = script_integrity_hash(red.as_deref(), dat.as_deref(), views.as_ref());
                if hf != want_f {
                    ctx.violation(
                        &format!("C08:direct-hash-mismatch:redeemers={}:datums={}:v1={}:nlangs={}", w.red_form, if dat.is_some() { "yes" } else { "no" }, has_v1, nlangs),
                        &format!("ScriptData{{..}}.hash() = {}, formula = {} [witness set {}, views {langs}]", hex::encode(hf), hex::encode(want_f), hex_short(&w.bytes)),
                        rp.clone(),
                    );
                } else {
                    ctx.count("direct_hash_agrees");
                }
            }
            ctx.set_insert("language_subsets_seen", &langs);
            ctx.set_insert("redeemer_forms_seen", &format!("{}/{}", w.red_form, w.red_style));
            ctx.set_insert("datum_styles_seen", w.dat_style);
            if nlangs >= 2 || has_v1 || (red.is_none() && dat.is_some()) {
                ctx.nontrivial(fp_mix(fp(&w.bytes), fp(serde_json::to_string(views).unwrap().as_bytes())));
            }
            if ctx.want_sample() && nlangs >= 2 && red.is_some() && dat.is_some() && w.red_style == "ledger" {
                ctx.sample(json!({"witness_set": hex_short(&w.bytes), "languages": langs, "cost_model_lengths": views.as_ref().map(|v| v.values().map(|c| c.len()).collect::<Vec<_>>()), "hash": hex::encode(h)}));
            }
        }
    }
}

fn real_vectors(ctx: &mut Ctx) {
    use pv::costmodels::{V1, V2, V3};
    let mk = |xs: &[(u8, &[i64])]| -> Option<Views> { Some(xs.iter().map(|(k, v)| (*k, v.to_vec())).collect()) };
    let table: Vec<(&str, Option<Views>)> = vec![
        ("conway1.tx", mk(&[(1, &V2)])),
        ("conway2.tx", mk(&[(0, &V1)])),
        ("hydra-init.tx", mk(&[(1, &V2)])),
        ("datum-only.tx", None),
        ("conway9.tx", mk(&[(0, &V1), (1, &V2), (2, &V3)])),
    ];
    for (name, views) in table {
        let path = pv::corpus::test_data().join(name);
        let Ok(s) = std::fs::read_to_string(&path) else {
            ctx.inconclusive(&format!("test vector {name} not found"));
            continue;
        };
        let tx = hex::decode(s.trim()).expect("hex");
        let it = cbor::parse(&tx).expect("real tx is well-formed");
        let body = &it.children[0];
        let wit = &it.children[1];
        let in_body = body.map_get_uint(11).map(|x| x.str_payload(&tx));
        let red = wit.map_get_uint(5).map(|x| x.bytes(&tx).to_vec());
        let dat = wit.map_get_uint(4).map(|x| x.bytes(&tx).to_vec());
        let eff = if red.is_some() { views.as_ref() } else { None };
        let want = script_integrity_hash(red.as_deref(), dat.as_deref(), eff);
        // external anchor for the oracle: the hash the chain accepted
        if in_body.as_deref() != Some(&want[..]) {
            ctx.inconclusive(&format!("oracle self-check failed on {name}: own formula {} != hash in the body {:?}", hex::encode(want), in_body.map(hex::encode)));
            continue;
        }
        ctx.count("real_vectors_oracle_matches_chain");
        ctx.eval();
        let lv = views.clone().map(LanguageViews);
        let txc = tx.clone();
        let r = pv::panics::catch(|| {
            let t: pallas_primitives::conway::Tx = pallas_codec::minicbor::decode(&txc).expect("real tx decodes");
            let h: Option<[u8; 32]> = ScriptData::build_for(&t.transaction_witness_set, &lv).map(|sd| *sd.hash());
            h
        });
        match r {
            Ok(Some(h)) if h == want => {
                ctx.count("real_vectors_agree");
                ctx.nontrivial(fp(&tx));
            }
            Ok(other) => ctx.violation(&format!("C08:real-vector:{name}"), &format!("pallas {:?}, formula and chain {}", other.map(hex::encode), hex::encode(want)), json!({"vector": name})),
            Err(p) => ctx.violation(&format!("panic:real-vector:{}", p.site()), &p.msg, json!({"vector": name})),
        }
    }
}

/// (D) the script data hash inside transactions produced by the builder
fn builder_case(ctx: &mut Ctx, case_seed: u64, verbose: bool) {
    let mut rng = Rng::new(case_seed);
    let pools = Pools::new(&mut rng);
    let cfg = GenCfg { poison: false, rejects: false };
    let mut tx = StagingTransaction::new();
    let mut m = Model::default();
    let nops = 1 + rng.usize_below(14);
    for _ in 0..nops {
        // only the operations that feed the script data
        let op = loop {
            let op = gen_op(&mut rng, &pools, &m, &cfg);
            if matches!(op, Op::Input(_) | Op::Mint(..) | Op::Datum(_) | Op::RemoveDatum(_) | Op::SpendRedeemer(..) | Op::MintRedeemer(..) | Op::RemoveSpendRedeemer(_) | Op::RemoveMintRedeemer(_) | Op::LangViews(_) | Op::AddLanguage(..) | Op::Output(_)) {
                break op;
            }
        };
        if verbose {
            println!("{op:?}");
        }
        m.apply(&op, true);
        let cur = tx.clone();
        match pv::panics::catch(|| apply_real(cur, &op)) {
            Ok(t) => tx = t,
            Err(_) => return,
        }
    }
    let built = match pv::panics::catch(move || tx.build_conway_raw()) {
        Ok(Ok(b)) => b,
        _ => {
            ctx.count("builder_cases_not_built");
            return;
        }
    };
    ctx.eval();
    ctx.count("builder_txs_checked");
    let bytes = built.tx_bytes.0.clone();
    let p = match read_tx(&bytes) {
        Ok(p) => p,
        Err(e) => {
            ctx.inconclusive(&format!("built tx unreadable: {e}"));
            return;
        }
    };
    let red = p.redeemers_span.map(|(a, b)| bytes[a..b].to_vec());
    let dat = p.datums_span.map(|(a, b)| bytes[a..b].to_vec());
    let views = m.language_views.clone();
    let rp = json!({"builder_case_seed": case_seed.to_string(), "tx": hex::encode(&bytes)});
    if verbose {
        println!("built {} ; redeemers {:?} datums {:?} views {} sdh {:?}", hex::encode(&bytes), red.as_ref().map(hex::encode), dat.as_ref().map(hex::encode), lang_label(&views), p.sdh);
    }
    let Some(v) = views else {
        // no set of cost models was supplied to the builder: outside the quantifier
        ctx.count(if p.sdh.is_none() { "builder_no_views_no_hash" } else { "builder_no_views_but_hash" });
        return;
    };
    let neither = red.is_none() && dat.is_none();
    match (&p.sdh, neither) {
        (None, true) => ctx.count("builder_neither_no_hash"),
        (Some(h), true) => {
            let legacy = {
                let mut buf = vec![0x80];
                buf.extend(language_views_bytes(&v));
                pv::refhash::blake2b_256(&buf)
            };
            let cls = if h.0 == legacy { "hash-of-empty-list-and-views" } else { "other" };
            ctx.violation(
                &format!("C08:txbuilder:hash-produced-without-redeemers-and-datums:{cls}"),
                &format!("language views {} staged, no redeemers, no datums: built body carries script_data_hash {h:?} (the ledger expects none) [tx {}]", lang_label(&Some(v.clone())), hex_short(&bytes)),
                rp,
            );
        }
        (None, false) => ctx.violation("C08:txbuilder:no-hash-although-script-data-and-views", &format!("tx {}", hex_short(&bytes)), rp),
        (Some(h), false) => {
            let eff = if red.is_some() { Some(&v) } else { None };
            let want = script_integrity_hash(red.as_deref(), dat.as_deref(), eff);
            if h.0 == want {
                ctx.count("builder_hash_agrees");
                if v.len() >= 2 || v.contains_key(&0) {
                    ctx.nontrivial(fp(&bytes));
                }
            } else if red.is_none() {
                let legacy = {
                    let mut buf = vec![0x80];
                    buf.extend(dat.as_ref().unwrap());
                    buf.extend(language_views_bytes(&v));
                    pv::refhash::blake2b_256(&buf)
                };
                let cls = if h.0 == legacy { "hash-starts-with-empty-list-80" } else { "other" };
                ctx.violation(
                    &format!("C08:txbuilder:datums-without-redeemers:{cls}"),
                    &format!("datums but no redeemers: built hash {h:?}; ledger formula H(a0 | datums | a0) = {}; (H(a0 | datums | views) = {}) [tx {}]", hex::encode(want), hex::encode(script_integrity_hash(None, dat.as_deref(), Some(&v))), hex_short(&bytes)),
                    rp,
                );
            } else {
                ctx.violation(
                    &format!("C08:txbuilder:hash-mismatch:datums={}:v1={}:nlangs={}", dat.is_some(), v.contains_key(&0), v.len()),
                    &format!("built hash {h:?}, ledger formula over the built witness set {} [tx {}]", hex::encode(want), hex_short(&bytes)),
                    rp,
                );
            }
        }
    }
}

fn witness_case(ctx: &mut Ctx, case_seed: u64) {
    let mut rng = Rng::new(case_seed);
    let noncanon = rng.chance(1, 4);
    let w = gen_witness(&mut rng, noncanon);
    ctx.count(if w.red_style == "ledger" { "witness_sets_ledger_style" } else { "witness_sets_noncanonical_redeemers" });
    let cms: Vec<Vec<i64>> = (0..3).map(|_| gen_cost_model(&mut rng)).collect();
    check_witness(ctx, &w, &None, "generated");
    for mask in 0..8u8 {
        let mut v = Views::new();
        for l in 0..3u8 {
            if mask & (1 << l) != 0 {
                v.insert(l, cms[l as usize].clone());
            }
        }
        check_witness(ctx, &w, &Some(v), "generated");
    }
}

fn main() {
    let mut ctx = Ctx::from_args("C08");
    if let Some(p) = ctx.replay.clone() {
        let v: serde_json::Value = serde_json::from_slice(&std::fs::read(p).unwrap()).unwrap();
        let r = &v["replay"];
        if let Some(s) = r["builder_case_seed"].as_str() {
            builder_case(&mut ctx, s.parse().unwrap(), true);
        } else if let Some(ws) = r["witness_set"].as_str() {
            let views: Option<Views> = serde_json::from_value(r["views"].clone()).unwrap();
            let bytes = hex::decode(ws).unwrap();
            let (red, dat) = spans(&bytes).unwrap();
            println!("redeemer bytes: {:?}\ndatum bytes: {:?}\nviews: {}", red.as_ref().map(hex::encode), dat.as_ref().map(hex::encode), lang_label(&views));
            let w = Wit { bytes, red_form: "replay", red_style: "ledger", red_base: None, dat_style: "replay" };
            check_witness(&mut ctx, &w, &views, "replay");
        } else {
            real_vectors(&mut ctx);
        }
        println!("replayed: {} violation signature(s)", ctx.n_violations());
        ctx.finish();
    }
    if ctx.shard == 0 {
        real_vectors(&mut ctx);
        // the two witness sets of the design note: same redeemer, definite vs indefinite list
        for (h, style) in [("a1058184000000820102", "ledger"), ("a1059f84000000820102ff", "outer-indef")] {
            let w = Wit { bytes: hex::decode(h).unwrap(), red_form: "list", red_style: style, red_base: Some(hex::decode("8184000000820102").unwrap()), dat_style: "none" };
            check_witness(&mut ctx, &w, &Some(Views::from([(1u8, vec![1i64, -2, 3])])), "design-note");
        }
    }
    if ctx.shard == 0 {
        // labelled directed case: datum = constructor in the general form (tag 102) whose [index, fields]
        // pair is an indefinite-length array, followed by a second datum
        let ws = hex::decode("a1049fd8669f0080ff01ff").unwrap();
        let wsc = ws.clone();
        ctx.eval();
        let got = pv::panics::catch(move || {
            let w: WitnessSet = pallas_codec::minicbor::decode(&wsc).ok()?;
            ScriptData::build_for(&w, &None).map(|sd| *sd.hash())
        });
        let (_, dat) = spans(&ws).unwrap();
        let want = script_integrity_hash(None, dat.as_deref(), None);
        let truncated = script_integrity_hash(None, Some(&hex::decode("9fd8669f0080ff").unwrap()), None);
        match got {
            Ok(Some(h)) if h == want => ctx.count("constr102_indefinite_pair_ok"),
            Ok(Some(h)) if h == truncated => ctx.violation(
                "C08:datums-misframed:constr102-indefinite-pair",
                &format!("witness set a1049fd8669f0080ff01ff (datums [Constr#102 given as indefinite pair [0, []], 1]): hash {} covers only 9fd8669f0080ff; the datum bytes as they appeared are 9fd8669f0080ff01ff -> {}", hex::encode(h), hex::encode(want)),
                json!({"witness_set": "a1049fd8669f0080ff01ff", "views": null, "source": "directed"}),
            ),
            Ok(other) => ctx.violation("C08:datums-misframed:constr102-indefinite-pair:other", &format!("got {:?}, want {}", other.map(hex::encode), hex::encode(want)), json!({"witness_set": "a1049fd8669f0080ff01ff", "views": null})),
            Err(p) => ctx.violation(&format!("panic:build_for/hash:{}", p.site()), &p.msg, json!({"witness_set": "a1049fd8669f0080ff01ff", "views": null})),
        }
    }
    let n = ctx.budget(3_000, 500_000);
    for _ in 0..n {
        let cs = ctx.rng.next_u64();
        witness_case(&mut ctx, cs);
    }
    let nb = ctx.budget(4_000, 300_000);
    for _ in 0..nb {
        let cs = ctx.rng.next_u64();
        builder_case(&mut ctx, cs, false);
    }
    ctx.finish();
}
