//! C36 — fee and size limits use the ledger's transaction size.
//!
//! Oracle (own): L = 1 + |body| + |witness set| + (|aux| or 1), spans located by the own CBOR walker.
//!   * `MultiEraTx::size()` must equal L;
//!   * with the size limit moved to L the transaction must be accepted, with L-1 rejected;
//!   * with the fee parameters moved so that a*L+b == fee it must be accepted, with b+1 rejected;
//!   * re-priced to fee = a*L+b (output compensated, re-signed) accepted, one lovelace lower rejected
//!     (the predicate is re-evaluated on the edited bytes, so an encoding-width change of the fee is accounted for).
//! Workload: every post-Byron fixture x {as is, aux removed / metadata added} (executed completely), then
//! random metadata paddings and fee coefficients.
use pallas_traverse::{Era, MultiEraTx};
use pv::cbor::Node;
use pv::fixtures::*;
use pv::*;

fn era_group(e: Era) -> &'static str {
    match e {
        Era::Byron => "byron",
        Era::Shelley | Era::Allegra | Era::Mary => "shelley_ma",
        Era::Alonzo => "alonzo",
        Era::Babbage => "babbage",
        _ => "conway",
    }
}

fn delta_str(d: i64) -> String {
    if d == 0 {
        "L".into()
    } else if d > 0 {
        format!("L+{d}")
    } else {
        format!("L{d}")
    }
}

/// metadata `{674: [ "xxxx..", .. ]}` whose encoding grows with n
fn metadata(n: usize, rng: &mut Rng) -> Node {
    let mut strs = vec![];
    let mut left = n;
    loop {
        let k = left.min(64);
        let s: String = (0..k).map(|_| (b'a' + rng.below(26) as u8) as char).collect();
        strs.push(Node::text(&s));
        if left <= 64 {
            break;
        }
        left -= k;
    }
    Node::map(vec![(Node::u(674), Node::arr(strs))])
}

#[derive(Clone)]
struct Case<'a> {
    f: &'a Fixture,
    tx: Vec<u8>,
    variant: String,
}

fn replay_json(c: &Case, extra: serde_json::Value) -> serde_json::Value {
    json!({"fixture": c.f.name, "variant": c.variant, "tx": hexs(&c.tx), "detail": extra})
}

fn verdict_violation(ctx: &mut Ctx, c: &Case, v: &Verdict, what: &str) -> bool {
    if let Verdict::Panicked(p) = v {
        ctx.violation(&format!("panic:validate_tx:{}", p.site()), &format!("{}: validate_tx panicked ({}) on {} [{}]", what, p.msg, c.f.name, c.variant), replay_json(c, json!({"what": what})));
        return true;
    }
    if let Verdict::Undecodable(e) = v {
        ctx.inconclusive(&format!("harness-built transaction does not decode ({e}) for {} [{}]", c.f.name, c.variant));
        return true;
    }
    false
}

/// smallest accepted size limit in [L-6, L+6] (None if the verdicts are not monotone or nothing is accepted)
fn effective_size_by_limit(c: &Case, env0: &EnvSpec, l: u64) -> Option<i64> {
    let mut first_ok: Option<i64> = None;
    let mut seen_ok = false;
    for d in -6i64..=6 {
        let mut e = env0.clone();
        e.set_max_tx_size((l as i64 + d) as u64);
        let ok = c.f.validate_with(&c.tx, &c.f.utxo, &e).accepted();
        if ok && !seen_ok {
            first_ok = Some(d);
            seen_ok = true;
        }
        if !ok && seen_ok {
            return None;
        }
    }
    first_ok
}

/// size S such that fee = 1*S + b is the acceptance threshold, relative to L (a = 1 scan)
fn effective_size_by_fee(c: &Case, env0: &EnvSpec, l: u64, fee: u64) -> Option<i64> {
    // with a = 1: accepted iff fee >= S + b  <=>  b <= fee - S. Largest accepted b gives S.
    let mut last_ok: Option<i64> = None;
    let mut seen_rej = false;
    for d in -6i64..=6 {
        // candidate S = L + d  -> b = fee - S
        let s = l as i64 + d;
        let b = fee as i64 - s;
        if b < 0 {
            return None;
        }
        let mut e = env0.clone();
        e.set_minfee(1, b as u64);
        let ok = c.f.validate_with(&c.tx, &c.f.utxo, &e).accepted();
        // b decreases as d grows: rejected for small d (b too large), accepted from d = S_eff - L on
        if ok && last_ok.is_none() {
            last_ok = Some(d);
        }
        if !ok && last_ok.is_some() {
            seen_rej = true;
        }
    }
    if seen_rej {
        None
    } else {
        last_ok
    }
}

fn check_case(ctx: &mut Ctx, c: &Case, a_choices: &[u64], do_tx_edit: bool) {
    let f = c.f;
    let grp = era_group(f.era);
    let has_aux = aux(&c.tx).is_some();
    let auxs = if has_aux { "yes" } else { "no" };
    let l = ledger_size(&c.tx) as u64;
    let fee_v = fee(&c.tx);
    ctx.count(&format!("cases_{grp}"));
    ctx.max("largest_L", l);

    // ---- traversal size -----------------------------------------------------------------
    let era = f.era;
    let txb = c.tx.clone();
    match panics::catch(move || MultiEraTx::decode_for_era(era, &txb).map(|t| t.size())) {
        Ok(Ok(s)) => {
            ctx.eval();
            ctx.count("traverse_size_compared");
            if s as u64 != l {
                let d = s as i64 - l as i64;
                ctx.violation(
                    &format!("C36:traverse-size:era={grp}:aux={auxs}:reported={}", delta_str(d)),
                    &format!("{} [{}]: MultiEraTx::size() = {s}, ledger size by the own walker = {l}", f.name, c.variant),
                    replay_json(c, json!({"check": "traverse"})),
                );
            }
        }
        Ok(Err(e)) => {
            ctx.inconclusive(&format!("variant does not decode: {e}"));
            return;
        }
        Err(p) => {
            ctx.violation(&format!("panic:MultiEraTx::size:{}", p.site()), &format!("size() panicked: {}", p.msg), replay_json(c, json!({"check": "traverse"})));
            return;
        }
    }

    // ---- baseline: no fee constraint, no size constraint ---------------------------------
    let mut env0 = f.env.clone();
    env0.set_minfee(0, 0);
    env0.set_max_tx_size(1 << 24);
    let base = f.validate_with(&c.tx, &f.utxo, &env0);
    ctx.eval();
    if verdict_violation(ctx, c, &base, "baseline") {
        return;
    }
    if !base.accepted() {
        ctx.count("variant_unusable");
        ctx.set_insert("variant_unusable_reasons", &format!("{} [{}]: {}", f.name, c.variant.split(':').next().unwrap_or(""), base.label()));
        return;
    }
    ctx.count("variant_usable");

    // ---- size limit at L and L-1 -----------------------------------------------------------
    for (lim, expect_accept) in [(l, true), (l - 1, false)] {
        let mut e = env0.clone();
        e.set_max_tx_size(lim);
        let v = f.validate_with(&c.tx, &f.utxo, &e);
        ctx.eval();
        ctx.nontrivial(fp_mix(fp(f.name.as_bytes()), fp_mix(l, lim * 2 + 1)));
        if verdict_violation(ctx, c, &v, "size limit") {
            continue;
        }
        ctx.count(if v.accepted() { "size_limit_accepted" } else { "size_limit_rejected" });
        if v.accepted() != expect_accept {
            let eff = effective_size_by_limit(c, &env0, l);
            let effs = eff.map(delta_str).unwrap_or("?".into());
            ctx.violation(
                &format!("C36:max-size:era={grp}:aux={auxs}:size-used={effs}"),
                &format!(
                    "{} [{}]: ledger size L={l} (aux data present: {auxs}); max tx size = {lim} ({}) -> {}, expected {}; the validator behaves as if the size were {effs}",
                    f.name,
                    c.variant,
                    if lim == l { "L" } else { "L-1" },
                    v.label(),
                    if expect_accept { "accepted" } else { "rejected" }
                ),
                replay_json(c, json!({"check": "max-size", "limit": lim, "L": l})),
            );
        }
    }

    // ---- fee parameters moved so that a*L + b == fee --------------------------------------------
    for &a in a_choices {
        if a.checked_mul(l).map(|x| x > fee_v).unwrap_or(true) {
            continue;
        }
        let b = fee_v - a * l;
        if b + 1 > u32::MAX as u64 || a * (l + 8) + b + 1 > u32::MAX as u64 {
            continue;
        }
        for (bb, expect_accept) in [(b, true), (b + 1, false)] {
            let mut e = env0.clone();
            e.set_minfee(a, bb);
            let v = f.validate_with(&c.tx, &f.utxo, &e);
            ctx.eval();
            ctx.nontrivial(fp_mix(fp(f.name.as_bytes()), fp_mix(l ^ (a << 32), bb * 2)));
            if verdict_violation(ctx, c, &v, "min fee (env)") {
                continue;
            }
            ctx.count(if v.accepted() { "fee_env_accepted" } else { "fee_env_rejected" });
            if v.accepted() != expect_accept {
                let sig = if a == 0 {
                    format!("C36:min-fee:era={grp}:a=0:comparison")
                } else {
                    let eff = effective_size_by_fee(c, &env0, l, fee_v).map(delta_str).unwrap_or("?".into());
                    format!("C36:min-fee:era={grp}:aux={auxs}:size-used={eff}")
                };
                ctx.violation(
                    &sig,
                    &format!(
                        "{} [{}]: ledger size L={l} (aux data present: {auxs}), fee={fee_v}; with minfee_a={a}, minfee_b={bb} the minimum fee a*L+b is {} -> {}, expected {}",
                        f.name,
                        c.variant,
                        a * l + bb,
                        v.label(),
                        if expect_accept { "accepted (fee == min)" } else { "rejected (fee == min-1)" }
                    ),
                    replay_json(c, json!({"check": "min-fee-env", "a": a, "b": bb, "L": l})),
                );
            }
        }
    }

    // ---- transaction re-priced to exactly the minimum fee and one lovelace lower -----------------
    if do_tx_edit && f.rekeyed {
        let (a, b) = f.env.minfee();
        let mut env = f.env.clone();
        env.set_max_tx_size(1 << 24);
        let nout = output_count(&c.tx);
        if nout == 0 {
            return;
        }
        let oi = (0..nout).max_by_key(|i| output_coin(&c.tx, *i)).unwrap();
        let total = fee_v + output_coin(&c.tx, oi);
        // fixpoint: fee = a * L(tx with that fee) + b
        let mut fmin = a * l + b;
        let mut ok = false;
        for _ in 0..6 {
            if fmin >= total {
                break;
            }
            let t = set_output_coin(&set_fee(&c.tx, fmin), oi, total - fmin);
            let want = a * ledger_size(&t) as u64 + b;
            if want == fmin {
                ok = true;
                break;
            }
            fmin = want;
        }
        if !ok {
            ctx.count("fee_tx_no_fixpoint");
            return;
        }
        for below in [0u64, 1] {
            let fv = fmin - below;
            let t2 = f.resign(&set_output_coin(&set_fee(&c.tx, fv), oi, total - fv));
            let l2 = ledger_size(&t2) as u64;
            let expect_accept = fv >= a * l2 + b;
            let v = f.validate_with(&t2, &f.utxo, &env);
            ctx.eval();
            ctx.nontrivial(fp_mix(fp(f.name.as_bytes()), fp_mix(l2, fv * 2 + 7)));
            let c2 = Case { f, tx: t2.clone(), variant: format!("{}:fee={}", c.variant, fv) };
            if verdict_violation(ctx, &c2, &v, "min fee (tx)") {
                continue;
            }
            ctx.count(if v.accepted() { "fee_tx_accepted" } else { "fee_tx_rejected" });
            if below == 1 && expect_accept {
                ctx.count("fee_tx_below_still_sufficient");
            }
            if v.accepted() != expect_accept {
                // any other rule in the way? (collateral percentage, min utxo ...) only a fee verdict is attributed
                if !v.accepted() && !v.rejected_with("Fee") {
                    ctx.count("fee_tx_other_rule");
                    ctx.set_insert("fee_tx_other_rule", &format!("{}: {}", f.name, v.label()));
                    continue;
                }
                let eff = effective_size_by_fee(&c2, &env0, l2, fv).map(delta_str).unwrap_or("?".into());
                ctx.violation(
                    &format!("C36:min-fee:era={grp}:aux={}:size-used={eff}", if aux(&t2).is_some() { "yes" } else { "no" }),
                    &format!(
                        "{} [{}]: re-priced and re-signed with fee={fv}; ledger size L={l2}, minimum fee {a}*L+{b} = {} -> {}, expected {}",
                        f.name,
                        c.variant,
                        a * l2 + b,
                        v.label(),
                        if expect_accept { "accepted" } else { "rejected" }
                    ),
                    replay_json(&c2, json!({"check": "min-fee-tx", "fee": fv, "L": l2, "a": a, "b": b})),
                );
            }
        }
    }
}

fn variants<'a>(f: &'a Fixture, rng: &mut Rng) -> Vec<Case<'a>> {
    let mut v = vec![Case { f, tx: f.tx_bytes.clone(), variant: "as-is".into() }];
    if f.rekeyed {
        if aux(&f.tx_bytes).is_some() {
            v.push(Case { f, tx: f.resign(&set_aux_with_hash(&f.tx_bytes, None)), variant: "aux-removed".into() });
        } else {
            v.push(Case { f, tx: f.resign(&set_aux_with_hash(&f.tx_bytes, Some(metadata(10, rng)))), variant: "aux-added:10".into() });
        }
    }
    // the phase-2 validity flag set to false (a transaction as recorded in a block after a script
    // failure): the fee and size rules apply to it exactly as to a valid one
    for base in v.clone() {
        if let Ok(it) = pv::cbor::parse(&base.tx) {
            if it.major == 4 && it.children.len() == 4 && it.children[2].major == 7 && base.tx[it.children[2].start] == 0xf5 {
                let mut t = base.tx.clone();
                t[it.children[2].start] = 0xf4;
                v.push(Case { f, tx: t, variant: format!("{}+valid=false", base.variant) });
            }
        }
    }
    v
}

fn main() {
    let mut ctx = Ctx::from_args("C36");
    let fixtures: Vec<Fixture> = all_fixtures()
        .into_iter()
        .filter(|f| f.era != Era::Byron)
        .map(|f| {
            let r = f.rekeyed();
            if r.validate(&r.tx_bytes).accepted() {
                r
            } else {
                f
            }
        })
        .collect();
    if let Some(p) = ctx.replay.clone() {
        let v: serde_json::Value = serde_json::from_slice(&std::fs::read(p).unwrap()).unwrap();
        let r = &v["replay"];
        let name = r["fixture"].as_str().unwrap_or("");
        let f = fixtures.iter().find(|f| f.name == name).expect("fixture");
        let tx = hex::decode(r["tx"].as_str().unwrap()).unwrap();
        let c = Case { f, tx, variant: r["variant"].as_str().unwrap_or("").to_string() };
        let (a, _) = f.env.minfee();
        check_case(&mut ctx, &c, &[a, 1, 0], true);
        println!("replayed {} [{}]: L={} fee={} violations={}", f.name, c.variant, ledger_size(&c.tx), fee(&c.tx), ctx.n_violations());
        ctx.finish();
    }
    ctx.add("fixtures_post_byron", 0);
    // ---- complete matrix: fixture x {as is, aux toggled} x boundaries ------------------------
    let mut matrix_cells = 0u64;
    for (i, f) in fixtures.iter().enumerate() {
        if !f.rekeyed {
            ctx.set_insert("fixtures_not_rekeyed", f.name);
        }
        if !ctx.owns(i as u64) {
            continue;
        }
        ctx.count("fixtures_post_byron");
        let mut rng = ctx.sub_rng("matrix", i as u64);
        let (a, _) = f.env.minfee();
        for c in variants(f, &mut rng) {
            check_case(&mut ctx, &c, &[a, 1, 0, 7], true);
            matrix_cells += 1;
            if ctx.want_sample() && c.variant == "as-is" {
                ctx.sample(json!({"fixture": f.name, "era": format!("{:?}", f.era), "L": ledger_size(&c.tx), "fee": fee(&c.tx), "aux": aux(&c.tx).is_some(), "minfee": [f.env.minfee().0, f.env.minfee().1]}));
            }
        }
    }
    ctx.add("matrix_cells", matrix_cells);
    ctx.note("matrix_exhaustive", json!(true));
    // ---- random paddings ------------------------------------------------------------------
    let n = ctx.budget(2_000, 100_000);
    let usable: Vec<&Fixture> = fixtures.iter().filter(|f| f.rekeyed).collect();
    for k in 0..n {
        if usable.is_empty() {
            break;
        }
        let f = *ctx.rng.pick(&usable);
        // keep the big MIR fixture (8 witnesses, 8 kB) rarer: it is 10x the cost
        if f.tx_bytes.len() > 6000 && ctx.rng.chance(3, 4) {
            continue;
        }
        let pad = match ctx.rng.below(10) {
            0 => 0,
            1 => ctx.rng.range(1, 70) as usize,
            2 => *ctx.rng.pick(&[13usize, 14, 15, 245, 246, 247, 248, 249, 250, 251, 252]), // around CBOR head-width changes of the aux map / list
            _ => ctx.rng.range(0, 1500) as usize,
        };
        let tx = f.resign(&set_aux_with_hash(&f.tx_bytes, Some(metadata(pad, &mut ctx.rng))));
        let a_rand = ctx.rng.range(2, 300);
        let c = Case { f, tx, variant: format!("aux-pad:{pad}") };
        let (a, _) = f.env.minfee();
        check_case(&mut ctx, &c, &[a, a_rand], k % 4 == 0);
        ctx.count("random_padded_cases");
    }
    ctx.finish();
}
