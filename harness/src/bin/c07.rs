//! C07 — PlutusData round-trips through CBOR (64-byte chunking of long byte strings, re-assembly)
//! and its comparison is a total order whose equality ignores definite/indefinite encodings.
//!
//! Work unit = a *pool* of 8 values derived from one base value (clone, def/indef restyling,
//! alternative integer representation, alternative constructor-tag form, small tweak, fresh
//! values, zero/minus-one integer forms), so that equal and near-equal elements are frequent.
//! Per pool: the full 8x8 comparison matrix is computed with the real `Ord::cmp` (each call
//! under catch_unwind) and the order laws are checked on all pairs and all 512 ordered triples;
//! every pool element is round-tripped; a reference *equality* (own semantic normal form) is
//! compared with `==` on all pairs.
use pallas_codec::minicbor;
use pallas_primitives::{BigInt, BoundedBytes, Constr, KeyValuePairs, MaybeIndefArray, PlutusData};
use pv::cbor::{self, Item, Node};
use pv::pdgen::*;
use pv::*;
use std::cmp::Ordering;

// ------------------------------------------------------------------------------------------
// semantic normal form (own code; independent of the Ord impl under test)
// ------------------------------------------------------------------------------------------

#[derive(PartialEq, Eq, Clone, Debug)]
enum Sem {
    Constr(u64, Vec<Sem>),
    Map(Vec<(Sem, Sem)>),
    List(Vec<Sem>),
    Int(num_bigint::BigInt),
    Bytes(Vec<u8>),
}

fn constr_index(c: &Constr<PlutusData>) -> u64 {
    match c.tag {
        121..=127 => c.tag - 121,
        1280..=1400 => c.tag - 1280 + 7,
        _ => c.any_constructor.expect("generator only builds tag 102 with an index"),
    }
}

/// `rfc`: read a tag-3 bignum `n` as -1-n (RFC 8949) instead of -n (what pallas' Ord does).
/// The property does not say which reading the order has to follow, so the reference equality
/// is only asserted where both readings agree.
fn sem(v: &PlutusData, rfc: bool) -> Sem {
    match v {
        PlutusData::Constr(c) => Sem::Constr(constr_index(c), c.fields.iter().map(|x| sem(x, rfc)).collect()),
        PlutusData::Map(m) => Sem::Map(m.iter().map(|(k, v)| (sem(k, rfc), sem(v, rfc))).collect()),
        PlutusData::Array(a) => Sem::List(a.iter().map(|x| sem(x, rfc)).collect()),
        PlutusData::BoundedBytes(b) => Sem::Bytes(b.to_vec()),
        PlutusData::BigInt(i) => Sem::Int(match i {
            BigInt::Int(i) => num_bigint::BigInt::from(i128::from(*i)),
            BigInt::BigUInt(b) => num_bigint::BigInt::from_bytes_be(num_bigint::Sign::Plus, b),
            BigInt::BigNInt(b) => {
                let m = num_bigint::BigInt::from_bytes_be(num_bigint::Sign::Plus, b);
                if rfc {
                    -m - 1
                } else {
                    -m
                }
            }
        }),
    }
}

fn sem_diff(a: &Sem, b: &Sem) -> &'static str {
    match (a, b) {
        (Sem::Constr(i, x), Sem::Constr(j, y)) => {
            if i != j {
                "constr-index"
            } else {
                list_diff(x, y)
            }
        }
        (Sem::List(x), Sem::List(y)) => list_diff(x, y),
        (Sem::Map(x), Sem::Map(y)) => {
            if x.len() != y.len() {
                return "length";
            }
            for ((k1, v1), (k2, v2)) in x.iter().zip(y.iter()) {
                if k1 != k2 {
                    return sem_diff(k1, k2);
                }
                if v1 != v2 {
                    return sem_diff(v1, v2);
                }
            }
            "none"
        }
        (Sem::Int(x), Sem::Int(y)) => {
            if x != y {
                "int"
            } else {
                "none"
            }
        }
        (Sem::Bytes(x), Sem::Bytes(y)) => {
            if x != y {
                "bytes"
            } else {
                "none"
            }
        }
        _ => "kind",
    }
}
fn list_diff(x: &[Sem], y: &[Sem]) -> &'static str {
    if x.len() != y.len() {
        return "length";
    }
    for (a, b) in x.iter().zip(y.iter()) {
        if a != b {
            return sem_diff(a, b);
        }
    }
    "none"
}

fn kind(v: &PlutusData) -> &'static str {
    match v {
        PlutusData::Constr(c) if c.tag == 102 => "Constr102",
        PlutusData::Constr(_) => "Constr",
        PlutusData::Map(_) => "Map",
        PlutusData::Array(_) => "Array",
        PlutusData::BoundedBytes(_) => "Bytes",
        PlutusData::BigInt(BigInt::Int(_)) => "Int",
        PlutusData::BigInt(BigInt::BigUInt(_)) => "BigUInt",
        PlutusData::BigInt(BigInt::BigNInt(_)) => "BigNInt",
    }
}

/// first structural (representation) difference of two values, walking in parallel
fn repr_diff(a: &PlutusData, b: &PlutusData) -> &'static str {
    fn lists(x: &[PlutusData], y: &[PlutusData]) -> &'static str {
        for (p, q) in x.iter().zip(y.iter()) {
            let d = repr_diff(p, q);
            if d != "none" {
                return d;
            }
        }
        "none"
    }
    match (a, b) {
        (PlutusData::Constr(x), PlutusData::Constr(y)) => {
            if (x.tag == 102) != (y.tag == 102) {
                return "constr-tag-form";
            }
            if matches!(x.fields, MaybeIndefArray::Def(_)) != matches!(y.fields, MaybeIndefArray::Def(_)) {
                return "container-style";
            }
            lists(&x.fields, &y.fields)
        }
        (PlutusData::Array(x), PlutusData::Array(y)) => {
            if matches!(x, MaybeIndefArray::Def(_)) != matches!(y, MaybeIndefArray::Def(_)) {
                return "container-style";
            }
            lists(x, y)
        }
        (PlutusData::Map(x), PlutusData::Map(y)) => {
            if matches!(x, KeyValuePairs::Def(_)) != matches!(y, KeyValuePairs::Def(_)) {
                return "container-style";
            }
            for ((k1, v1), (k2, v2)) in x.iter().zip(y.iter()) {
                let d = repr_diff(k1, k2);
                if d != "none" {
                    return d;
                }
                let d = repr_diff(v1, v2);
                if d != "none" {
                    return d;
                }
            }
            "none"
        }
        (PlutusData::BigInt(x), PlutusData::BigInt(y)) => match (x, y) {
            (BigInt::Int(_), BigInt::Int(_)) => "none",
            (BigInt::BigUInt(p), BigInt::BigUInt(q)) | (BigInt::BigNInt(p), BigInt::BigNInt(q)) => {
                if p.len() != q.len() {
                    "int-leading-zeros"
                } else {
                    "none"
                }
            }
            _ => "int-repr",
        },
        _ => "none",
    }
}

/// does the pair compare integers of different representation at the first place they differ in shape?
fn mixed_int(a: &PlutusData, b: &PlutusData) -> bool {
    matches!(repr_diff(a, b), "int-repr" | "int-leading-zeros")
}

// ------------------------------------------------------------------------------------------
// derivations
// ------------------------------------------------------------------------------------------

fn map_children(v: &PlutusData, f: &mut dyn FnMut(&PlutusData) -> PlutusData) -> PlutusData {
    fn arr(a: &MaybeIndefArray<PlutusData>, f: &mut dyn FnMut(&PlutusData) -> PlutusData) -> MaybeIndefArray<PlutusData> {
        match a {
            MaybeIndefArray::Def(x) => MaybeIndefArray::Def(x.iter().map(|e| f(e)).collect()),
            MaybeIndefArray::Indef(x) => MaybeIndefArray::Indef(x.iter().map(|e| f(e)).collect()),
        }
    }
    match v {
        PlutusData::Constr(c) => PlutusData::Constr(Constr { tag: c.tag, any_constructor: c.any_constructor, fields: arr(&c.fields, f) }),
        PlutusData::Array(a) => PlutusData::Array(arr(a, f)),
        PlutusData::Map(m) => {
            let kv: Vec<(PlutusData, PlutusData)> = m.iter().map(|(k, v)| (f(k), f(v))).collect();
            PlutusData::Map(match m {
                KeyValuePairs::Def(_) => KeyValuePairs::Def(kv),
                KeyValuePairs::Indef(_) => KeyValuePairs::Indef(kv),
            })
        }
        other => other.clone(),
    }
}

/// flip definite <-> indefinite flags with probability 1/2 at every container
fn flip_style(v: &PlutusData, rng: &mut Rng) -> PlutusData {
    let w = map_children(v, &mut |c| flip_style(c, rng));
    if rng.bool() {
        return w;
    }
    fn fl(a: MaybeIndefArray<PlutusData>) -> MaybeIndefArray<PlutusData> {
        match a {
            MaybeIndefArray::Def(x) => MaybeIndefArray::Indef(x),
            MaybeIndefArray::Indef(x) => MaybeIndefArray::Def(x),
        }
    }
    match w {
        PlutusData::Constr(c) => PlutusData::Constr(Constr { tag: c.tag, any_constructor: c.any_constructor, fields: fl(c.fields) }),
        PlutusData::Array(a) => PlutusData::Array(fl(a)),
        PlutusData::Map(KeyValuePairs::Def(x)) => PlutusData::Map(KeyValuePairs::Indef(x)),
        PlutusData::Map(KeyValuePairs::Indef(x)) => PlutusData::Map(KeyValuePairs::Def(x)),
        o => o,
    }
}

fn mag(m: u128, rng: &mut Rng) -> BoundedBytes {
    let mut b = vec![0u8; if rng.chance(1, 3) { 1 + rng.usize_below(2) } else { 0 }];
    b.extend(m.to_be_bytes().iter().copied().skip_while(|x| *x == 0));
    BoundedBytes::from(b)
}

/// same number (under one of the two readings of tag 3) in another representation
fn alt_int(v: &PlutusData, rng: &mut Rng) -> PlutusData {
    match v {
        PlutusData::BigInt(i) => PlutusData::BigInt(match i {
            BigInt::Int(x) => {
                let n = i128::from(*x);
                if n >= 0 {
                    BigInt::BigUInt(mag(n as u128, rng))
                } else if rng.bool() {
                    BigInt::BigNInt(mag((-n) as u128, rng))
                } else {
                    BigInt::BigNInt(mag((-n - 1) as u128, rng))
                }
            }
            BigInt::BigUInt(b) => {
                let s: Vec<u8> = b.iter().copied().skip_while(|x| *x == 0).collect();
                if s.len() <= 8 && rng.bool() {
                    let mut a = [0u8; 16];
                    a[16 - s.len()..].copy_from_slice(&s);
                    BigInt::Int(int_of(u128::from_be_bytes(a) as i128))
                } else if b.first() == Some(&0) {
                    BigInt::BigUInt(BoundedBytes::from(s))
                } else {
                    let mut z = vec![0u8];
                    z.extend_from_slice(b);
                    BigInt::BigUInt(BoundedBytes::from(z))
                }
            }
            BigInt::BigNInt(b) => {
                let s: Vec<u8> = b.iter().copied().skip_while(|x| *x == 0).collect();
                if s.len() <= 8 && rng.bool() {
                    let mut a = [0u8; 16];
                    a[16 - s.len()..].copy_from_slice(&s);
                    let m = u128::from_be_bytes(a) as i128;
                    BigInt::Int(int_of(if rng.bool() { -m } else { -m - 1 }))
                } else if b.first() == Some(&0) {
                    BigInt::BigNInt(BoundedBytes::from(s))
                } else {
                    let mut z = vec![0u8];
                    z.extend_from_slice(b);
                    BigInt::BigNInt(BoundedBytes::from(z))
                }
            }
        }),
        other => map_children(other, &mut |c| if rng.chance(2, 3) { alt_int(c, rng) } else { c.clone() }),
    }
}

/// same constructor index written with the other tag form (121.. / 1280.. <-> 102)
fn alt_constr(v: &PlutusData, rng: &mut Rng) -> PlutusData {
    let w = map_children(v, &mut |c| alt_constr(c, rng));
    match w {
        PlutusData::Constr(c) => {
            let idx = constr_index(&c);
            let (tag, any) = if c.tag == 102 {
                if idx <= 6 {
                    (121 + idx, None)
                } else if idx <= 127 {
                    (1280 + idx - 7, None)
                } else {
                    (102, Some(idx))
                }
            } else {
                (102, Some(idx))
            };
            PlutusData::Constr(Constr { tag, any_constructor: any, fields: c.fields })
        }
        o => o,
    }
}

/// a near neighbour: one small semantic change somewhere
fn tweak(v: &PlutusData, rng: &mut Rng) -> PlutusData {
    fn tw_arr(a: &MaybeIndefArray<PlutusData>, rng: &mut Rng) -> MaybeIndefArray<PlutusData> {
        let mut xs: Vec<PlutusData> = a.iter().cloned().collect();
        match rng.below(3) {
            0 if !xs.is_empty() => {
                let k = rng.usize_below(xs.len());
                xs[k] = tweak(&xs[k], rng);
            }
            1 if !xs.is_empty() => {
                xs.pop();
            }
            _ => xs.push(gen_pd(rng, 0)),
        }
        match a {
            MaybeIndefArray::Def(_) => MaybeIndefArray::Def(xs),
            MaybeIndefArray::Indef(_) => MaybeIndefArray::Indef(xs),
        }
    }
    match v {
        PlutusData::BigInt(BigInt::Int(x)) => {
            let n = i128::from(*x);
            let d = if rng.bool() { 1 } else { -1 };
            let m = (n + d).clamp(-(1i128 << 64), (1i128 << 64) - 1);
            PlutusData::BigInt(BigInt::Int(int_of(m)))
        }
        PlutusData::BigInt(BigInt::BigUInt(b)) | PlutusData::BigInt(BigInt::BigNInt(b)) => {
            let mut s = b.to_vec();
            match rng.below(3) {
                0 if !s.is_empty() => {
                    let k = s.len() - 1;
                    s[k] = s[k].wrapping_add(1);
                }
                1 => s.push(rng.next_u8()),
                _ => {
                    // flip the sign, same magnitude
                    return PlutusData::BigInt(if matches!(v, PlutusData::BigInt(BigInt::BigUInt(_))) {
                        BigInt::BigNInt(BoundedBytes::from(s))
                    } else {
                        BigInt::BigUInt(BoundedBytes::from(s))
                    });
                }
            }
            PlutusData::BigInt(if matches!(v, PlutusData::BigInt(BigInt::BigUInt(_))) {
                BigInt::BigUInt(BoundedBytes::from(s))
            } else {
                BigInt::BigNInt(BoundedBytes::from(s))
            })
        }
        PlutusData::BoundedBytes(b) => {
            let mut s = b.to_vec();
            match rng.below(3) {
                0 if !s.is_empty() => {
                    let k = rng.usize_below(s.len());
                    s[k] ^= 1 << rng.below(8);
                }
                1 if !s.is_empty() => {
                    s.pop();
                }
                _ => s.push(rng.next_u8()),
            }
            PlutusData::BoundedBytes(BoundedBytes::from(s))
        }
        PlutusData::Constr(c) => {
            if rng.bool() {
                let idx = constr_index(c);
                let n = if rng.bool() { idx.wrapping_add(1) } else { idx.saturating_sub(1) };
                let (tag, any) = if c.tag != 102 && n <= 6 {
                    (121 + n, None)
                } else if c.tag != 102 && n <= 127 {
                    (1280 + n - 7, None)
                } else {
                    (102, Some(n))
                };
                PlutusData::Constr(Constr { tag, any_constructor: any, fields: c.fields.clone() })
            } else {
                PlutusData::Constr(Constr { tag: c.tag, any_constructor: c.any_constructor, fields: tw_arr(&c.fields, rng) })
            }
        }
        PlutusData::Array(a) => PlutusData::Array(tw_arr(a, rng)),
        PlutusData::Map(m) => {
            let mut kv: Vec<(PlutusData, PlutusData)> = m.iter().cloned().collect();
            match rng.below(4) {
                0 if !kv.is_empty() => {
                    let k = rng.usize_below(kv.len());
                    kv[k].0 = tweak(&kv[k].0, rng);
                }
                1 if !kv.is_empty() => {
                    let k = rng.usize_below(kv.len());
                    kv[k].1 = tweak(&kv[k].1, rng);
                }
                2 if kv.len() > 1 => kv.swap(0, 1),
                _ => kv.push((gen_pd(rng, 0), gen_pd(rng, 0))),
            }
            PlutusData::Map(match m {
                KeyValuePairs::Def(_) => KeyValuePairs::Def(kv),
                KeyValuePairs::Indef(_) => KeyValuePairs::Indef(kv),
            })
        }
    }
}

fn zero_forms(rng: &mut Rng) -> PlutusData {
    let b = |v: Vec<u8>| BoundedBytes::from(v);
    PlutusData::BigInt(match rng.below(12) {
        0 => BigInt::Int(int_of(0)),
        1 => BigInt::BigUInt(b(vec![])),
        2 => BigInt::BigUInt(b(vec![0])),
        3 => BigInt::BigNInt(b(vec![])),
        4 => BigInt::BigNInt(b(vec![0])),
        5 => BigInt::BigNInt(b(vec![0, 0])),
        6 => BigInt::Int(int_of(-1)),
        7 => BigInt::BigNInt(b(vec![1])),
        8 => BigInt::Int(int_of(1)),
        9 => BigInt::BigUInt(b(vec![0, 1])),
        10 => BigInt::Int(int_of(-2)),
        _ => BigInt::BigNInt(b(vec![0, 2])),
    })
}

// ------------------------------------------------------------------------------------------
// own encoder of PlutusData (style chosen by the harness, not by pallas)
// ------------------------------------------------------------------------------------------

fn w(rng: &mut Rng) -> u8 {
    if rng.chance(1, 3) {
        *rng.pick(&[1u8, 2, 4, 8])
    } else {
        0
    }
}

fn bytes_node(b: &[u8], rng: &mut Rng) -> Node {
    match rng.below(4) {
        0 => Node::Bytes(b.to_vec(), w(rng)), // definite, whatever the length
        1 => Node::BytesIndef(b.chunks(64).map(|c| c.to_vec()).collect()),
        _ => {
            let mut cs = vec![];
            let mut p = 0;
            while p < b.len() {
                let n = 1 + rng.usize_below((b.len() - p).min(100));
                cs.push(b[p..p + n].to_vec());
                p += n;
            }
            if rng.chance(1, 6) {
                let k = rng.usize_below(cs.len() + 1);
                cs.insert(k, vec![]);
            }
            Node::BytesIndef(cs)
        }
    }
}

/// valid Plutus `data` encoding of `v` with random head widths, random def/indef containers and
/// random byte-string chunking (the [index, fields] wrapper of tag 102 stays a definite array)
fn styled_node(v: &PlutusData, rng: &mut Rng) -> Node {
    let arr = |xs: Vec<Node>, rng: &mut Rng| if rng.bool() { Node::Array(xs, w(rng)) } else { Node::ArrayIndef(xs) };
    match v {
        PlutusData::BigInt(BigInt::Int(i)) => {
            let n = i128::from(*i);
            if n >= 0 {
                Node::UInt(n as u64, w(rng))
            } else {
                Node::NInt((-1 - n) as u64, w(rng))
            }
        }
        PlutusData::BigInt(BigInt::BigUInt(b)) => Node::Tag(2, 0, Box::new(bytes_node(b, rng))),
        PlutusData::BigInt(BigInt::BigNInt(b)) => Node::Tag(3, 0, Box::new(bytes_node(b, rng))),
        PlutusData::BoundedBytes(b) => bytes_node(b, rng),
        PlutusData::Array(a) => {
            let xs = a.iter().map(|x| styled_node(x, rng)).collect();
            arr(xs, rng)
        }
        PlutusData::Map(m) => {
            let xs: Vec<(Node, Node)> = m.iter().map(|(k, v)| (styled_node(k, rng), styled_node(v, rng))).collect();
            if rng.bool() {
                Node::Map(xs, w(rng))
            } else {
                Node::MapIndef(xs)
            }
        }
        PlutusData::Constr(c) => {
            let xs = c.fields.iter().map(|x| styled_node(x, rng)).collect();
            let fields = arr(xs, rng);
            if c.tag == 102 {
                Node::Tag(102, w(rng), Box::new(Node::Array(vec![Node::UInt(c.any_constructor.unwrap(), w(rng)), fields], 0)))
            } else {
                Node::Tag(c.tag, w(rng), Box::new(fields))
            }
        }
    }
}

// ------------------------------------------------------------------------------------------
// chunk rule on the encoding produced by pallas
// ------------------------------------------------------------------------------------------

fn value_bytestrings<'a>(v: &'a PlutusData, out: &mut Vec<&'a [u8]>) {
    match v {
        PlutusData::BigInt(BigInt::Int(_)) => {}
        PlutusData::BigInt(BigInt::BigUInt(b)) | PlutusData::BigInt(BigInt::BigNInt(b)) => out.push(b.as_slice()),
        PlutusData::BoundedBytes(b) => out.push(b.as_slice()),
        PlutusData::Array(a) => a.iter().for_each(|x| value_bytestrings(x, out)),
        PlutusData::Constr(c) => c.fields.iter().for_each(|x| value_bytestrings(x, out)),
        PlutusData::Map(m) => m.iter().for_each(|(k, v)| {
            value_bytestrings(k, out);
            value_bytestrings(v, out)
        }),
    }
}

fn item_bytestrings<'a>(it: &'a Item, out: &mut Vec<&'a Item>) {
    if it.major == 2 {
        out.push(it);
        return;
    }
    for c in &it.children {
        item_bytestrings(c, out);
    }
}

/// None = ok, Some(class) = which part of the rule is broken
fn chunk_rule(src: &[u8], it: &Item, payload: &[u8]) -> Option<&'static str> {
    if it.str_payload(src) != payload {
        return Some("payload-changed");
    }
    let n = payload.len();
    if !it.indef {
        if n > 64 {
            return Some("long-string-definite");
        }
        return None;
    }
    if n <= 64 {
        return Some("short-string-indefinite");
    }
    let k = it.children.len();
    for (i, c) in it.children.iter().enumerate() {
        let l = c.end - c.start - c.head_len;
        if c.indef || c.major != 2 {
            return Some("bad-chunk");
        }
        if i + 1 < k && l != 64 {
            return Some("chunk-not-64");
        }
        if i + 1 == k && (l == 0 || l > 64) {
            return Some("last-chunk-size");
        }
    }
    None
}

// ------------------------------------------------------------------------------------------
// checks
// ------------------------------------------------------------------------------------------

fn enc(v: &PlutusData) -> Result<Vec<u8>, String> {
    minicbor::to_vec(v).map_err(|e| e.to_string())
}

fn round_trip(ctx: &mut Ctx, v: &PlutusData, rng: &mut Rng) {
    ctx.eval();
    let k = kind(v);
    let dbg = format!("{v:?}");
    let bytes = match pv::panics::catch(|| enc(v)) {
        Err(p) => {
            ctx.violation(&format!("panic:encode:{}", p.site()), &format!("encoding {dbg} panicked: {}", p.msg), json!({"kind":"value-debug","value":dbg}));
            return;
        }
        Ok(Err(e)) => {
            ctx.violation(&format!("roundtrip:encode-error:{k}"), &format!("encoding {dbg} failed: {e}"), json!({"kind":"value-debug","value":dbg}));
            return;
        }
        Ok(Ok(b)) => b,
    };
    let rep = json!({"kind":"values","vals":[hexs(&bytes)]});
    // the encoding is one well-formed item
    let item = match cbor::parse(&bytes) {
        Ok(i) => i,
        Err(e) => {
            ctx.violation(&format!("roundtrip:malformed-encoding:{k}"), &format!("encoding of {dbg} = {} is not one well-formed CBOR item: {e:?}", hex_short(&bytes)), rep);
            return;
        }
    };
    // chunking rule, on the bytes pallas produced
    let mut want = vec![];
    value_bytestrings(v, &mut want);
    let mut got = vec![];
    item_bytestrings(&item, &mut got);
    if want.len() != got.len() {
        ctx.violation(&format!("chunking:bytestring-count:{k}"), &format!("value has {} byte strings, its encoding {} has {}", want.len(), hex_short(&bytes), got.len()), rep.clone());
    } else {
        for (p, it) in want.iter().zip(got.iter()) {
            ctx.count("bytestrings_checked");
            if p.len() > 64 {
                ctx.count("bytestrings_longer_than_64");
                ctx.max("longest_bytestring", p.len() as u64);
            }
            if p.len() == 64 || p.len() == 65 || (p.len() > 64 && p.len() % 64 <= 1) {
                ctx.count("bytestrings_at_chunk_boundary");
            }
            if let Some(cls) = chunk_rule(&bytes, it, p) {
                ctx.violation(
                    &format!("chunking:{cls}"),
                    &format!("byte string of {} bytes encoded as {} (rule: <=64 definite, otherwise indefinite with 64-byte chunks)", p.len(), hex_short(it.bytes(&bytes))),
                    rep.clone(),
                );
            }
        }
    }
    // decode(encode(v)) == v, whole input consumed, same in-memory value
    let dec = pv::panics::catch(|| {
        let mut d = minicbor::Decoder::new(&bytes);
        let r: Result<PlutusData, _> = d.decode();
        (r.map_err(|e| e.to_string()), d.position())
    });
    match dec {
        Err(p) => ctx.violation(&format!("panic:decode:{}", p.site()), &format!("decoding {} panicked: {}", hex_short(&bytes), p.msg), rep.clone()),
        Ok((Err(e), _)) => ctx.violation(&format!("roundtrip:decode-error:{k}"), &format!("own encoding {} of {dbg} rejected: {e}", hex_short(&bytes)), rep.clone()),
        Ok((Ok(back), pos)) => {
            if pos != bytes.len() {
                ctx.violation(&format!("roundtrip:trailing-bytes:{k}"), &format!("decoder stopped at {pos} of {} in {}", bytes.len(), hex_short(&bytes)), rep.clone());
            }
            match pv::panics::catch(|| back == *v) {
                Err(p) => ctx.violation(&format!("panic:eq:{}", p.site()), &p.msg, rep.clone()),
                Ok(false) => ctx.violation(&format!("roundtrip:not-equal:{k}"), &format!("{dbg} -> {} -> {back:?}", hex_short(&bytes)), rep.clone()),
                Ok(true) => {
                    if format!("{back:?}") != dbg {
                        ctx.violation(&format!("roundtrip:structure-changed:{}", repr_diff(v, &back)), &format!("{dbg} -> {} -> {back:?} (== but a different in-memory value)", hex_short(&bytes)), rep.clone());
                    } else {
                        ctx.count("roundtrip_ok");
                    }
                }
            }
        }
    }
    // foreign but valid encoding of the same datum (other chunking, def/indef, head widths)
    let styled = styled_node(v, rng).to_vec();
    if styled != bytes {
        ctx.eval();
        let rep2 = json!({"kind":"styled","val":hexs(&bytes),"styled":hexs(&styled)});
        let dec = pv::panics::catch(|| {
            let mut d = minicbor::Decoder::new(&styled);
            let r: Result<PlutusData, _> = d.decode();
            (r.map_err(|e| e.to_string()), d.position())
        });
        match dec {
            Err(p) => ctx.violation(&format!("panic:decode:{}", p.site()), &format!("decoding {} panicked: {}", hex_short(&styled), p.msg), rep2),
            Ok((Err(e), _)) => ctx.violation(&format!("restyle:decode-error:{k}"), &format!("valid re-styled encoding {} of {dbg} rejected: {e}", hex_short(&styled)), rep2),
            Ok((Ok(back), pos)) => {
                if pos != styled.len() {
                    ctx.violation(&format!("restyle:trailing-bytes:{k}"), &format!("decoder stopped at {pos} of {} in {}", styled.len(), hex_short(&styled)), rep2.clone());
                }
                match pv::panics::catch(|| back == *v && *v == back) {
                    Err(p) => ctx.violation(&format!("panic:eq:{}", p.site()), &p.msg, rep2),
                    Ok(false) => ctx.violation(
                        &format!("restyle:not-equal:{}", sem_diff(&sem(v, false), &sem(&back, false))),
                        &format!("{dbg} re-styled as {} decodes to {back:?}, which is != the original", hex_short(&styled)),
                        rep2,
                    ),
                    Ok(true) => ctx.count("restyled_decode_equal"),
                }
            }
        }
    }
}

fn check_pool(ctx: &mut Ctx, pool: &[PlutusData]) {
    let n = pool.len();
    let rep = || json!({"kind":"values","vals": pool.iter().map(|v| enc(v).map(|b| hexs(&b)).unwrap_or_default()).collect::<Vec<_>>()});
    // comparison matrix with the real Ord
    let mut m = vec![vec![Ordering::Equal; n]; n];
    for i in 0..n {
        for j in 0..n {
            ctx.eval();
            match pv::panics::catch(|| pool[i].cmp(&pool[j])) {
                Ok(o) => m[i][j] = o,
                Err(p) => {
                    ctx.violation(&format!("panic:cmp:{}", p.site()), &format!("cmp({:?}, {:?}) panicked: {}", pool[i], pool[j], p.msg), rep());
                    return;
                }
            }
        }
    }
    let kinds = |idx: &[usize]| {
        let mut k: Vec<&str> = idx.iter().map(|i| kind(&pool[*i])).collect();
        k.sort();
        k.dedup();
        k.join(",")
    };
    let sems: Vec<(Sem, Sem)> = pool.iter().map(|v| (sem(v, false), sem(v, true))).collect();
    let dbgs: Vec<String> = pool.iter().map(|v| format!("{v:?}")).collect();
    for i in 0..n {
        if m[i][i] != Ordering::Equal {
            ctx.violation(&format!("order:reflexivity:{}", kinds(&[i])), &format!("cmp(a,a) = {:?} for a = {}", m[i][i], dbgs[i]), rep());
        }
        for j in 0..n {
            let (a, b) = (&pool[i], &pool[j]);
            ctx.count("pairs");
            if m[i][j] != m[j][i].reverse() {
                ctx.violation(&format!("order:antisymmetry:{}", kinds(&[i, j])), &format!("cmp(a,b) = {:?} but cmp(b,a) = {:?}; a = {}, b = {}", m[i][j], m[j][i], dbgs[i], dbgs[j]), rep());
            }
            // operators agree with cmp
            let ops = pv::panics::catch(|| (a == b, a != b, a.partial_cmp(b), a < b, a <= b, a > b, a >= b));
            match ops {
                Err(p) => ctx.violation(&format!("panic:ops:{}", p.site()), &p.msg, rep()),
                Ok((eq, ne, pc, lt, le, gt, ge)) => {
                    let o = m[i][j];
                    let ok = eq == (o == Ordering::Equal)
                        && ne == !eq
                        && pc == Some(o)
                        && lt == (o == Ordering::Less)
                        && gt == (o == Ordering::Greater)
                        && le == (o != Ordering::Greater)
                        && ge == (o != Ordering::Less);
                    if !ok {
                        ctx.violation(
                            &format!("order:eq-cmp-consistency:{}", kinds(&[i, j])),
                            &format!("cmp = {o:?} but ==:{eq} !=:{ne} partial_cmp:{pc:?} <:{lt} <=:{le} >:{gt} >=:{ge}; a = {}, b = {}", dbgs[i], dbgs[j]),
                            rep(),
                        );
                    }
                }
            }
            // reference equality, only where both readings of tag 3 agree
            let e_pallas = sems[i].0 == sems[j].0;
            let e_rfc = sems[i].1 == sems[j].1;
            let got = m[i][j] == Ordering::Equal;
            if e_pallas == e_rfc {
                ctx.count("pairs_with_reference_equality");
                if got && !e_pallas {
                    ctx.violation(
                        &format!("eq:equal-but-distinct:{}", sem_diff(&sems[i].0, &sems[j].0)),
                        &format!("a == b although they denote different data: a = {}, b = {}", dbgs[i], dbgs[j]),
                        rep(),
                    );
                } else if !got && e_pallas {
                    ctx.violation(
                        &format!("eq:unequal-but-same:{}", repr_diff(a, b)),
                        &format!("a != b although they denote the same datum in another encoding: a = {}, b = {}", dbgs[i], dbgs[j]),
                        rep(),
                    );
                } else if got && dbgs[i] != dbgs[j] {
                    ctx.count(&format!("equal_across:{}", repr_diff(a, b)));
                }
            } else {
                // only differs in how tag-3 magnitudes are read; record which reading the library follows
                ctx.count("pairs_tag3_reading_matters");
                if got == e_pallas {
                    ctx.count("tag3_read_as_minus_n");
                } else {
                    ctx.count("tag3_read_as_minus_1_minus_n");
                }
            }
        }
    }
    // all ordered triples
    for i in 0..n {
        for j in 0..n {
            for k in 0..n {
                ctx.count("triples");
                let (ab, bc, ac) = (m[i][j], m[j][k], m[i][k]);
                let bad = if ab != Ordering::Greater && bc != Ordering::Greater {
                    // a <= b <= c  =>  a <= c, strict if one of them is strict
                    ac == Ordering::Greater || ((ab == Ordering::Less || bc == Ordering::Less) && ac != Ordering::Less)
                } else {
                    false
                };
                if bad {
                    ctx.violation(
                        &format!("order:transitivity:{}", kinds(&[i, j, k])),
                        &format!("cmp(a,b) = {ab:?}, cmp(b,c) = {bc:?} but cmp(a,c) = {ac:?}; a = {}, b = {}, c = {}", dbgs[i], dbgs[j], dbgs[k]),
                        rep(),
                    );
                }
                // non-trivial: two elements Equal but structurally different, or mixed integer representations
                if i < j && j < k {
                    let eqdiff = |x: usize, y: usize| m[x][y] == Ordering::Equal && dbgs[x] != dbgs[y];
                    let mixed = |x: usize, y: usize| mixed_int(&pool[x], &pool[y]);
                    if eqdiff(i, j) || eqdiff(j, k) || eqdiff(i, k) || mixed(i, j) || mixed(j, k) || mixed(i, k) {
                        ctx.count("nontrivial_triples");
                        ctx.nontrivial(fp_mix(fp_mix(fp(dbgs[i].as_bytes()), fp(dbgs[j].as_bytes())), fp(dbgs[k].as_bytes())));
                    }
                }
            }
        }
    }
}

fn build_pool(rng: &mut Rng) -> Vec<PlutusData> {
    let depth = match rng.below(10) {
        0..=2 => 0,
        3..=5 => 1,
        6..=7 => 2,
        8 => 3,
        _ => 4,
    };
    let base = if rng.chance(1, 6) { zero_forms(rng) } else { gen_pd(rng, depth) };
    let mut pool = vec![base.clone()];
    while pool.len() < 8 {
        let src = rng.pick(&pool).clone();
        let v = match rng.below(9) {
            0 => src,
            1 => flip_style(&src, rng),
            2 | 3 => alt_int(&src, rng),
            4 => alt_constr(&src, rng),
            5 | 6 => tweak(&src, rng),
            7 => {
                if matches!(base, PlutusData::BigInt(_)) {
                    zero_forms(rng)
                } else {
                    tweak(&flip_style(&src, rng), rng)
                }
            }
            _ => gen_pd(rng, depth.min(2)),
        };
        pool.push(v);
    }
    pool
}

fn main() {
    let mut ctx = Ctx::from_args("C07");
    if let Some(p) = ctx.replay.clone() {
        let v: serde_json::Value = serde_json::from_slice(&std::fs::read(p).unwrap()).unwrap();
        let r = &v["replay"];
        let mut rng = Rng::new(1);
        match r["kind"].as_str() {
            Some("values") => {
                let pool: Vec<PlutusData> =
                    r["vals"].as_array().unwrap().iter().map(|h| minicbor::decode(&hex::decode(h.as_str().unwrap()).unwrap()).expect("replay value decodes")).collect();
                for v in &pool {
                    println!("value: {v:?}");
                    round_trip(&mut ctx, v, &mut rng);
                }
                check_pool(&mut ctx, &pool);
            }
            Some("styled") => {
                let styled = hex::decode(r["styled"].as_str().unwrap()).unwrap();
                let orig: PlutusData = minicbor::decode(&hex::decode(r["val"].as_str().unwrap()).unwrap()).unwrap();
                let back: Result<PlutusData, _> = minicbor::decode(&styled);
                println!("original: {orig:?}\nstyled {} decodes to {back:?}", hexs(&styled));
                if let Ok(b) = back {
                    println!("equal: {}", b == orig);
                }
            }
            _ => println!("replay kind not re-executable: {r}"),
        }
        println!("replayed: violations={}", ctx.n_violations());
        ctx.finish();
    }
    // deterministic part: every integer-zero / minus-one form against each other (exhaustive small pool)
    if ctx.owns(0) {
        let mut r = Rng::new(7);
        let mut pool = vec![];
        let mut seen = std::collections::BTreeSet::new();
        for _ in 0..400 {
            let v = zero_forms(&mut r);
            if seen.insert(format!("{v:?}")) {
                pool.push(v);
            }
        }
        for v in &pool {
            round_trip(&mut ctx, v, &mut r);
        }
        check_pool(&mut ctx, &pool);
        ctx.note("zero_forms_pool_size", json!(pool.len()));
    }
    let pools = ctx.budget(500_000, 8_000_000);
    let mut rng = ctx.rng.clone();
    for i in 0..pools {
        let pool = build_pool(&mut rng);
        for v in &pool {
            ctx.set_insert("kinds_seen", kind(v));
            if let PlutusData::Constr(c) = v {
                ctx.set_insert(
                    "constr_tag_ranges_seen",
                    match c.tag {
                        121..=127 => "121..127",
                        1280..=1400 => "1280..1400",
                        _ => "102",
                    },
                );
            }
            round_trip(&mut ctx, v, &mut rng);
        }
        check_pool(&mut ctx, &pool);
        ctx.count("pools");
        if i < 2 {
            ctx.sample(json!({"pool": pool.iter().map(|v| { let s = format!("{v:?}"); if s.len() > 200 { format!("{}..", &s[..200]) } else { s } }).collect::<Vec<_>>()}));
        }
    }
    ctx.finish();
}
