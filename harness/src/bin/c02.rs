//! C02 — flat decoding is total on arbitrary bytes.
//!
//! Every input is fed to every typed entry point (`flat::decode::<T>`) and to sequences of raw
//! `Decoder` method calls (incl. `bits8(n)` for n = 0..=9, lists, `string`, big words). Oracle:
//!   * panic / crash / hang watch (catch_unwind + sub-process exit status + per-input CPU bound);
//!   * for the arithmetic sites (7-bit word accumulation, `bits8` shifts) an own bit-level
//!     reference reader (`pv::flatref::BitR`, unbounded integers): a returned `Ok(v)` must be the
//!     number the bits denote. In the release profile (no overflow checks) this is how the
//!     wrapped shift of `Decoder::word` / `bits8(0)` is observed: a continuation run that denotes
//!     a number >= 2^64 cannot be a `usize`, so the only total answers are `Err` or the exact value.
//!   * for the other reads the reference is compared too, but a disagreement is only counted
//!     (`disagree_*` counters), it is not a C02 violation.
use num_bigint::{BigInt, BigUint};
use pallas_codec::flat;
use pallas_codec::flat::de::Decoder;
use pallas_codec::flat::filler::Filler;
use pv::flatref::{BitR, BitW, Op, RefErr, Val};
use pv::*;

// ---------------------------------------------------------------------------------------
// values returned by the code under test
// ---------------------------------------------------------------------------------------

#[derive(Debug, Clone, PartialEq)]
enum PVal {
    Unit,
    Bool(bool),
    U8(u8),
    Word(usize),
    Int(isize),
    Char(char),
    Bytes(Vec<u8>),
    BoolList(Vec<bool>),
    U8List(Vec<u8>),
    WordList(Vec<usize>),
    CharStr(String),
    BigWord(BigUint),
    BigInt(BigInt),
}

fn call(d: &mut Decoder, op: Op) -> Result<PVal, flat::de::Error> {
    Ok(match op {
        Op::Bool => PVal::Bool(d.bool()?),
        Op::U8 => PVal::U8(d.u8()?),
        Op::Word => PVal::Word(d.word()?),
        Op::Integer => PVal::Int(d.integer()?),
        Op::Char => PVal::Char(d.char()?),
        Op::Bytes => PVal::Bytes(d.bytes()?),
        Op::Utf8 => PVal::Bytes(d.utf8()?.into_bytes()),
        Op::Filler => {
            d.filler()?;
            PVal::Unit
        }
        Op::Bits8(n) => PVal::U8(d.bits8(n)?),
        Op::BoolList => PVal::BoolList(d.decode_list_with(|d| d.bool())?),
        Op::U8List => PVal::U8List(d.decode_list_with(|d| d.u8())?),
        Op::WordList => PVal::WordList(d.decode_list_with(|d| d.word())?),
        Op::CharString => PVal::CharStr(d.string()?),
        Op::BigWord => PVal::BigWord(d.big_word()?),
        Op::BigInteger => PVal::BigInt(d.big_integer()?),
    })
}

/// class of the failing call, part of every panic signature: the decoder method through which the
/// call reads its bits (bool / word / bits8 with n = 0 / bits8 with n > 0 / ...), so that e.g. an
/// out-of-bounds index in `bits8` reached through `u8()` is not the same finding as `bits8(0)`
fn via(op: Op) -> &'static str {
    match op {
        Op::Bool | Op::BoolList => "bool",
        Op::Word | Op::Integer | Op::Char | Op::WordList | Op::CharString => "word",
        Op::Bits8(0) => "bits8(0)",
        Op::Bits8(_) | Op::U8 | Op::U8List => "bits8(n>0)",
        Op::Bytes | Op::Utf8 => "bytes",
        Op::Filler => "filler",
        Op::BigWord | Op::BigInteger => "bigword",
    }
}

fn typed_via(t: &str) -> &'static str {
    match t {
        "bool" => via(Op::Bool),
        "u8" => via(Op::U8),
        "usize" | "isize" | "char" => via(Op::Word),
        "Vec<u8>" | "String" => via(Op::Bytes),
        "Filler" => via(Op::Filler),
        "BigInt" => via(Op::BigWord),
        _ => "user-struct(u8,bool)",
    }
}

const TYPED: [&str; 10] = ["bool", "u8", "usize", "isize", "char", "Vec<u8>", "String", "Filler", "BigInt", "u8-then-bool"];

/// typed entry points: `flat::decode::<T>` (= value, then filler)
fn call_typed(input: &[u8], t: &str) -> (Op, Result<PVal, flat::de::Error>) {
    match t {
        "bool" => (Op::Bool, flat::decode::<bool>(input).map(PVal::Bool)),
        "u8" => (Op::U8, flat::decode::<u8>(input).map(PVal::U8)),
        "usize" => (Op::Word, flat::decode::<usize>(input).map(PVal::Word)),
        "isize" => (Op::Integer, flat::decode::<isize>(input).map(PVal::Int)),
        "char" => (Op::Char, flat::decode::<char>(input).map(PVal::Char)),
        "Vec<u8>" => (Op::Bytes, flat::decode::<Vec<u8>>(input).map(PVal::Bytes)),
        "String" => (Op::Utf8, flat::decode::<String>(input).map(|s| PVal::Bytes(s.into_bytes()))),
        "Filler" => (Op::Filler, flat::decode::<Filler>(input).map(|_| PVal::Unit)),
        "BigInt" => (Op::BigInteger, flat::decode::<BigInt>(input).map(PVal::BigInt)),
        // a user-defined Decode impl built from the primitives (what uplc does): u8 then bool
        _ => (Op::U8, {
            struct Pair(#[allow(dead_code)] u8, #[allow(dead_code)] bool);
            impl flat::de::Decode<'_> for Pair {
                fn decode(d: &mut Decoder) -> Result<Self, flat::de::Error> {
                    Ok(Pair(d.u8()?, d.bool()?))
                }
            }
            flat::decode::<Pair>(input).map(|p| PVal::U8(p.0))
        }),
    }
}

// ---------------------------------------------------------------------------------------
// judging one Ok result against the reference
// ---------------------------------------------------------------------------------------

enum Verdict {
    Agree,
    /// (signature, description)
    Violation(String, String),
    /// not an arithmetic site: counted only
    Disagree(&'static str),
}

fn usize_max() -> BigUint {
    BigUint::from(usize::MAX)
}

fn judge_word(p: &BigUint, v: &BigUint, k: usize, what: &str) -> Verdict {
    if *v > usize_max() {
        Verdict::Violation(
            "oracle:word:unrepresentable-accepted".into(),
            format!("{what}: a run of {k} seven-bit groups denotes {v} (> usize::MAX) but the decoder returned Ok({p}) instead of an error"),
        )
    } else if p != v {
        Verdict::Violation("oracle:word:value-mismatch".into(), format!("{what}: {k} groups denote {v} but the decoder returned Ok({p})"))
    } else {
        Verdict::Agree
    }
}

fn judge(op: Op, p: &PVal, r: &Result<Val, RefErr>) -> Verdict {
    let label = op.label();
    let arithmetic = matches!(op, Op::Word | Op::Integer | Op::Char | Op::WordList | Op::CharString | Op::Bits8(_) | Op::BigWord | Op::BigInteger);
    let rv = match r {
        Ok(v) => v,
        Err(e) => {
            // Ok although the reference cannot read a value
            if arithmetic {
                return Verdict::Violation(format!("oracle:{label}:accepted-where-reference-fails:{e:?}"), format!("{}: decoder returned Ok({p:?}) but the reference reader fails with {e:?}", op.name()));
            }
            return Verdict::Disagree("disagree_ok_vs_ref_err");
        }
    };
    match (op, p, rv) {
        (Op::Word, PVal::Word(p), Val::Word(v, k)) => judge_word(&BigUint::from(*p), v, *k, "word"),
        (Op::Integer, PVal::Int(p), Val::Int(v, k)) => {
            // the underlying word: zigzag back
            let z: BigInt = if *v >= BigInt::from(0) { v * BigInt::from(2) } else { (-(v + BigInt::from(1))) * BigInt::from(2) + BigInt::from(1) };
            let z = z.to_biguint().unwrap();
            if z > usize_max() {
                return judge_word(&BigUint::from(0u8), &z, *k, &format!("integer (returned {p})"));
            }
            if BigInt::from(*p as i64) != *v {
                return Verdict::Violation("oracle:integer:value-mismatch".into(), format!("integer: {k} groups denote {v} but the decoder returned Ok({p})"));
            }
            Verdict::Agree
        }
        (Op::Char, PVal::Char(c), Val::Word(v, k)) => {
            if *v > usize_max() {
                return judge_word(&BigUint::from(*c as u32), v, *k, "char");
            }
            if *v > BigUint::from(u32::MAX) {
                // `word as u32` narrowing: silent, in both profiles, no arithmetic overflow involved: counted only
                return Verdict::Disagree("char_word_above_u32_accepted");
            }
            if BigUint::from(*c as u32) != *v {
                return Verdict::Violation("oracle:char:value-mismatch".into(), format!("char: word {v} decoded to {:?}", c));
            }
            Verdict::Agree
        }
        (Op::WordList, PVal::WordList(ps), Val::List(vs)) => {
            if ps.len() != vs.len() {
                return Verdict::Violation("oracle:wordlist:length-mismatch".into(), format!("word list: {} items vs reference {}", ps.len(), vs.len()));
            }
            for (p, v) in ps.iter().zip(vs) {
                if let Val::Word(v, k) = v {
                    if let Verdict::Violation(s, w) = judge_word(&BigUint::from(*p), v, *k, "word (list item)") {
                        return Verdict::Violation(s, w);
                    }
                }
            }
            Verdict::Agree
        }
        (Op::CharString, PVal::CharStr(s), Val::List(vs)) => {
            let cs: Vec<char> = s.chars().collect();
            if cs.len() != vs.len() {
                return Verdict::Violation("oracle:charstring:length-mismatch".into(), format!("char list: {} items vs reference {}", cs.len(), vs.len()));
            }
            for (c, v) in cs.iter().zip(vs) {
                if let Val::Word(v, k) = v {
                    if *v > usize_max() {
                        return judge_word(&BigUint::from(*c as u32), v, *k, "char (list item)");
                    }
                    if *v <= BigUint::from(u32::MAX) && BigUint::from(*c as u32) != *v {
                        return Verdict::Violation("oracle:char:value-mismatch".into(), format!("char (list item): word {v} decoded to {c:?}"));
                    }
                }
            }
            Verdict::Agree
        }
        (Op::Bits8(n), PVal::U8(x), Val::U8(v)) => {
            if x != v {
                let cls = if n == 0 { "n=0" } else { "n>0" };
                return Verdict::Violation(format!("oracle:bits8:value-mismatch:{cls}"), format!("bits8({n}) returned {x:#04x}, the next {n} bits denote {v:#04x}"));
            }
            Verdict::Agree
        }
        (Op::BigWord, PVal::BigWord(p), Val::Word(v, k)) => {
            if p != v {
                return Verdict::Violation("oracle:bigword:value-mismatch".into(), format!("big_word: {k} groups denote {v}, decoder returned {p}"));
            }
            Verdict::Agree
        }
        (Op::BigInteger, PVal::BigInt(p), Val::Int(v, k)) => {
            if p != v {
                return Verdict::Violation("oracle:biginteger:value-mismatch".into(), format!("big_integer: {k} groups denote {v}, decoder returned {p}"));
            }
            Verdict::Agree
        }
        (Op::Bool, PVal::Bool(a), Val::Bool(b)) => {
            if a == b {
                Verdict::Agree
            } else {
                Verdict::Disagree("disagree_bool")
            }
        }
        (Op::U8, PVal::U8(a), Val::U8(b)) => {
            if a == b {
                Verdict::Agree
            } else {
                Verdict::Disagree("disagree_u8")
            }
        }
        (Op::Bytes | Op::Utf8, PVal::Bytes(a), Val::Bytes(b)) => {
            if a == b {
                Verdict::Agree
            } else {
                Verdict::Disagree("disagree_bytes")
            }
        }
        (Op::Filler, PVal::Unit, Val::Unit) => Verdict::Agree,
        (Op::BoolList, PVal::BoolList(a), Val::List(b)) => {
            if a.len() == b.len() && a.iter().zip(b).all(|(x, y)| Val::Bool(*x) == *y) {
                Verdict::Agree
            } else {
                Verdict::Disagree("disagree_boollist")
            }
        }
        (Op::U8List, PVal::U8List(a), Val::List(b)) => {
            if a.len() == b.len() && a.iter().zip(b).all(|(x, y)| Val::U8(*x) == *y) {
                Verdict::Agree
            } else {
                Verdict::Disagree("disagree_u8list")
            }
        }
        _ => Verdict::Disagree("disagree_shape"),
    }
}

// ---------------------------------------------------------------------------------------
// running one input
// ---------------------------------------------------------------------------------------

#[derive(Default)]
struct Outcome {
    oks: u32,
    errs: u32,
    panics: u32,
}

fn run_typed(ctx: &mut Ctx, input: &[u8], t: &str, out: &mut Outcome) {
    ctx.eval();
    let r = pv::panics::catch(|| call_typed(input, t));
    match r {
        Err(p) => {
            out.panics += 1;
            ctx.count("panics_observed");
            ctx.violation(
                &format!("panic:{}:via={}", p.site(), typed_via(t)),
                &format!("flat::decode::<{t}>({}) panicked: {}", hex_short(input), p.msg),
                json!({"input": hexs(input), "entry": format!("decode::<{t}>")}),
            );
        }
        Ok((_, Err(_))) => {
            out.errs += 1;
            ctx.count("result_err");
        }
        Ok((op, Ok(pv))) => {
            out.oks += 1;
            ctx.count("result_ok");
            if t == "u8-then-bool" {
                return;
            }
            // reference: the value at bit 0, then the filler
            let mut r = BitR::new(input, 0);
            let rv = r.read(op).and_then(|v| r.read(Op::Filler).map(|_| v));
            match judge(op, &pv, &rv) {
                Verdict::Agree => ctx.count("agree_with_reference"),
                Verdict::Disagree(k) => ctx.count(k),
                Verdict::Violation(sig, what) => {
                    ctx.violation(&sig, &format!("flat::decode::<{t}>({}): {what}", hex_short(input)), json!({"input": hexs(input), "entry": format!("decode::<{t}>")}))
                }
            }
        }
    }
}

/// a sequence of raw decoder calls on one Decoder; calls continue after an `Err`
fn run_ops(ctx: &mut Ctx, input: &[u8], ops: &[Op], out: &mut Outcome) {
    ctx.eval();
    let mut d = Decoder::new(input);
    for (i, op) in ops.iter().enumerate() {
        ctx.count("raw_calls");
        let start_bits = d.pos * 8 + d.used_bits as usize;
        let r = pv::panics::catch(|| call(&mut d, *op));
        let replay = || json!({"input": hexs(input), "entry": "ops", "ops": ops.iter().map(|o| o.name()).collect::<Vec<_>>()});
        match r {
            Err(p) => {
                out.panics += 1;
                ctx.count("panics_observed");
                ctx.violation(
                    &format!("panic:{}:via={}", p.site(), via(*op)),
                    &format!("Decoder::{} (call {i} of {:?}, at bit {start_bits} of {}) panicked: {}", op.name(), ops.iter().map(|o| o.name()).collect::<Vec<_>>(), hex_short(input), p.msg),
                    replay(),
                );
                return; // decoder state after a panic is meaningless
            }
            Ok(Err(_)) => {
                out.errs += 1;
                ctx.count("result_err");
                if i > 0 {
                    ctx.count("calls_after_an_error_or_value");
                }
            }
            Ok(Ok(pv)) => {
                out.oks += 1;
                ctx.count("result_ok");
                let mut r = BitR::new(input, start_bits);
                let rv = r.read(*op);
                match judge(*op, &pv, &rv) {
                    Verdict::Agree => {
                        ctx.count("agree_with_reference");
                        if rv.is_ok() && r.pos != d.pos * 8 + d.used_bits as usize {
                            ctx.count("disagree_position");
                        }
                    }
                    Verdict::Disagree(k) => ctx.count(k),
                    Verdict::Violation(sig, what) => ctx.violation(&sig, &format!("call {i} at bit {start_bits} of {}: {what}", hex_short(input)), replay()),
                }
            }
        }
    }
}

fn all_ops() -> Vec<Op> {
    let mut v = vec![
        Op::Bool, Op::U8, Op::Word, Op::Integer, Op::Char, Op::Bytes, Op::Utf8, Op::Filler, Op::BoolList, Op::U8List, Op::WordList, Op::CharString, Op::BigWord, Op::BigInteger,
    ];
    for n in 0..=9 {
        v.push(Op::Bits8(n));
    }
    v
}

/// the fixed entry set applied to every input: all typed entry points + every single raw op at
/// start offsets 0, 3 and 7 (offset reached with bits8(k))
fn run_fixed(ctx: &mut Ctx, input: &[u8], out: &mut Outcome) {
    for t in TYPED {
        run_typed(ctx, input, t, out);
    }
    for op in all_ops() {
        run_ops(ctx, input, &[op], out);
        run_ops(ctx, input, &[Op::Bits8(3), op], out);
        run_ops(ctx, input, &[Op::Bits8(7), op], out);
    }
}

fn random_ops(rng: &mut Rng) -> Vec<Op> {
    let ops = all_ops();
    let n = 1 + rng.usize_below(12);
    (0..n)
        .map(|_| match rng.below(10) {
            0 => Op::Bits8(1 + rng.usize_below(7)),
            1 => Op::Word,
            2 => Op::Filler,
            _ => *rng.pick(&ops),
        })
        .collect()
}

fn run_input(ctx: &mut Ctx, family: &str, input: &[u8], extra_seqs: usize, watch: bool) {
    if watch {
        ctx.begin_case(&format!("{family}\n{}", hexs(input)), 5);
    }
    let mut out = Outcome::default();
    run_fixed(ctx, input, &mut out);
    for _ in 0..extra_seqs {
        let mut rng = std::mem::replace(&mut ctx.rng, Rng::new(0));
        let ops = random_ops(&mut rng);
        ctx.rng = rng;
        run_ops(ctx, input, &ops, &mut out);
    }
    if watch {
        ctx.end_case();
    }
    ctx.count(&format!("inputs_{family}"));
    ctx.max("longest_input", input.len() as u64);
    // non-trivial: a structured family member, or an input on which some entry point returned Ok
    // and another Err
    if family != "random" && family != "exhaustive" || (out.oks > 0 && out.errs > 0) {
        ctx.nontrivial(fp_mix(fp(input), fp(family.as_bytes())));
        ctx.count("nontrivial_inputs");
    }
    if ctx.want_sample() && family != "exhaustive" && input.len() > 8 {
        ctx.sample(json!({"family": family, "input": hexs(input), "entry_points_ok": out.oks, "entry_points_err": out.errs, "entry_points_panicked": out.panics}));
    }
}

// ---------------------------------------------------------------------------------------
// structured input families (all <= 64 bytes)
// ---------------------------------------------------------------------------------------

fn clip(mut v: Vec<u8>) -> Vec<u8> {
    v.truncate(64);
    v
}

/// a continuation run of `n` bytes (flag set) followed by `term`, starting at bit offset `off`
fn continuation_run(off: usize, n: usize, fill: u8, term: Option<u8>, tail: &[u8]) -> Vec<u8> {
    let mut w = BitW::new();
    for _ in 0..off {
        w.bit(false);
    }
    for _ in 0..n {
        w.bits(8, (fill | 0x80) as u64);
    }
    if let Some(t) = term {
        w.bits(8, (t & 0x7f) as u64);
    }
    for b in tail {
        w.bits(8, *b as u64);
    }
    clip(w.to_vec())
}

fn structured(rng: &mut Rng, which: u64) -> (&'static str, Vec<u8>) {
    match which % 9 {
        0 => {
            // continuation runs of every length, at every bit offset
            let n = 1 + rng.usize_below(62);
            let off = rng.usize_below(8);
            let fill = *rng.pick(&[0x7fu8, 0x00, 0x01, 0x40, 0x55]);
            let term = if rng.chance(1, 5) { None } else { Some(*rng.pick(&[0u8, 1, 2, 0x3f, 0x40, 0x7f])) };
            let tn = rng.usize_below(3);
            let tail: Vec<u8> = if rng.bool() { vec![0x01] } else { rng.bytes(tn) };
            ("continuation-run", continuation_run(off, n, fill, term, &tail))
        }
        1 => {
            // runs around the usize limit: 9, 10, 11 groups with chosen top group
            let n = 8 + rng.usize_below(4);
            let off = if rng.bool() { 0 } else { rng.usize_below(8) };
            let top = *rng.pick(&[0u8, 1, 2, 3, 0x7f, 0x40]);
            let fill = if rng.bool() { 0x7f } else { rng.next_u8() & 0x7f };
            ("word-near-usize-limit", continuation_run(off, n, fill, Some(top), &[0x01]))
        }
        2 => {
            // byte-array blocks: filler, then length bytes that are truncated / point past the end / chain
            let mut v = vec![];
            if rng.chance(4, 5) {
                v.push(0x01);
            } else {
                v.push(*rng.pick(&[0x00u8, 0x02, 0x80, 0x03]));
            }
            let blocks = 1 + rng.usize_below(3);
            for _ in 0..blocks {
                let declared = *rng.pick(&[0usize, 1, 2, 5, 30, 60, 62, 63, 64, 200, 254, 255]);
                let present = match rng.below(4) {
                    0 => declared,
                    1 => declared.saturating_sub(1),
                    2 => declared / 2,
                    _ => rng.usize_below(declared + 1),
                };
                v.push(declared as u8);
                v.extend(rng.bytes(present.min(64)));
                if declared == 0 {
                    break;
                }
            }
            match rng.below(3) {
                0 => v.push(0),
                1 => {
                    v.push(0);
                    v.push(1);
                }
                _ => {}
            }
            ("byte-blocks", clip(v))
        }
        3 => {
            // no filler end: all zero; or all ones; every length
            let n = rng.usize_below(65);
            let b = *rng.pick(&[0x00u8, 0x00, 0xff, 0x80, 0x01]);
            ("constant-fill", vec![b; n])
        }
        4 => {
            // well-formed encodings, truncated
            let mut w = BitW::new();
            for _ in 0..rng.usize_below(8) {
                w.bit(rng.bool());
            }
            for _ in 0..1 + rng.usize_below(4) {
                match rng.below(6) {
                    0 => w.word(rng.edgy_u64() as u128),
                    1 => w.integer(rng.edgy_i64() as i128),
                    2 => {
                        let n = rng.usize_below(20);
                        w.bytes(&rng.bytes(n));
                    }
                    3 => {
                        for _ in 0..rng.usize_below(6) {
                            w.bit(true);
                            w.bits(8, rng.next_u8() as u64);
                        }
                        w.bit(false);
                    }
                    4 => w.bits(8, rng.next_u8() as u64),
                    _ => w.filler(),
                }
            }
            w.filler();
            let mut v = clip(w.to_vec());
            let cut = rng.usize_below(v.len() + 1);
            if rng.chance(2, 3) {
                v.truncate(cut);
            }
            ("valid-encoding-truncated", v)
        }
        5 => {
            // well-formed encodings with bit flips
            let mut w = BitW::new();
            for _ in 0..1 + rng.usize_below(5) {
                match rng.below(4) {
                    0 => w.word(rng.edgy_u64() as u128),
                    1 => {
                        let n = rng.usize_below(12);
                        w.bytes(&rng.bytes(n));
                    }
                    2 => w.bit(rng.bool()),
                    _ => w.integer(rng.edgy_i64() as i128),
                }
            }
            w.filler();
            let mut v = clip(w.to_vec());
            for _ in 0..1 + rng.usize_below(3) {
                let i = rng.usize_below(v.len());
                v[i] ^= 1 << rng.below(8);
            }
            ("valid-encoding-bitflips", v)
        }
        6 => {
            // list bits: long runs of 1-prefixed items that end with the buffer
            let mut w = BitW::new();
            let n = 1 + rng.usize_below(40);
            for _ in 0..n {
                w.bit(true);
                match rng.below(3) {
                    0 => w.bit(rng.bool()),
                    1 => w.bits(8, rng.next_u8() as u64),
                    _ => w.word(rng.below(1 << 20) as u128),
                }
            }
            if rng.bool() {
                w.bit(false);
            }
            ("list-runs", clip(w.to_vec()))
        }
        7 => {
            // exactly one byte / bit short of what the last read needs
            let n = 1 + rng.usize_below(9);
            let mut v = vec![0xffu8; n];
            if rng.bool() {
                *v.last_mut().unwrap() = rng.next_u8();
            }
            ("short-continuation", v)
        }
        _ => {
            // invalid scalar values / UTF-8 behind valid framing
            let mut w = BitW::new();
            if rng.bool() {
                let v = *rng.pick(&[0xD800u64, 0xDFFF, 0x110000, 0xFFFF_FFFF, 0x1_0000_0041, u64::MAX]);
                w.word(v as u128);
            } else {
                let n = 1 + rng.usize_below(10);
                let mut b = rng.bytes(n);
                b[0] = *rng.pick(&[0xc0u8, 0xff, 0xed, 0xf8, 0x80]);
                w.bytes(&b);
            }
            w.filler();
            ("invalid-scalar-or-utf8", clip(w.to_vec()))
        }
    }
}

fn replay(ctx: &mut Ctx, v: &serde_json::Value) {
    let input = hex::decode(v["replay"]["input"].as_str().or(v["replay"]["case"].as_str().and_then(|c| c.split('\n').nth(1))).unwrap_or("")).unwrap_or_default();
    let entry = v["replay"]["entry"].as_str().unwrap_or("all").to_string();
    let mut out = Outcome::default();
    if entry == "ops" {
        let ops: Vec<Op> = v["replay"]["ops"].as_array().unwrap().iter().filter_map(|o| Op::from_name(o.as_str()?)).collect();
        let mut d = Decoder::new(&input);
        for op in &ops {
            let r = pv::panics::catch(|| call(&mut d, *op));
            println!("  {} -> {:?}", op.name(), r.map_err(|p| format!("PANIC {}", p.msg)).map(|x| x.map_err(|e| e.to_string())));
        }
        run_ops(ctx, &input, &ops, &mut out);
    } else if let Some(t) = entry.strip_prefix("decode::<").and_then(|s| s.strip_suffix('>')) {
        let t = TYPED.iter().find(|x| **x == t).copied().unwrap_or("usize");
        let r = pv::panics::catch(|| call_typed(&input, t));
        println!("  decode::<{t}> -> {:?}", r.map_err(|p| format!("PANIC {}", p.msg)).map(|x| x.1.map_err(|e| e.to_string())));
        run_typed(ctx, &input, t, &mut out);
    } else {
        run_fixed(ctx, &input, &mut out);
    }
    println!("replayed {} : ok={} err={} panics={} violations={}", hexs(&input), out.oks, out.errs, out.panics, ctx.n_violations());
}

fn main() {
    let mut ctx = Ctx::from_args("C02");
    if let Err(e) = pv::flatref::selftest() {
        ctx.inconclusive(&format!("reference reader self-test failed: {e}"));
        ctx.finish();
    }
    if let Some(p) = ctx.replay.clone() {
        let v: serde_json::Value = serde_json::from_slice(&std::fs::read(p).unwrap()).unwrap();
        replay(&mut ctx, &v);
        ctx.finish();
    }

    // (a) exhaustive: every byte string of length 0, 1, 2 x the fixed entry set
    let mut idx = 0u64;
    if ctx.owns(idx) {
        run_input(&mut ctx, "exhaustive", &[], 0, false);
    }
    for a in 0..=255u8 {
        idx += 1;
        if ctx.owns(idx) {
            run_input(&mut ctx, "exhaustive", &[a], 0, false);
        }
    }
    for a in 0..=255u8 {
        for b in 0..=255u8 {
            idx += 1;
            if ctx.owns(idx) {
                run_input(&mut ctx, "exhaustive", &[a, b], 0, false);
            }
        }
    }
    ctx.note("len0to2_exhaustive", json!(true));
    ctx.note("fixed_entry_set_size", json!(TYPED.len() + 3 * all_ops().len()));

    // (b) structured families and (c) random strings up to 64 bytes, with random call sequences
    let per_input = (TYPED.len() + 3 * all_ops().len() + 4) as u64;
    let n_inputs = ctx.budget(3_000_000, 60_000_000) / per_input + 1;
    for i in 0..n_inputs {
        let mut rng = std::mem::replace(&mut ctx.rng, Rng::new(0));
        let (family, input) = if i % 3 == 2 {
            let n = 3 + rng.usize_below(62);
            ("random", rng.bytes(n))
        } else {
            let which = rng.next_u64();
            structured(&mut rng, which)
        };
        ctx.rng = rng;
        run_input(&mut ctx, family, &input, 4, true);
    }
    ctx.finish();
}
