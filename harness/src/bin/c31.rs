//! C31 — UTxO effects of a transaction follow the phase-2 validity rule.
//! Oracle: own model computed from the spans the own CBOR walker locates in the tx bytes
//! (`pv::spans::{body_model, byron_tx_model, effects}`): valid => distinct inputs, outputs 0..n-1;
//! invalid => distinct collateral inputs, collateral return at index n.
//! Workload: corpus txs (files + every tx of every corpus block re-assembled as `[body, wits, flag, aux]`)
//! under both validity flags (flag set at the byte level), generated txs with duplicated inputs /
//! collateral, with and without collateral return, in Alonzo / Babbage / Conway framing.
use pallas_primitives::{alonzo, babbage, conway};
use pallas_traverse::{Era, MultiEraOutput, MultiEraTx};
use pv::cbor::Node;
use pv::spans::{self, OutModel, Ref, TxModel};
use pv::*;

fn era_from_str(s: &str) -> Option<Era> {
    Some(match s {
        "Byron" => Era::Byron,
        "Shelley" => Era::Shelley,
        "Allegra" => Era::Allegra,
        "Mary" => Era::Mary,
        "Alonzo" => Era::Alonzo,
        "Babbage" => Era::Babbage,
        "Conway" => Era::Conway,
        _ => return None,
    })
}

fn coin_a(v: &alonzo::Value) -> u64 {
    match v {
        alonzo::Value::Coin(c) => *c,
        alonzo::Value::Multiasset(c, _) => *c,
    }
}
fn coin_c(v: &conway::Value) -> u64 {
    match v {
        conway::Value::Coin(c) => *c,
        conway::Value::Multiasset(c, _) => *c,
    }
}

/// (address bytes, coin, raw bytes when the output keeps them)
fn out_id(o: &MultiEraOutput) -> Option<(Vec<u8>, u64, Option<Vec<u8>>)> {
    if let Some(x) = o.as_alonzo() {
        return Some((x.address.to_vec(), coin_a(&x.amount), None));
    }
    if let Some(x) = o.as_babbage() {
        return Some(match x {
            babbage::TransactionOutput::Legacy(l) => (l.address.to_vec(), coin_a(&l.amount), Some(l.raw_cbor().to_vec())),
            babbage::TransactionOutput::PostAlonzo(p) => (p.address.to_vec(), coin_a(&p.value), Some(p.raw_cbor().to_vec())),
        });
    }
    if let Some(x) = o.as_conway() {
        return Some(match x {
            conway::TransactionOutput::Legacy(l) => (l.address.to_vec(), coin_a(&l.amount), Some(l.raw_cbor().to_vec())),
            conway::TransactionOutput::PostAlonzo(p) => (p.address.to_vec(), coin_c(&p.value), Some(p.raw_cbor().to_vec())),
        });
    }
    if let Some(x) = o.as_byron() {
        return Some((x.address.payload.0.to_vec(), x.amount, None));
    }
    None
}

fn same_output(src: &[u8], own: &OutModel, got: &MultiEraOutput) -> bool {
    match out_id(got) {
        None => false,
        Some((a, c, raw)) => a == own.address && c == own.coin && raw.map(|r| r == src[own.span.0..own.span.1]).unwrap_or(true),
    }
}

struct Parsed {
    model: TxModel,
    valid: bool,
    /// key 16 / 18 present in the body
    babbage_fields: bool,
}

fn own_parse(bytes: &[u8]) -> Result<Parsed, String> {
    let top = cbor::parse(bytes).map_err(|e| format!("{e:?}"))?;
    if top.major != 4 {
        return Err("not an array".into());
    }
    match top.children.len() {
        2 => Ok(Parsed { model: spans::byron_tx_model(bytes, &top.children[0])?, valid: true, babbage_fields: false }),
        4 => {
            let f = &top.children[2];
            if f.major != 7 || !(f.ai == 20 || f.ai == 21) {
                return Err("validity flag is not a bool".into());
            }
            let body = &top.children[0];
            let model = spans::body_model(bytes, body)?;
            Ok(Parsed { model, valid: f.ai == 21, babbage_fields: body.map_get_uint(16).is_some() || body.map_get_uint(18).is_some() })
        }
        _ => Err("neither [tx, wits] nor [body, wits, flag, aux]".into()),
    }
}

fn has_dups(xs: &[Ref]) -> bool {
    spans::dedup_first(xs).len() != xs.len()
}

fn check_tx(ctx: &mut Ctx, bytes: &[u8], era: Option<Era>, kind: &str) -> bool {
    let p = match own_parse(bytes) {
        Ok(p) => p,
        Err(_) => {
            ctx.count("own_model_does_not_apply");
            return false;
        }
    };
    if let Some(e) = era {
        if (e == Era::Byron) != p.model.byron || (e < Era::Babbage && p.babbage_fields) {
            ctx.count("own_model_does_not_apply");
            return false;
        }
    }
    let era_s = era.map(|e| format!("{e:?}")).unwrap_or("auto".into());
    let replay = json!({"kind": kind, "era": era_s, "tx": hexs(bytes)});
    let dec = pv::panics::catch(|| match era {
        Some(e) => MultiEraTx::decode_for_era(e, bytes).map_err(|_| ()),
        None => MultiEraTx::decode(bytes).map_err(|_| ()),
    });
    let tx = match dec {
        Err(pn) => {
            ctx.violation(&format!("panic:MultiEraTx::decode:{}", pn.site()), &format!("decoding panicked: {}", pn.msg), replay);
            return false;
        }
        Ok(Err(())) => {
            ctx.count("rejected");
            ctx.count(&format!("rejected_{kind}"));
            return false;
        }
        Ok(Ok(t)) => t,
    };
    let fam = format!("{:?}", tx.era());
    if era.is_none() && tx.era() < Era::Babbage && p.babbage_fields {
        ctx.count("own_model_does_not_apply");
        return false;
    }
    ctx.eval();
    ctx.count(&format!("txs_{kind}"));
    ctx.count(if p.valid { "flag_valid" } else { "flag_invalid" });
    let m = &p.model;
    let valid = p.valid;
    let n = m.outputs.len();
    let r = pv::panics::catch(|| {
        let mut bad: Vec<(String, String)> = vec![];
        let mut stats: Vec<&'static str> = vec![];
        if tx.is_valid() != valid {
            bad.push((format!("is_valid:expected={valid}:got={}:{fam}", tx.is_valid()), format!("validity flag on the wire is {valid}, is_valid() = {}", tx.is_valid())));
        }
        let (want_c, want_p) = spans::effects(m, valid);
        // consumes
        let mut got_c: Vec<Ref> = tx.consumes().iter().map(|i| (i.hash().to_vec(), i.index())).collect();
        got_c.sort();
        if got_c != want_c {
            let (src_list, other_list) = if valid { (&m.inputs, &m.collateral) } else { (&m.collateral, &m.inputs) };
            let mut all = src_list.clone();
            all.sort();
            let mut other = spans::dedup_first(other_list);
            other.sort();
            let cls = if got_c == all {
                "duplicates-kept"
            } else if got_c == other {
                "wrong-source"
            } else {
                "mismatch"
            };
            bad.push((
                format!("consumes:valid={valid}:{cls}:{fam}"),
                format!("consumes() returned {} refs, the rule gives {} ({} distinct of {} {}); {cls}", got_c.len(), want_c.len(), want_c.len(), src_list.len(), if valid { "inputs" } else { "collateral inputs" }),
            ));
        } else if has_dups(if valid { &m.inputs } else { &m.collateral }) {
            stats.push("consumes_with_duplicates_agreed");
        }
        // produces
        let got_p = tx.produces();
        if got_p.len() != want_p.len() {
            bad.push((format!("produces:valid={valid}:count:{fam}"), format!("produces() has {} entries, the rule gives {} (outputs {}, collateral return {})", got_p.len(), want_p.len(), n, m.collateral_return.is_some())));
        } else {
            for ((gi, go), (wi, wo)) in got_p.iter().zip(want_p.iter()) {
                if gi != wi {
                    bad.push((format!("produces:valid={valid}:index:{fam}"), format!("produces() yields index {gi}, the rule gives {wi} (tx has {n} outputs)")));
                    break;
                }
                if !same_output(bytes, wo, go) {
                    bad.push((format!("produces:valid={valid}:output:{fam}"), format!("produces() entry {gi} is not the output the rule gives at that index")));
                    break;
                }
            }
            if !valid && want_p.len() == 1 {
                stats.push("collateral_return_produced_agreed");
            }
        }
        // produces_at
        for i in 0..n + 3 {
            let got = tx.produces_at(i);
            let want = want_p.iter().find(|(wi, _)| *wi == i).map(|(_, o)| o);
            match (want, got) {
                (None, None) => {}
                (Some(w), Some(g)) => {
                    if !same_output(bytes, w, &g) {
                        bad.push((format!("produces_at:valid={valid}:different-output:{fam}"), format!("produces_at({i}) is not the output produced at {i}")));
                    } else {
                        stats.push("produces_at_some_agreed");
                    }
                }
                (Some(_), None) => bad.push((format!("produces_at:valid={valid}:missing:{fam}"), format!("produces_at({i}) = None but index {i} is produced (tx has {n} outputs)"))),
                (None, Some(_)) => bad.push((format!("produces_at:valid={valid}:unexpected:{fam}"), format!("produces_at({i}) = Some but nothing is produced at {i} (tx has {n} outputs, valid={valid})"))),
            }
            // agreement with the produced list itself
            let in_list = got_p.iter().any(|(gi, _)| *gi == i);
            if in_list != tx.produces_at(i).is_some() {
                bad.push((format!("produces_at:valid={valid}:disagrees-with-produces:{fam}"), format!("produces_at({i}).is_some() = {} but produces() {} index {i}", !in_list, if in_list { "lists" } else { "does not list" })));
            }
        }
        // inputs_sorted_set
        let got_s: Vec<Ref> = tx.inputs_sorted_set().iter().map(|i| (i.hash().to_vec(), i.index())).collect();
        let mut want_s = spans::dedup_first(&m.inputs);
        want_s.sort();
        if got_s != want_s {
            let mut sorted = got_s.clone();
            sorted.sort();
            let mut dd = sorted.clone();
            dd.dedup();
            let cls = if dd.len() != sorted.len() {
                "duplicates"
            } else if sorted == want_s {
                "unsorted"
            } else {
                "wrong-set"
            };
            bad.push((format!("inputs_sorted_set:{cls}:{fam}"), format!("inputs_sorted_set() is not the (tx id, index)-sorted duplicate-free input set: {cls}; {} refs, expected {}", got_s.len(), want_s.len())));
        } else if want_s.len() >= 2 {
            stats.push("sorted_set_ge2_agreed");
        }
        (bad, stats)
    });
    match r {
        Err(pn) => ctx.violation(&format!("panic:effects:{}", pn.site()), &format!("a {fam} tx accessor panicked: {}", pn.msg), replay.clone()),
        Ok((bad, stats)) => {
            for s in stats {
                ctx.count(s);
            }
            for (sig, what) in bad {
                ctx.violation(&format!("C31:{sig}"), &format!("[{kind}] {what}"), replay.clone());
            }
        }
    }
    let dups = has_dups(&m.inputs) || has_dups(&m.collateral);
    if !valid || dups {
        ctx.nontrivial(fp(bytes));
        if dups {
            ctx.count("nontrivial_with_duplicates");
        }
        if !valid && m.collateral_return.is_some() {
            ctx.count("invalid_with_collateral_return");
        }
        if !valid && m.collateral_return.is_none() {
            ctx.count("invalid_without_collateral_return");
        }
    }
    ctx.set_insert("eras", &fam);
    if ctx.want_sample() && !valid && dups {
        ctx.sample(json!({"kind": kind, "era": fam, "valid": valid, "inputs": m.inputs.len(), "distinct_inputs": spans::dedup_first(&m.inputs).len(), "collateral": m.collateral.len(), "outputs": n, "collateral_return": m.collateral_return.is_some(), "tx": hex_short(bytes)}));
    }
    true
}

/// set the validity flag of a standalone `[body, wits, flag, aux]` encoding at the byte level
fn with_flag(bytes: &[u8], valid: bool) -> Option<Vec<u8>> {
    let top = cbor::parse(bytes).ok()?;
    if top.major != 4 || top.children.len() != 4 {
        return None;
    }
    let f = &top.children[2];
    if f.major != 7 || !(f.ai == 20 || f.ai == 21) || f.end - f.start != 1 {
        return None;
    }
    let mut v = bytes.to_vec();
    v[f.start] = if valid { 0xf5 } else { 0xf4 };
    Some(v)
}

// ---------------------------------------------------------------------------------------
// generation
// ---------------------------------------------------------------------------------------

fn gen_ref_pool(rng: &mut Rng) -> Vec<Ref> {
    let k = 1 + rng.usize_below(6);
    let mut pool: Vec<Ref> = vec![];
    let base = rng.bytes(32);
    for _ in 0..k {
        let h = match rng.below(5) {
            0 => base.clone(),
            1 => {
                let mut h = base.clone();
                h[31] = rng.next_u8();
                h
            }
            2 => {
                let mut h = base.clone();
                h[0] = rng.next_u8();
                h
            }
            3 if !pool.is_empty() => rng.pick(&pool).0.clone(),
            _ => rng.bytes(32),
        };
        let r = rng.next_u64();
        let idx = *rng.pick(&[0u64, 0, 1, 1, 2, 3, 9, 10, 23, 24, 255, 256, 65535, 65536, r % 1000, r]);
        pool.push((h, idx));
    }
    pool
}

fn ref_node(r: &Ref, rng: &mut Rng) -> Node {
    Node::arr(vec![Node::bytes(&r.0), Node::UInt(r.1, *rng.pick(&[0u8, 0, 0, 0, 0, 0, 8]))])
}

fn gen_output(rng: &mut Rng, era: Era, coin: u64) -> Node {
    let mut addr = vec![*rng.pick(&[0x61u8, 0x60, 0x71])];
    addr.extend(rng.bytes(28));
    let value = if rng.chance(1, 4) {
        let policy = rng.bytes(28);
        let name = { let k = rng.usize_below(8); rng.bytes(k) };
        Node::arr(vec![Node::u(coin), Node::map(vec![(Node::bytes(&policy), Node::map(vec![(Node::bytes(&name), Node::u(1 + rng.below(1000)))]))])])
    } else {
        Node::u(coin)
    };
    if era >= Era::Babbage && rng.bool() {
        let mut e = vec![(Node::u(0), Node::bytes(&addr)), (Node::u(1), value)];
        if rng.chance(1, 4) {
            e.push((Node::u(2), Node::arr(vec![Node::u(0), Node::bytes(&rng.bytes(32))])));
        }
        Node::map(e)
    } else {
        let mut e = vec![Node::bytes(&addr), value];
        if rng.chance(1, 5) {
            e.push(Node::bytes(&rng.bytes(32)));
        }
        Node::arr(e)
    }
}

fn gen_tx(rng: &mut Rng, era: Era) -> Vec<u8> {
    let pool = gen_ref_pool(rng);
    let seq = |rng: &mut Rng, min: usize, max: usize| -> Vec<Ref> {
        let n = min + rng.usize_below(max - min + 1);
        (0..n).map(|_| rng.pick(&pool).clone()).collect()
    };
    let set_node = |rng: &mut Rng, xs: &[Ref]| -> Node {
        let items: Vec<Node> = xs.iter().map(|r| ref_node(r, rng)).collect();
        let a = if rng.chance(1, 6) { Node::ArrayIndef(items) } else { Node::arr(items) };
        if era == Era::Conway && rng.bool() {
            Node::tag(258, a)
        } else {
            a
        }
    };
    let min_in = if rng.chance(1, 10) { 0 } else { 1 };
    let inputs = seq(rng, min_in, 10);
    let mut entries: Vec<(Node, Node)> = vec![];
    entries.push((Node::u(0), set_node(rng, &inputs)));
    let nout = *rng.pick(&[0usize, 1, 1, 2, 2, 3, 4, 6]);
    let coin0 = 1_000_000 + rng.below(1_000_000);
    let outs: Vec<Node> = (0..nout).map(|i| gen_output(rng, era, coin0 + 17 * i as u64)).collect();
    entries.push((Node::u(1), if rng.chance(1, 6) { Node::ArrayIndef(outs) } else { Node::arr(outs) }));
    entries.push((Node::u(2), Node::u(150_000 + rng.below(100_000))));
    if rng.bool() {
        entries.push((Node::u(3), Node::u(rng.below(1 << 30))));
    }
    if rng.chance(3, 4) {
        let min = if era == Era::Conway || rng.chance(9, 10) { 1 } else { 0 };
        let coll = seq(rng, min, 5);
        entries.push((Node::u(13), set_node(rng, &coll)));
    }
    if era >= Era::Babbage {
        if rng.bool() {
            let c = coin0 + 5000 + rng.below(1000);
            entries.push((Node::u(16), gen_output(rng, era, c)));
        }
        if rng.chance(1, 3) {
            entries.push((Node::u(17), Node::u(rng.below(5_000_000))));
        }
        if rng.chance(1, 4) {
            let refs = seq(rng, 1, 3);
            entries.push((Node::u(18), set_node(rng, &refs)));
        }
    }
    if rng.chance(1, 4) {
        rng.shuffle(&mut entries);
    }
    let body = if rng.chance(1, 8) { Node::MapIndef(entries) } else { Node::map(entries) };
    let flag = rng.chance(2, 5);
    Node::arr(vec![body, Node::map(vec![]), Node::Bool(flag), Node::Null]).to_vec()
}

fn main() {
    let mut ctx = Ctx::from_args("C31");
    if let Some(p) = ctx.replay.clone() {
        let v: serde_json::Value = serde_json::from_slice(&std::fs::read(p).unwrap()).unwrap();
        let b = hex::decode(v["replay"]["tx"].as_str().unwrap()).unwrap();
        let era = era_from_str(v["replay"]["era"].as_str().unwrap_or("auto"));
        let ok = check_tx(&mut ctx, &b, era, v["replay"]["kind"].as_str().unwrap_or("replay"));
        println!("replayed: accepted={ok} violations={}", ctx.n_violations());
        ctx.finish();
    }
    let mut idx = 0u64;
    // 1. corpus tx files, every era that accepts them + auto-detection, both flags
    for t in pv::corpus::txs() {
        idx += 1;
        if !ctx.owns(idx) {
            continue;
        }
        for flag in [true, false] {
            let b = match with_flag(&t.bytes, flag) {
                Some(b) => b,
                None if flag => t.bytes.clone(), // Byron: no flag
                None => continue,
            };
            for era in [None, Some(Era::Byron), Some(Era::Alonzo), Some(Era::Babbage), Some(Era::Conway)] {
                check_tx(&mut ctx, &b, era, "corpus-file");
            }
        }
    }
    // 2. every tx of every corpus block, re-assembled standalone, both flags
    for a in pv::corpus::all_blocks(1) {
        idx += 1;
        if !ctx.owns(idx) {
            continue;
        }
        let Ok(sp) = spans::block_spans(&a.bytes) else { continue };
        let era = match sp.tag {
            1 => Era::Byron,
            2 => Era::Shelley,
            3 => Era::Allegra,
            4 => Era::Mary,
            5 => Era::Alonzo,
            6 => Era::Babbage,
            7 => Era::Conway,
            _ => continue,
        };
        for t in &sp.txs {
            if era == Era::Byron {
                let b = Node::arr(vec![Node::raw(t.body.bytes(&a.bytes)), Node::raw(t.wits.bytes(&a.bytes))]).to_vec();
                check_tx(&mut ctx, &b, Some(era), "corpus-block");
                continue;
            }
            for flag in [true, false] {
                let aux = t.aux.as_ref().map(|x| Node::raw(x.bytes(&a.bytes))).unwrap_or(Node::Null);
                let b = Node::arr(vec![Node::raw(t.body.bytes(&a.bytes)), Node::raw(t.wits.bytes(&a.bytes)), Node::Bool(flag), aux]).to_vec();
                check_tx(&mut ctx, &b, Some(era), "corpus-block");
            }
        }
    }
    // 3. generated
    let n = ctx.budget(40_000, 1_600_000);
    for _ in 0..n {
        let era = *ctx.rng.pick(&[Era::Alonzo, Era::Babbage, Era::Babbage, Era::Conway, Era::Conway]);
        let mut rng = Rng::new(ctx.rng.next_u64());
        let b = gen_tx(&mut rng, era);
        let e = if rng.chance(1, 10) { None } else { Some(era) };
        check_tx(&mut ctx, &b, e, "generated");
    }
    ctx.finish();
}
