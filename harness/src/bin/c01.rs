//! C01 — the flat codec round-trips any sequence of values at any bit alignment.
//!
//! For every generated sequence of items:
//!   1. the pallas `Encoder` writes the items + the terminating filler;
//!   2. the buffer must equal the bit string produced by the independent reference writer
//!      (`pv::flatref`), so that encoder and decoder cannot be wrong in the same way unnoticed;
//!   3. the pallas `Decoder`, driven with the mirrored calls, must return exactly the same values;
//!   4. after the final filler the decoder must have consumed the whole buffer.
//! The monitor records every (primitive, start-bit-offset) pair it has seen and demands all
//! 14 x 8 of them.
use num_bigint::BigInt;
use pallas_codec::flat::de::{self, Decoder};
use pallas_codec::flat::en::{self, Encoder};
use pallas_codec::flat::filler::Filler;
use pv::flatref::{encode_ref, Item, KINDS};
use pv::*;

// ---------------------------------------------------------------------------------------
// code under test: encode / decode a sequence through the public API
// ---------------------------------------------------------------------------------------

fn pallas_encode(items: &[Item], via_traits: bool) -> Result<Vec<u8>, (usize, String)> {
    let mut e = Encoder::new();
    for (i, it) in items.iter().enumerate() {
        let r: Result<(), en::Error> = (|| {
            match it {
                Item::Bool(b) => {
                    if via_traits {
                        e.encode(*b)?;
                    } else {
                        e.bool(*b);
                    }
                }
                Item::U8(x) => {
                    if via_traits {
                        e.encode(*x)?;
                    } else {
                        e.u8(*x)?;
                    }
                }
                Item::Word(x) => {
                    if via_traits {
                        e.encode(*x)?;
                    } else {
                        e.word(*x);
                    }
                }
                Item::Int(x) => {
                    if via_traits {
                        e.encode(*x)?;
                    } else {
                        e.integer(*x);
                    }
                }
                Item::Char(c) => {
                    if via_traits {
                        e.encode(*c)?;
                    } else {
                        e.char(*c);
                    }
                }
                Item::Bytes(b) => {
                    if via_traits {
                        e.encode(b.clone())?;
                    } else {
                        e.bytes(b)?;
                    }
                }
                Item::Str(s) => {
                    if via_traits {
                        e.encode(s.as_str())?;
                    } else {
                        e.utf8(s)?;
                    }
                }
                Item::BoolList(xs) => {
                    e.encode_list_with(xs, |x, e| {
                        e.bool(*x);
                        Ok(())
                    })?;
                }
                Item::U8List(xs) => {
                    e.encode_list_with(xs, |x, e| {
                        e.u8(*x)?;
                        Ok(())
                    })?;
                }
                Item::WordList(xs) => {
                    e.encode_list_with(xs, |x, e| {
                        e.word(*x);
                        Ok(())
                    })?;
                }
                Item::CharStr(s) => {
                    e.string(s);
                }
                Item::Bits(n, v) => {
                    e.bits(*n as i64, *v);
                }
                Item::BigInt(x) => {
                    if via_traits {
                        e.encode(x.clone())?;
                    } else {
                        e.big_integer(x.clone());
                    }
                }
                Item::Filler => {
                    e.encode(Filler::FillerEnd)?;
                }
            }
            Ok(())
        })();
        if let Err(err) = r {
            return Err((i, format!("{err:?}")));
        }
    }
    if let Err(err) = e.encode(Filler::FillerEnd) {
        return Err((items.len(), format!("{err:?}")));
    }
    Ok(e.buffer)
}

fn err_variant(e: &de::Error) -> &'static str {
    match e {
        de::Error::EndOfBuffer => "EndOfBuffer",
        de::Error::BufferNotByteAligned => "BufferNotByteAligned",
        de::Error::IncorrectNumBits => "IncorrectNumBits",
        de::Error::NotEnoughBytes(_) => "NotEnoughBytes",
        de::Error::NotEnoughBits(_) => "NotEnoughBits",
        de::Error::DecodeUtf8(_) => "DecodeUtf8",
        de::Error::DecodeChar(_) => "DecodeChar",
        de::Error::Message(_) => "Message",
        de::Error::UnknownTermConstructor(..) => "UnknownTermConstructor",
    }
}

struct Decoded {
    items: Vec<Item>,
    /// (index of the item whose decoding failed, error variant)
    error: Option<(usize, &'static str)>,
    pos: usize,
    used_bits: i64,
}

/// the same sequence of calls on the decoder side
fn pallas_decode(buf: &[u8], shape: &[Item], via_traits: bool) -> Decoded {
    let mut d = Decoder::new(buf);
    let mut out = Vec::with_capacity(shape.len());
    let mut error = None;
    for (i, it) in shape.iter().enumerate() {
        let r: Result<Item, de::Error> = (|| {
            Ok(match it {
                Item::Bool(_) => Item::Bool(if via_traits { d.decode::<bool>()? } else { d.bool()? }),
                Item::U8(_) => Item::U8(if via_traits { d.decode::<u8>()? } else { d.u8()? }),
                Item::Word(_) => Item::Word(if via_traits { d.decode::<usize>()? } else { d.word()? }),
                Item::Int(_) => Item::Int(if via_traits { d.decode::<isize>()? } else { d.integer()? }),
                Item::Char(_) => Item::Char(if via_traits { d.decode::<char>()? } else { d.char()? }),
                Item::Bytes(_) => Item::Bytes(if via_traits { d.decode::<Vec<u8>>()? } else { d.bytes()? }),
                Item::Str(_) => Item::Str(if via_traits { d.decode::<String>()? } else { d.utf8()? }),
                Item::BoolList(_) => Item::BoolList(d.decode_list_with(|d| d.bool())?),
                Item::U8List(_) => Item::U8List(d.decode_list_with(|d| d.u8())?),
                Item::WordList(_) => Item::WordList(d.decode_list_with(|d| d.word())?),
                Item::CharStr(_) => Item::CharStr(d.string()?),
                Item::Bits(n, _) => Item::Bits(*n, d.bits8(*n as usize)?),
                Item::BigInt(_) => Item::BigInt(if via_traits { d.decode::<BigInt>()? } else { d.big_integer()? }),
                Item::Filler => {
                    d.decode::<Filler>()?;
                    Item::Filler
                }
            })
        })();
        match r {
            Ok(v) => out.push(v),
            Err(e) => {
                error = Some((i, err_variant(&e)));
                break;
            }
        }
    }
    if error.is_none() {
        if let Err(e) = d.filler() {
            error = Some((shape.len(), err_variant(&e)));
        }
    }
    Decoded { items: out, error, pos: d.pos, used_bits: d.used_bits }
}

// ---------------------------------------------------------------------------------------
// monitor
// ---------------------------------------------------------------------------------------

fn replay_json(items: &[Item], via_traits: bool) -> serde_json::Value {
    json!({"via_traits": via_traits, "items": items.iter().map(|i| i.to_json()).collect::<Vec<_>>()})
}

fn align(starts: &[usize], i: usize) -> &'static str {
    if starts[i] % 8 == 0 {
        "aligned"
    } else {
        "unaligned"
    }
}

fn kind_at(items: &[Item], i: usize) -> &'static str {
    if i < items.len() {
        items[i].kind()
    } else {
        "final-filler"
    }
}

/// returns true when the sequence counts as non-trivial (>= 2 items, one at offset != 0)
fn check(ctx: &mut Ctx, items: &[Item], via_traits: bool) -> bool {
    ctx.eval();
    let (ref_buf, starts) = encode_ref(items);
    let mut unaligned_item = false;
    for (i, it) in items.iter().enumerate() {
        let off = starts[i] % 8;
        ctx.set_insert("pairs", &format!("{}@{}", it.kind(), off));
        ctx.count(&format!("items_{}", it.kind()));
        if off != 0 {
            unaligned_item = true;
        }
        if let Item::Bytes(b) = it {
            if b.len() > 255 {
                ctx.count("bytes_multi_block");
            }
            if !b.is_empty() && b.len() % 255 == 0 {
                ctx.count("bytes_exact_multiple_of_255");
            }
        }
    }
    ctx.add("items", items.len() as u64);
    ctx.add("encoded_bytes", ref_buf.len() as u64);
    ctx.max("longest_sequence", items.len() as u64);
    ctx.max("largest_buffer", ref_buf.len() as u64);

    // 1. encode with the code under test
    let enc = pv::panics::catch(|| pallas_encode(items, via_traits));
    let buf = match enc {
        Err(p) => {
            ctx.violation(&format!("panic:encode:{}", p.site()), &format!("Encoder panicked: {} ({} items)", p.msg, items.len()), replay_json(items, via_traits));
            return false;
        }
        Ok(Err((i, e))) => {
            ctx.violation(
                &format!("encode-error:{}:{}", kind_at(items, i), align(&starts, i)),
                &format!("Encoder returned {e} on item {i} ({})", kind_at(items, i)),
                replay_json(items, via_traits),
            );
            return false;
        }
        Ok(Ok(b)) => b,
    };
    // 2. against the reference bit string
    let mut ok = true;
    if buf != ref_buf {
        let fd = buf.iter().zip(ref_buf.iter()).position(|(a, b)| a != b).unwrap_or(buf.len().min(ref_buf.len()));
        // the item whose bit range covers the first differing byte
        let mut idx = items.len();
        for i in 0..items.len() {
            if starts[i + 1] > fd * 8 {
                idx = i;
                break;
            }
        }
        ctx.violation(
            &format!("encode-differs-from-reference:{}:{}", kind_at(items, idx), align(&starts, idx)),
            &format!(
                "encoded buffer differs from the reference bit string at byte {fd} (item {idx}, {} starting at bit offset {}): pallas {} vs reference {}",
                kind_at(items, idx),
                starts[idx] % 8,
                hex_short(&buf),
                hex_short(&ref_buf)
            ),
            replay_json(items, via_traits),
        );
        ok = false;
    }
    // 3. decode with the mirrored calls
    let dec = pv::panics::catch(|| pallas_decode(&buf, items, via_traits));
    match dec {
        Err(p) => {
            ctx.violation(&format!("panic:decode:{}", p.site()), &format!("Decoder panicked on an encoder-produced buffer: {}", p.msg), replay_json(items, via_traits));
            return false;
        }
        Ok(d) => {
            if let Some((i, ev)) = d.error {
                ctx.violation(
                    &format!("decode-error:{}:{}:{}", kind_at(items, i), align(&starts, i), ev),
                    &format!("decoding item {i} ({} at bit offset {}) of an encoder-produced buffer failed with {ev}", kind_at(items, i), starts[i] % 8),
                    replay_json(items, via_traits),
                );
                return false;
            }
            if let Some(i) = (0..items.len()).find(|&i| d.items[i] != items[i]) {
                ctx.violation(
                    &format!("value-mismatch:{}:{}", items[i].kind(), align(&starts, i)),
                    &format!("item {i} ({} at bit offset {}) decoded to {:?}, written {:?}", items[i].kind(), starts[i] % 8, d.items[i].to_json(), items[i].to_json()),
                    replay_json(items, via_traits),
                );
                ok = false;
            }
            // 4. whole buffer consumed
            if d.pos != buf.len() || d.used_bits != 0 {
                ctx.violation(
                    "buffer-not-consumed",
                    &format!("after the final filler the decoder is at byte {} bit {} of a {}-byte buffer", d.pos, d.used_bits, buf.len()),
                    replay_json(items, via_traits),
                );
                ok = false;
            }
        }
    }
    let nontrivial = ok && items.len() >= 2 && unaligned_item;
    if nontrivial {
        ctx.nontrivial(fp(&ref_buf));
        ctx.count("nontrivial_sequences");
    }
    nontrivial
}

// ---------------------------------------------------------------------------------------
// generators
// ---------------------------------------------------------------------------------------

fn gen_word(rng: &mut Rng) -> usize {
    match rng.below(5) {
        0 => {
            // 7-bit group boundaries
            let k = 1 + rng.below(9) as u32; // 7..63
            let b = 1u64 << (7 * k);
            *rng.pick(&[b - 1, b, b + 1, b - 2]) as usize
        }
        1 => *rng.pick(&[0usize, 1, 127, 128, 255, 256, usize::MAX, usize::MAX - 1, 1 << 63, (1 << 63) - 1, (1 << 63) + 1, u32::MAX as usize, u32::MAX as usize + 1]),
        _ => rng.edgy_u64() as usize,
    }
}

fn gen_int(rng: &mut Rng) -> isize {
    match rng.below(5) {
        0 => {
            // zigzag doubles: boundaries at +-2^(7k-1)
            let k = 1 + rng.below(9) as u32;
            let b = 1i64 << (7 * k - 1);
            *rng.pick(&[b - 1, b, b + 1, -b, -b - 1, -b + 1]) as isize
        }
        1 => *rng.pick(&[0isize, 1, -1, 2, -2, 63, 64, -64, -65, isize::MAX, isize::MIN, isize::MAX - 1, isize::MIN + 1]),
        _ => rng.edgy_i64() as isize,
    }
}

fn gen_char(rng: &mut Rng) -> char {
    match rng.below(4) {
        0 => *rng.pick(&['\0', '\u{1}', '\u{7f}', '\u{80}', '\u{3fff}', '\u{4000}', '\u{d7ff}', '\u{e000}', '\u{ffff}', '\u{10000}', '\u{10ffff}', '\u{10fffe}', 'a', 'ß', '€', '𝄞']),
        1 => (0x20 + rng.below(0x5f) as u8) as char,
        _ => loop {
            let v = match rng.below(3) {
                0 => rng.below(0x800) as u32,
                1 => rng.below(0x10000) as u32,
                _ => rng.below(0x110000) as u32,
            };
            if let Some(c) = char::from_u32(v) {
                break c;
            }
        },
    }
}

fn gen_bytes(rng: &mut Rng) -> Vec<u8> {
    let len = match rng.below(10) {
        0 => *rng.pick(&[0usize, 1, 2, 254, 255, 256, 257, 509, 510, 511, 764, 765, 766, 1000, 1020]),
        1 => 255 * (1 + rng.usize_below(4)),
        2 | 3 => 256 + rng.usize_below(745),
        4 | 5 | 6 => rng.usize_below(24),
        _ => rng.usize_below(1001),
    };
    match rng.below(4) {
        0 => vec![*rng.pick(&[0u8, 0xff, 0x01, 0x80]); len],
        _ => rng.bytes(len),
    }
}

fn gen_string(rng: &mut Rng) -> String {
    let n = match rng.below(6) {
        0 => 0,
        1 => 60 + rng.usize_below(200), // multi-byte chars push this beyond one 255-byte block
        _ => rng.usize_below(20),
    };
    (0..n).map(|_| gen_char(rng)).collect()
}

fn gen_bigint(rng: &mut Rng) -> BigInt {
    let mag = match rng.below(5) {
        0 => {
            let k = *rng.pick(&[0u32, 1, 6, 7, 8, 62, 63, 64, 65, 126, 127, 128, 200]);
            let b = BigInt::from(1) << k;
            match rng.below(3) {
                0 => b,
                1 => b - 1,
                _ => b + 1,
            }
        }
        1 => BigInt::from(rng.below(300)),
        _ => {
            let nbytes = 1 + rng.usize_below(28);
            BigInt::from_bytes_be(num_bigint::Sign::Plus, &rng.bytes(nbytes))
        }
    };
    if rng.bool() {
        -mag
    } else {
        mag
    }
}

fn gen_item(rng: &mut Rng, kind: &str) -> Item {
    match kind {
        "bool" => Item::Bool(rng.bool()),
        "u8" => Item::U8(if rng.chance(1, 3) { *rng.pick(&[0u8, 1, 0x7f, 0x80, 0xff, 0xfe, 0x55, 0xaa]) } else { rng.next_u8() }),
        "word" => Item::Word(gen_word(rng)),
        "integer" => Item::Int(gen_int(rng)),
        "char" => Item::Char(gen_char(rng)),
        "bytes" => Item::Bytes(gen_bytes(rng)),
        "utf8" => Item::Str(gen_string(rng)),
        "boollist" => {
            let n = rng.usize_below(20);
            Item::BoolList((0..n).map(|_| rng.bool()).collect())
        }
        "u8list" => {
            let n = rng.usize_below(12);
            Item::U8List(rng.bytes(n))
        }
        "wordlist" => {
            let n = rng.usize_below(8);
            Item::WordList((0..n).map(|_| gen_word(rng)).collect())
        }
        "charstring" => {
            let n = rng.usize_below(10);
            Item::CharStr((0..n).map(|_| gen_char(rng)).collect())
        }
        "bits" => {
            let n = 1 + rng.below(8) as u8;
            let v = match rng.below(4) {
                0 => 0,
                1 => ((1u16 << n) - 1) as u8,
                _ => (rng.below(1 << n)) as u8,
            };
            Item::Bits(n, v)
        }
        "bigint" => Item::BigInt(gen_bigint(rng)),
        "filler" => Item::Filler,
        _ => unreachable!(),
    }
}

fn gen_sequence(rng: &mut Rng) -> Vec<Item> {
    let mut items = vec![];
    // a leading run of 0..7 bools forces every start offset
    for _ in 0..rng.below(8) {
        items.push(Item::Bool(rng.bool()));
    }
    let n = match rng.below(8) {
        0 => 0,
        1 => 1,
        2 => 64usize.saturating_sub(items.len()),
        _ => rng.usize_below(65usize.saturating_sub(items.len())),
    };
    // weights: byte strings are expensive, keep them rarer in long sequences
    for _ in 0..n {
        let kind = match rng.below(100) {
            0..=17 => "bool",
            18..=27 => "u8",
            28..=39 => "word",
            40..=51 => "integer",
            52..=59 => "char",
            60..=65 => "bytes",
            66..=70 => "utf8",
            71..=76 => "boollist",
            77..=80 => "u8list",
            81..=84 => "wordlist",
            85..=88 => "charstring",
            89..=94 => "bits",
            95..=97 => "bigint",
            _ => "filler",
        };
        items.push(gen_item(rng, kind));
    }
    items
}

fn main() {
    let mut ctx = Ctx::from_args("C01");
    if let Err(e) = pv::flatref::selftest() {
        ctx.inconclusive(&format!("reference encoder self-test failed: {e}"));
        ctx.finish();
    }
    if let Some(p) = ctx.replay.clone() {
        let v: serde_json::Value = serde_json::from_slice(&std::fs::read(p).unwrap()).unwrap();
        let items: Vec<Item> = v["replay"]["items"].as_array().unwrap().iter().map(|x| Item::from_json(x).expect("item")).collect();
        let via = v["replay"]["via_traits"].as_bool().unwrap_or(false);
        let (rb, starts) = encode_ref(&items);
        println!("reference: {} (item start bits {:?})", hex_short(&rb), starts);
        println!("pallas   : {:?}", pv::panics::catch(|| pallas_encode(&items, via)).map(|r| r.map(|b| hex_short(&b))).map_err(|p| p.msg));
        check(&mut ctx, &items, via);
        println!("replayed: violations={}", ctx.n_violations());
        ctx.finish();
    }

    // (a) directed: every primitive at every start offset, in every shard
    let reps = if ctx.quick() { 6 } else { 40 };
    for kind in KINDS {
        for off in 0..8usize {
            for rep in 0..reps {
                let mut rng = ctx.sub_rng(kind, (off * 1000 + rep) as u64);
                let mut items: Vec<Item> = (0..off).map(|_| Item::Bool(rng.bool())).collect();
                items.push(gen_item(&mut rng, kind));
                for _ in 0..rng.below(4) {
                    let k = *rng.pick(&KINDS);
                    items.push(gen_item(&mut rng, k));
                }
                check(&mut ctx, &items, rep % 2 == 1);
            }
        }
    }
    // (b) the empty sequence and single values (what the pinned unit tests cover)
    check(&mut ctx, &[], false);
    for kind in KINDS {
        let mut rng = ctx.sub_rng("single", fp(kind.as_bytes()));
        for _ in 0..20 {
            let it = gen_item(&mut rng, kind);
            check(&mut ctx, &[it], rng.bool());
        }
    }
    // (c) random mixed sequences
    let n = ctx.budget(100_000, 3_000_000);
    for i in 0..n {
        let mut rng = std::mem::replace(&mut ctx.rng, Rng::new(0));
        let items = gen_sequence(&mut rng);
        let via = rng.bool();
        ctx.rng = rng;
        let nt = check(&mut ctx, &items, via);
        if nt && i < 3 && ctx.want_sample() {
            let (rb, starts) = encode_ref(&items);
            ctx.sample(json!({
                "items": items.iter().take(12).map(|x| x.to_json()).collect::<Vec<_>>(),
                "n_items": items.len(),
                "start_bit_offsets": starts.iter().take(12).map(|s| s % 8).collect::<Vec<_>>(),
                "buffer": hex_short(&rb),
            }));
        }
    }
    // all (primitive, offset) pairs must have been observed by this shard
    let mut missing = vec![];
    for kind in KINDS {
        for off in 0..8 {
            if !ctx.has_in_set("pairs", &format!("{kind}@{off}")) {
                missing.push(format!("{kind}@{off}"));
            }
        }
    }
    if !missing.is_empty() {
        ctx.inconclusive(&format!("(primitive, start-bit-offset) pairs never observed: {}", missing.join(",")));
    }
    ctx.note("all_primitive_offset_pairs_seen", json!(missing.is_empty()));
    ctx.note("pairs_required", json!(KINDS.len() * 8));
    ctx.finish();
}
