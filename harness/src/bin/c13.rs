//! C13 — KES evolution erases all signing material of past periods.
//!
//! Invariant at a quiescent point: after keygen + t updates, no 32-byte window of
//! `KesSk::as_bytes()` equals a secret of a tree node whose period range starts before t
//! (node seeds, which for leaves are the Ed25519 signing keys; for leaves also the SHA-512
//! expansion of the seed). The forbidden set comes from the independent tree model `kesref`.
//! Every offset of the buffer is scanned after every update, for every period of every history.
//! Positive controls (give the scan its power, never a verdict): the current leaf key must be
//! found at offset 0 and the still-needed right-sibling seeds must be found by the same scan.
use pv::kesdrv::{schemes, KeyView, Scheme};
use pv::kesref::{self, Tree};
use pv::*;
use std::cell::Cell;
use std::collections::HashMap;

struct Scan<'a> {
    tree: &'a Tree,
    secrets: Vec<(u32, [u8; 32], String)>,
    next: usize,
    forbidden: HashMap<[u8; 32], String>,
}

impl<'a> Scan<'a> {
    fn new(tree: &'a Tree) -> Self {
        let mut secrets = tree.secrets();
        secrets.sort_by_key(|(lo, _, _)| *lo);
        Scan { tree, secrets, next: 0, forbidden: HashMap::new() }
    }
    /// make the forbidden set that of period t (t only grows)
    fn advance(&mut self, t: u32) {
        while self.next < self.secrets.len() && self.secrets[self.next].0 < t {
            let (_, v, l) = &self.secrets[self.next];
            // an all-zero secret cannot be told apart from erased memory: unobservable, never listed
            if v.iter().any(|b| *b != 0) {
                self.forbidden.insert(*v, l.clone());
            }
            self.next += 1;
        }
    }
}

fn label_class(l: &str) -> &str {
    l.split(':').next().unwrap_or(l)
}

/// scan one key state; returns false when the positive control failed
fn scan_state(ctx: &mut Ctx, s: &Scheme, master: &[u8; 32], sc: &mut Scan, t: u32, bytes: &[u8], how: &str) -> bool {
    let kind = s.kind();
    sc.advance(t);
    ctx.eval();
    ctx.count("key_states_scanned");
    ctx.max("forbidden_set_size", sc.forbidden.len() as u64);
    ctx.add("forbidden_values_times_states", sc.forbidden.len() as u64);
    if bytes.len() != s.key_len {
        ctx.inconclusive(&format!("{}: as_bytes() has {} bytes, expected {}", s.name, bytes.len(), s.key_len));
        return false;
    }
    let nwin = bytes.len() - 31;
    ctx.add("windows_scanned", nwin as u64);
    let future = sc.tree.future_sibling_seeds(t);
    let mut future_found = 0usize;
    for off in 0..nwin {
        let w: [u8; 32] = bytes[off..off + 32].try_into().unwrap();
        if !sc.forbidden.is_empty() {
            if let Some(label) = sc.forbidden.get(&w) {
                ctx.violation(
                    &format!("C13:{kind}:past-{}-in-key-buffer", label_class(label)),
                    &format!(
                        "{} seed {}: {how} period {t}, bytes {off}..{} of as_bytes() equal the {label} of the key tree ({}), whose periods start before {t}",
                        s.name,
                        hexs(master),
                        off + 32,
                        hexs(&w)
                    ),
                    json!({"scheme": s.name, "seed": hexs(master), "t": t}),
                );
                ctx.count("forbidden_hits");
            }
        }
        if future.contains(&w) {
            future_found += 1;
        }
    }
    ctx.add("future_sibling_seeds_expected", future.len() as u64);
    ctx.add("future_sibling_seeds_found", future_found as u64);
    let control = bytes[..32] == sc.tree.leaf_seed(t);
    if control {
        ctx.count("current_leaf_key_found_at_offset_0");
    } else {
        ctx.count("current_leaf_key_missing");
    }
    if t >= 1 {
        ctx.nontrivial(fp_mix(fp(master), ((s.depth as u64) << 20) | ((s.compact as u64) << 19) | t as u64 | if how == "resumed at" { 1 << 30 } else { 0 }));
    }
    control && future_found == future.len()
}

fn run_history(ctx: &mut Ctx, s: &Scheme, master: [u8; 32], resume_at: Option<u32>, verbose: bool) {
    let tree = Tree::build(&master, s.depth);
    let total = 1u32 << s.depth;
    let mut buf = vec![0u8; s.key_len];
    let mut seed = master.to_vec();
    let op = Cell::new("keygen");
    let mut snapshot: Option<(u32, Vec<u8>)> = None;
    let mut controls_ok = true;
    ctx.set_insert("schemes_run", s.name);
    let r = pv::panics::catch(|| {
        (s.with_key)(&mut buf, &mut seed, &mut |key: &mut dyn KeyView, _pk| {
            let mut sc = Scan::new(&tree);
            for t in 0..total {
                op.set("as_bytes");
                let bytes = key.as_bytes().to_vec();
                controls_ok &= scan_state(ctx, s, &master, &mut sc, t, &bytes, "after evolving to");
                if verbose {
                    println!("t={t} forbidden={} buffer={}", sc.forbidden.len(), hex_short(&bytes));
                }
                if resume_at == Some(t) {
                    snapshot = Some((t, bytes));
                }
                op.set("update");
                let r = key.update();
                if t + 1 < total {
                    if r.is_err() {
                        // C12's business; here the history simply ends
                        ctx.count("history_cut_short_by_update_error");
                        return;
                    }
                } else {
                    // a refused update at the last period must not resurrect anything either
                    let bytes = key.as_bytes().to_vec();
                    controls_ok &= scan_state(ctx, s, &master, &mut sc, t, &bytes, "after the refused update at");
                }
            }
            ctx.count("full_histories");
        })
    });
    if let Err(p) = r {
        ctx.violation(
            &format!("panic:{}:{}", op.get(), p.site()),
            &format!("{} seed {}: {} panicked: {}", s.name, hexs(&master), op.get(), p.msg),
            json!({"scheme": s.name, "seed": hexs(&master), "t": 0}),
        );
        return;
    }
    // auxiliary observations (reported, not a verdict)
    if seed.iter().all(|b| *b == 0) {
        ctx.count("aux_caller_seed_zeroed_by_keygen");
    } else {
        ctx.count("aux_caller_seed_left_intact_by_keygen");
    }
    if buf.iter().all(|b| *b == 0) {
        ctx.count("aux_buffer_zeroed_on_drop");
    } else {
        ctx.count("aux_buffer_not_zeroed_on_drop");
    }
    // resume from a serialised key (from_bytes) and evolve it to the end
    if let Some((t0, mut bytes)) = snapshot {
        let op = Cell::new("from_bytes");
        let r = pv::panics::catch(|| {
            (s.with_existing)(&mut bytes, &mut |key: &mut dyn KeyView, _pk| {
                let mut sc = Scan::new(&tree);
                for t in t0..total {
                    if t > t0 {
                        op.set("as_bytes");
                        let b = key.as_bytes().to_vec();
                        controls_ok &= scan_state(ctx, s, &master, &mut sc, t, &b, "resumed at");
                    }
                    op.set("update");
                    if key.update().is_err() {
                        break;
                    }
                }
                ctx.count("resumed_histories");
            })
        });
        match r {
            Err(p) => ctx.violation(
                &format!("panic:{}:{}", op.get(), p.site()),
                &format!("{} seed {}: {} panicked on a key resumed at period {t0}: {}", s.name, hexs(&master), op.get(), p.msg),
                json!({"scheme": s.name, "seed": hexs(&master), "t": t0}),
            ),
            Ok(Err(e)) => ctx.inconclusive(&format!("{}: from_bytes refused the key's own as_bytes(): {e}", s.name)),
            Ok(Ok(())) => {}
        }
    }
    if !controls_ok {
        ctx.inconclusive(&format!(
            "{} seed {}: positive control failed (current leaf key / future sibling seeds not where the model expects them): the scan has no power on this history",
            s.name,
            hexs(&master)
        ));
    }
    if ctx.want_sample() && s.depth >= 2 {
        ctx.sample(json!({"scheme": s.name, "seed": hexs(&master), "history": format!("keygen + {} updates, buffer of {} bytes scanned at all {} offsets after every step", total - 1, s.key_len, s.key_len - 31),
            "forbidden_at_last_period": tree.forbidden(total - 1).len(), "example_forbidden": tree.forbidden(1).first().map(|(v, l)| format!("{l} = {}", hexs(v)))}));
    }
}

fn main() {
    let mut ctx = Ctx::from_args("C13");
    let all = schemes();
    match kesref::pin_against_haskell().and_then(|n| kesref::selftest().map(|_| n)) {
        Ok(n) => ctx.note("reference_model_pinned_to_cardano_base_vectors", json!(n)),
        Err(e) => {
            ctx.inconclusive(&format!("reference KES model could not be pinned: {e}"));
            ctx.finish();
        }
    }
    if let Some(p) = ctx.replay.clone() {
        let v: serde_json::Value = serde_json::from_slice(&std::fs::read(p).unwrap()).unwrap();
        let r = &v["replay"];
        let name = r["scheme"].as_str().unwrap();
        let s = all.iter().find(|s| s.name == name).expect("scheme");
        let mut master = [0u8; 32];
        master.copy_from_slice(&hex::decode(r["seed"].as_str().unwrap()).unwrap());
        let t = r["t"].as_u64().unwrap_or(0) as u32;
        run_history(&mut ctx, s, master, Some(t), true);
        println!("replayed: violations={}", ctx.n_violations());
        ctx.finish();
    }
    let nseeds = ((if ctx.quick() { 64.0 } else { 1500.0 }) * ctx.scale).ceil().max(1.0) as u64;
    let mut idx = 0u64;
    for si in 0..nseeds {
        let mut srng = Rng::derive(ctx.seed, "C13-seed", si);
        // random seeds only (plus all-0xff): low-entropy seeds such as 00..00 or 00..01 coincide with erased
        // (zeroed) regions of the buffer and would make the window scan report erased memory as a secret
        let master: [u8; 32] = match si {
            1 => [0xff; 32],
            _ => srng.array(),
        };
        for s in all.iter() {
            idx += 1;
            if !ctx.owns(idx) {
                continue;
            }
            let total = 1u64 << s.depth;
            let resume = srng.below(total) as u32;
            run_history(&mut ctx, s, master, Some(resume), false);
        }
    }
    ctx.note("seeds_per_scheme", json!(nseeds));
    ctx.note("every_period_of_every_history_scanned", json!(ctx.stat("history_cut_short_by_update_error") == 0));
    ctx.finish();
}
