//! oracle self-tests run by setup.sh

/// Cross-check of the own strict CBOR walker against ciborium on a generated corpus: encodings of
/// generated protocol messages (including the malformed ones of the known C22 defects), random
/// well-formed trees of the own encoder, and byte-level mutations of both.
fn walker_vs_ciborium() -> Result<String, String> {
    use pv::cbor;
    use pv::netgen::*;
    let mut rng = pv::Rng::derive(7, "selftest-ciborium", 0);
    let mut corpus: Vec<Vec<u8>> = vec![];
    for _ in 0..1500 {
        let (m, _) = gen_n1_any_message(&mut rng);
        if let Ok(b) = m.encode() {
            if b.len() < 3000 {
                corpus.push(b);
            }
        }
        let (m, _) = gen_n2_any_message(&mut rng);
        let b = encode_n2(&m);
        if b.len() < 3000 {
            corpus.push(b);
        }
        corpus.push(cbor::gen_node(&mut rng, 4).to_vec());
    }
    let base = corpus.len();
    for i in 0..base * 3 {
        let src = corpus[i % base].clone();
        let other = corpus[(i * 7 + 1) % base].clone();
        let (m, _) = cbor::mutate(&src, &[other.as_slice()], &mut rng);
        if m.len() < 4000 {
            corpus.push(m);
        }
    }
    let (mut both_ok, mut both_bad, mut explained) = (0u64, 0u64, 0u64);
    for b in &corpus {
        let ours = cbor::parse(b);
        let mut cur: &[u8] = &b[..];
        let theirs: Result<ciborium::value::Value, _> = ciborium::de::from_reader(&mut cur);
        let theirs_ok = theirs.is_ok() && cur.is_empty();
        match (&ours, theirs_ok) {
            (Ok(_), true) => both_ok += 1,
            (Err(_), false) => both_bad += 1,
            (Ok(it), false) => {
                // ciborium's Value cannot hold simple values other than false/true/null/undefined and
                // stops at 256 levels; everything else must agree
                fn exotic(it: &cbor::Item, depth: usize) -> bool {
                    depth > 200 || (it.major == 7 && (it.ai < 20 || it.ai == 24)) || it.children.iter().any(|c| exotic(c, depth + 1))
                }
                if exotic(it, 0) {
                    explained += 1;
                } else {
                    return Err(format!("walker accepts, ciborium rejects: {}", hex::encode(b)));
                }
            }
            (Err(e), true) => {
                // RFC 8949 3.3: 0xf8 followed by a value < 0x20 is not well-formed; ciborium lets it through
                // ... and RFC 8949 3.2.3: the chunks of an indefinite-length string must be definite-length
                // strings of the same major type; ciborium accepts nested indefinite chunks
                let lenient = match e {
                    cbor::CborError::Reserved(p) => b[*p] == 0xf8,
                    cbor::CborError::BadChunk(p) => b[*p] == 0x5f || b[*p] == 0x7f,
                    _ => false,
                };
                if lenient {
                    explained += 1;
                } else {
                    return Err(format!("ciborium accepts, walker rejects ({e:?}): {}", hex::encode(b)));
                }
            }
        }
    }
    if both_ok < 2000 || both_bad < 2000 {
        return Err(format!("corpus too one-sided: {both_ok} accepted, {both_bad} rejected"));
    }
    Ok(format!("{} inputs: {both_ok} accepted by both, {both_bad} rejected by both, {explained} explained differences", corpus.len()))
}
fn main() {
    pv::panics::install(); // generated messages include the ones whose encoder panics (caught)
    let mut bad = 0;
    for (n, r) in [("refhash", pv::refhash::selftest()), ("cbor", pv::cbor::selftest()), ("specs", pv::specs::selfcheck())] {
        match r {
            Ok(()) => println!("selftest {n}: ok"),
            Err(e) => {
                println!("selftest {n}: FAILED {e}");
                bad += 1;
            }
        }
    }
    match walker_vs_ciborium() {
        Ok(m) => println!("selftest cbor walker vs ciborium: ok ({m})"),
        Err(e) => {
            println!("selftest cbor walker vs ciborium: FAILED {e}");
            bad += 1;
        }
    }
    // corpus sanity
    let b = pv::corpus::blocks().len();
    let c = pv::corpus::chunk_blocks().len();
    println!("corpus: {b} block files, {c} chunk blocks, {} txs", pv::corpus::txs().len());
    if c < 1700 { println!("selftest corpus: too few chunk blocks"); bad += 1; }
    std::process::exit(if bad == 0 { 0 } else { 1 });
}
