//! oracle self-tests run by setup.sh
fn main() {
    let mut bad = 0;
    for (n, r) in [("refhash", pv::refhash::selftest()), ("cbor", pv::cbor::selftest()), ("specs", pv::specs::selfcheck())] {
        match r {
            Ok(()) => println!("selftest {n}: ok"),
            Err(e) => {
                println!("selftest {n}: FAILED {e}");
                bad += 1;
            }
        }
    }
    // corpus sanity
    let b = pv::corpus::blocks().len();
    let c = pv::corpus::chunk_blocks().len();
    println!("corpus: {b} block files, {c} chunk blocks, {} txs", pv::corpus::txs().len());
    if c < 1700 { println!("selftest corpus: too few chunk blocks"); bad += 1; }
    std::process::exit(if bad == 0 { 0 } else { 1 });
}
