//! C10 — Blake2b hashing, hash values and nonce derivations match the reference.
//!
//! In-process oracle: pv::refhash (own RFC 7693 Blake2b). Offline oracle: every shard writes a sample of
//! its events {op, params, in, out} to events-<shard>.jsonl, replayed by oracles/hash_ref.py with
//! hashlib.blake2b. Checked: Hasher<160/224/256> chunked vs one-shot vs reference; hash_tagged for all 256
//! tags; hash_cbor / hash_tagged_cbor (streaming through minicbor's Write); Hash<20/28/32> round-trips
//! through hex, CBOR and serde-json and rejects every wrong length 0..80; epoch / rolling nonces.
use pallas_codec::minicbor;
use pallas_crypto::hash::{Hash, Hasher};
use pallas_crypto::nonce::{generate_epoch_nonce, generate_rolling_nonce};
use pv::refhash::blake2b;
use pv::*;
use std::io::Write as _;
use std::str::FromStr;

struct Log {
    f: Option<std::io::BufWriter<std::fs::File>>,
    written: usize,
    cap: usize,
    p_small: u64,
    p_large: u64,
    n: u64,
}

impl Log {
    fn put(&mut self, rng: &mut Rng, op: &str, params: serde_json::Value, input: &[u8], out: &str) {
        let Some(f) = self.f.as_mut() else { return };
        if self.written >= self.cap {
            return;
        }
        let den = if input.len() <= 200 { self.p_small } else { self.p_large };
        if den > 1 && !rng.chance(1, den) {
            return;
        }
        let line = serde_json::to_string(&json!({"op": op, "params": params, "in": hexs(input), "out": out})).unwrap();
        self.written += line.len() + 1;
        self.n += 1;
        let _ = f.write_all(line.as_bytes());
        let _ = f.write_all(b"\n");
    }
}

fn lower_hex(b: &[u8]) -> String {
    let mut s = String::with_capacity(b.len() * 2);
    for x in b {
        s.push_str(&format!("{x:02x}"));
    }
    s
}

/// A CBOR value whose (already encoded) bytes are pushed through the encoder's writer in pieces.
struct Chunks<'a>(&'a [&'a [u8]]);
impl<'a, C> minicbor::Encode<C> for Chunks<'a> {
    fn encode<W: minicbor::encode::Write>(&self, e: &mut minicbor::Encoder<W>, _: &mut C) -> Result<(), minicbor::encode::Error<W::Error>> {
        for c in self.0 {
            e.writer_mut().write_all(c).map_err(minicbor::encode::Error::write)?;
        }
        Ok(())
    }
}

fn split_points(rng: &mut Rng, len: usize) -> Vec<usize> {
    let k = rng.usize_below(9); // 0..8 split points
    let mut pts: Vec<usize> = (0..k)
        .map(|_| match rng.below(4) {
            0 if len >= 128 => 128 * rng.usize_below(len / 128 + 1), // on a compression-block boundary
            1 if len >= 1 => (128 * rng.usize_below(len / 128 + 1) + *rng.pick(&[1usize, 127])).min(len),
            _ => rng.usize_below(len + 1),
        })
        .collect();
    pts.sort();
    pts
}

fn parts<'a>(data: &'a [u8], pts: &[usize]) -> Vec<&'a [u8]> {
    let mut out = vec![];
    let mut prev = 0;
    for &p in pts {
        out.push(&data[prev..p]);
        prev = p;
    }
    out.push(&data[prev..]);
    out
}

fn gen_len(rng: &mut Rng) -> usize {
    match rng.below(10) {
        0 => *rng.pick(&[0usize, 1, 2, 31, 32, 63, 64, 65, 127, 128, 129, 255, 256, 257, 383, 384, 385, 1024, 4095, 4096]),
        1 | 2 => rng.usize_below(130),
        3 => 128 * (1 + rng.usize_below(32)),
        _ => rng.usize_below(4097),
    }
}

macro_rules! hasher_case {
    ($ctx:expr, $log:expr, $bits:literal, $data:expr, $pts:expr) => {{
        const N: usize = $bits / 8;
        let data: &[u8] = $data;
        let pts: &[usize] = $pts;
        let ps = parts(data, pts);
        let want = blake2b(N, data);
        let r = pv::panics::catch(|| {
            let mut h = Hasher::<$bits>::new();
            for p in &ps {
                h.input(p);
            }
            let chunked = h.finalize();
            let oneshot = Hasher::<$bits>::hash(data);
            let mut d = Hasher::<$bits>::default();
            d.input(data);
            (chunked, oneshot, d.finalize())
        });
        $ctx.eval();
        $ctx.count(concat!("hasher_", $bits));
        match r {
            Err(p) => $ctx.violation(&format!("panic:Hasher<{}>:{}", $bits, p.site()), &format!("Hasher<{}> panicked on {} bytes split at {:?}: {}", $bits, data.len(), pts, p.msg), json!({"kind": "hash", "bits": $bits, "data": hexs(data), "splits": pts})),
            Ok((chunked, oneshot, dflt)) => {
                if oneshot.as_ref() != &want[..] || dflt.as_ref() != &want[..] {
                    $ctx.violation(&format!("C10:hasher:{}:one-shot-digest-differs", $bits), &format!("Hasher<{}>::hash({}) = {}, RFC 7693 gives {}", $bits, hex_short(data), oneshot, hexs(&want)), json!({"kind": "hash", "bits": $bits, "data": hexs(data), "splits": pts}));
                }
                if chunked.as_ref() != &want[..] {
                    $ctx.violation(&format!("C10:hasher:{}:chunked-digest-differs", $bits), &format!("Hasher<{}> fed {} bytes in parts split at {:?} = {}, RFC 7693 digest of the concatenation is {}", $bits, data.len(), pts, chunked, hexs(&want)), json!({"kind": "hash", "bits": $bits, "data": hexs(data), "splits": pts}));
                }
                $log.put(&mut $ctx.rng, "hash", json!({"bits": $bits, "splits": pts}), data, &lower_hex(chunked.as_ref()));
                if data.len() >= 129 && ps.iter().filter(|p| !p.is_empty()).count() >= 2 {
                    $ctx.nontrivial(fp_mix(fp(data), fp(&pts.iter().flat_map(|p| (*p as u32).to_le_bytes()).collect::<Vec<u8>>()) ^ $bits));
                    $ctx.count("multi_block_multi_part_inputs");
                }
                $ctx.max("longest_input", data.len() as u64);
                $ctx.max("most_parts", ps.len() as u64);
                if $ctx.want_sample() && data.len() > 129 && data.len() < 200 && pts.len() >= 2 {
                    $ctx.sample(json!({"op": "hash", "bits": $bits, "input": hex_short(data), "split_at": pts, "digest": chunked.to_string()}));
                }
            }
        }
    }};
}

macro_rules! tagged_case {
    ($ctx:expr, $log:expr, $bits:literal, $data:expr, $tag:expr) => {{
        const N: usize = $bits / 8;
        let data: &[u8] = $data;
        let tag: u8 = $tag;
        let mut cat = vec![tag];
        cat.extend_from_slice(data);
        let want = blake2b(N, &cat);
        $ctx.eval();
        $ctx.count("hash_tagged");
        match pv::panics::catch(|| Hasher::<$bits>::hash_tagged(data, tag)) {
            Err(p) => $ctx.violation(&format!("panic:hash_tagged<{}>:{}", $bits, p.site()), &p.msg, json!({"kind": "tagged", "bits": $bits, "data": hexs(data), "tag": tag})),
            Ok(h) => {
                if h.as_ref() != &want[..] {
                    let mut app = data.to_vec();
                    app.push(tag);
                    let cls = if h.as_ref() == &blake2b(N, &app)[..] { "tag-appended" } else if h.as_ref() == &blake2b(N, data)[..] { "tag-ignored" } else { "other" };
                    $ctx.violation(&format!("C10:hash_tagged:{}:digest-differs:{cls}", $bits), &format!("Hasher<{}>::hash_tagged({}, tag {tag}) = {}, reference Blake2b(tag ‖ bytes) = {}", $bits, hex_short(data), h, hexs(&want)), json!({"kind": "tagged", "bits": $bits, "data": hexs(data), "tag": tag}));
                }
                $log.put(&mut $ctx.rng, "hash_tagged", json!({"bits": $bits, "tag": tag}), data, &lower_hex(h.as_ref()));
                $ctx.set_insert("tags_seen", &format!("{tag:02x}"));
            }
        }
    }};
}

macro_rules! cbor_case {
    ($ctx:expr, $log:expr, $bits:literal, $value:expr, $enc:expr, $tag:expr, $what:expr) => {{
        const N: usize = $bits / 8;
        let enc: &[u8] = $enc;
        let tag: Option<u8> = $tag;
        let mut cat = vec![];
        if let Some(t) = tag {
            cat.push(t);
        }
        cat.extend_from_slice(enc);
        let want = blake2b(N, &cat);
        $ctx.eval();
        $ctx.count(if tag.is_some() { "hash_tagged_cbor" } else { "hash_cbor" });
        let r = pv::panics::catch(|| match tag {
            Some(t) => Hasher::<$bits>::hash_tagged_cbor($value, t),
            None => Hasher::<$bits>::hash_cbor($value),
        });
        let replay = json!({"kind": "cbor", "bits": $bits, "data": hexs(enc), "tag": tag});
        match r {
            Err(p) => $ctx.violation(&format!("panic:hash_cbor<{}>:{}", $bits, p.site()), &p.msg, replay),
            Ok(h) => {
                if h.as_ref() != &want[..] {
                    $ctx.violation(&format!("C10:{}:{}:digest-differs", if tag.is_some() { "hash_tagged_cbor" } else { "hash_cbor" }, $bits), &format!("{} value with encoding {} (tag {:?}) hashed to {}, reference over the encoded bytes = {}", $what, hex_short(enc), tag, h, hexs(&want)), replay);
                }
                $log.put(&mut $ctx.rng, if tag.is_some() { "hash_tagged_cbor" } else { "hash_cbor" }, json!({"bits": $bits, "tag": tag, "value": $what}), enc, &lower_hex(h.as_ref()));
                $ctx.set_insert("cbor_value_kinds", $what);
            }
        }
    }};
}

/// Hash<N>: round trips and wrong-length rejection
macro_rules! hash_value_case {
    ($ctx:expr, $log:expr, $n:literal) => {{
        let bytes: [u8; $n] = $ctx.rng.array();
        let h = Hash::<$n>::from(bytes);
        let hexw = lower_hex(&bytes);
        let replay = json!({"kind": "value", "n": $n, "data": hexw});
        $ctx.eval();
        $ctx.count("hash_value_roundtrips");
        let r = pv::panics::catch(|| {
            let shown = h.to_string();
            let parsed = Hash::<$n>::from_str(&shown);
            let enc = minicbor::to_vec(h).ok();
            let dec = enc.as_ref().map(|e| minicbor::decode::<Hash<$n>>(e).map_err(|e| e.to_string()));
            let js = serde_json::to_string(&h).ok();
            let jd = js.as_ref().map(|j| serde_json::from_str::<Hash<$n>>(j).map_err(|e| e.to_string()));
            (shown, parsed, enc, dec, js, jd)
        });
        match r {
            Err(p) => $ctx.violation(&format!("panic:Hash<{}>:roundtrip:{}", $n, p.site()), &p.msg, replay),
            Ok((shown, parsed, enc, dec, js, jd)) => {
                if shown != hexw {
                    $ctx.violation(&format!("C10:hash-value:{}:display-not-hex", $n), &format!("Hash<{}>({hexw}) displays as {shown}", $n), replay.clone());
                }
                if parsed.as_ref().ok() != Some(&h) {
                    $ctx.violation(&format!("C10:hash-value:{}:hex-roundtrip", $n), &format!("Hash<{}>::from_str({shown}) = {:?}", $n, parsed), replay.clone());
                }
                let mut want_enc = if $n < 24 { vec![0x40 + $n as u8] } else { vec![0x58, $n as u8] };
                want_enc.extend_from_slice(&bytes);
                if enc.as_deref() != Some(&want_enc[..]) {
                    $ctx.violation(&format!("C10:hash-value:{}:cbor-encoding", $n), &format!("Hash<{}>({hexw}) encodes to {:?}, expected the byte string {}", $n, enc.as_ref().map(|e| hexs(e)), hexs(&want_enc)), replay.clone());
                }
                if dec != Some(Ok(h)) {
                    $ctx.violation(&format!("C10:hash-value:{}:cbor-roundtrip", $n), &format!("decode(encode(Hash<{}>({hexw}))) = {:?}", $n, dec), replay.clone());
                }
                if js.as_deref() != Some(&format!("\"{hexw}\"")[..]) {
                    $ctx.violation(&format!("C10:hash-value:{}:json-encoding", $n), &format!("Hash<{}>({hexw}) serialises to {:?}", $n, js), replay.clone());
                }
                if jd != Some(Ok(h)) {
                    $ctx.violation(&format!("C10:hash-value:{}:json-roundtrip", $n), &format!("from_str(to_string(Hash<{}>({hexw}))) = {:?}", $n, jd), replay.clone());
                }
                $log.put(&mut $ctx.rng, "hash_display", json!({"n": $n}), &bytes, &shown);
                if let Some(e) = enc {
                    $log.put(&mut $ctx.rng, "hash_cbor_enc", json!({"n": $n}), &bytes, &lower_hex(&e));
                }
            }
        }
        // a non-minimal / indefinite encoding of the right payload is not a wrong length: not judged.
        // wrong lengths: every L in 0..=80, L != N, through the three decoders
        for l in 0..=80usize {
            if l == $n {
                continue;
            }
            let wrong = $ctx.rng.bytes(l);
            // half of the time the wrong-length string is a prefix / extension of a valid hash
            let wrong = if $ctx.rng.bool() {
                let mut w = bytes.to_vec();
                w.extend_from_slice(&wrong);
                w.truncate(l);
                w
            } else {
                wrong
            };
            let whex = lower_hex(&wrong);
            let cb = cbor::Node::bytes(&wrong).to_vec();
            let r = pv::panics::catch(|| (Hash::<$n>::from_str(&whex).is_ok(), minicbor::decode::<Hash<$n>>(&cb).is_ok(), serde_json::from_str::<Hash<$n>>(&format!("\"{whex}\"")).is_ok()));
            $ctx.evals(3);
            $ctx.add("wrong_length_rejections_checked", 3);
            let replay = json!({"kind": "reject", "n": $n, "data": whex});
            match r {
                Err(p) => $ctx.violation(&format!("panic:Hash<{}>:decode-wrong-length:{}", $n, p.site()), &format!("{} bytes: {}", l, p.msg), replay),
                Ok((a, b, c)) => {
                    let dir = if l < $n { "shorter" } else { "longer" };
                    if a {
                        $ctx.violation(&format!("C10:hash-value:{}:hex-accepts-{dir}", $n), &format!("Hash<{}>::from_str accepted {l} bytes: {whex}", $n), replay.clone());
                    }
                    if b {
                        $ctx.violation(&format!("C10:hash-value:{}:cbor-accepts-{dir}", $n), &format!("Hash<{}> CBOR decode accepted a {l}-byte string: {}", $n, hexs(&cb)), replay.clone());
                    }
                    if c {
                        $ctx.violation(&format!("C10:hash-value:{}:json-accepts-{dir}", $n), &format!("Hash<{}> serde-json accepted {l} bytes: {whex}", $n), replay.clone());
                    }
                    $ctx.nontrivial(fp_mix(fp(&wrong), $n << 8 | l as u64));
                }
            }
        }
        // odd number of hex digits
        let odd = &hexw[..hexw.len() - 1];
        $ctx.eval();
        if Hash::<$n>::from_str(odd).is_ok() {
            $ctx.violation(&format!("C10:hash-value:{}:hex-accepts-odd-length", $n), &format!("Hash<{}>::from_str accepted {odd}", $n), json!({"kind": "reject", "n": $n, "data": odd}));
        }
    }};
}

fn ref_epoch_nonce(nc: &[u8; 32], nh: &[u8; 32], extra: Option<&[u8]>) -> Vec<u8> {
    let mut v = nc.to_vec();
    v.extend_from_slice(nh);
    let h = blake2b(32, &v);
    match extra {
        None => h,
        Some(e) => {
            let mut w = h;
            w.extend_from_slice(e);
            blake2b(32, &w)
        }
    }
}

fn ref_rolling_nonce(prev: &[u8; 32], vrf: &[u8]) -> Vec<u8> {
    let mut v = prev.to_vec();
    v.extend_from_slice(&blake2b(32, vrf));
    blake2b(32, &v)
}

/// mainnet values (the same chain data the pallas unit tests quote): pins the *formula* of the oracle
fn pin_nonce_formulas() -> Result<(), String> {
    let h = |s: &str| -> [u8; 32] { hex::decode(s).unwrap().try_into().unwrap() };
    let e1 = ref_epoch_nonce(&h("e86e133bd48ff5e79bec43af1ac3e348b539172f33e502d2c96735e8c51bd04d"), &h("d7a1ff2a365abed59c9ae346cba842b6d3df06d055dba79a113e0704b44cc3e9"), None);
    if hexs(&e1) != "e536a0081ddd6d19786e9d708a85819a5c3492c0da7349f59c8ad3e17e4acd98" {
        return Err("epoch nonce formula (no extra entropy) does not reproduce the mainnet epoch nonce".into());
    }
    let ee = hex::decode("d982e06fd33e7440b43cefad529b7ecafbaa255e38178ad4189a37e4ce9bf1fa").unwrap();
    let e2 = ref_epoch_nonce(&h("d1340a9c1491f0face38d41fd5c82953d0eb48320d65e952414a0c5ebaf87587"), &h("ee91d679b0a6ce3015b894c575c799e971efac35c7a8cbdc2b3f579005e69abd"), Some(&ee));
    if hexs(&e2) != "0022cfa563a5328c4fb5c8017121329e964c26ade5d167b1bd9b2ec967772b60" {
        return Err("epoch nonce formula (extra entropy) does not reproduce the mainnet epoch 259 nonce".into());
    }
    let g = h("1a3be38bcbb7911969283716ad7aa550250226b76a61fc51cc9a9a35d9276d81");
    let v0 = hex::decode("36ec5378d1f5041a59eb8d96e61de96f0950fb41b49ff511f7bc7fd109d4383e1d24be7034e6749c6612700dd5ceb0c66577b88a19ae286b1321d15bce1ab736").unwrap();
    let r0 = ref_rolling_nonce(&g, &v0);
    if hexs(&r0) != "2af15f57076a8ff225746624882a77c8d2736fe41d3db70154a22b50af851246" {
        return Err("rolling nonce formula does not reproduce the first Shelley eta_v".into());
    }
    let v1 = hex::decode("e0bf34a6b73481302f22987cde4c12807cbc2c3fea3f7fcb77261385a50e8ccdda3226db3efff73e9fb15eecf841bbc85ce37550de0435ebcdcb205e0ed08467").unwrap();
    let r1 = ref_rolling_nonce(&r0.clone().try_into().unwrap(), &v1);
    if hexs(&r1) != "a815ff978369b57df09b0072485c26920dc0ec8e924a852a42f0715981cf0042" {
        return Err("rolling nonce formula does not reproduce the second Shelley eta_v".into());
    }
    Ok(())
}

fn nonce_case(ctx: &mut Ctx, log: &mut Log) {
    let nc: [u8; 32] = ctx.rng.array();
    let nh: [u8; 32] = ctx.rng.array();
    let extra: Option<Vec<u8>> = match ctx.rng.below(4) {
        0 => None,
        1 => Some(ctx.rng.bytes(32)),
        2 => {
            let n = ctx.rng.usize_below(65);
            Some(ctx.rng.bytes(n))
        }
        _ => None,
    };
    let want = ref_epoch_nonce(&nc, &nh, extra.as_deref());
    ctx.eval();
    ctx.count(if extra.is_some() { "epoch_nonce_with_extra_entropy" } else { "epoch_nonce_plain" });
    let replay = json!({"kind": "epoch", "nc": hexs(&nc), "nh": hexs(&nh), "extra": extra.as_ref().map(|e| hexs(e))});
    match pv::panics::catch(|| generate_epoch_nonce(Hash::from(nc), Hash::from(nh), extra.as_deref())) {
        Err(p) => ctx.violation(&format!("panic:generate_epoch_nonce:{}", p.site()), &p.msg, replay),
        Ok(got) => {
            if got.as_ref() != &want[..] {
                let swapped = ref_epoch_nonce(&nh, &nc, extra.as_deref());
                let cls = if got.as_ref() == &swapped[..] { "operands-swapped" } else if extra.is_some() && got.as_ref() == &ref_epoch_nonce(&nc, &nh, None)[..] { "extra-entropy-ignored" } else { "other" };
                ctx.violation(
                    &format!("C10:epoch-nonce:{}:{cls}", if extra.is_some() { "extra-entropy" } else { "plain" }),
                    &format!("generate_epoch_nonce(nc={}, nh={}, extra={:?}) = {got}, Praos composition gives {}", hexs(&nc), hexs(&nh), extra.as_ref().map(|e| hexs(e)), hexs(&want)),
                    replay,
                );
            }
            let mut input = nc.to_vec();
            input.extend_from_slice(&nh);
            log.put(&mut ctx.rng, "epoch_nonce", json!({"extra": extra.as_ref().map(|e| hexs(e))}), &input, &lower_hex(got.as_ref()));
            ctx.nontrivial(fp_mix(fp(&input), fp(extra.as_deref().unwrap_or(&[0xEE]))));
        }
    }
    // rolling nonce, chained a few steps
    let mut prev: [u8; 32] = ctx.rng.array();
    for _ in 0..3 {
        let vrf = if ctx.rng.bool() { ctx.rng.bytes(64) } else { ctx.rng.bytes(32) };
        let want = ref_rolling_nonce(&prev, &vrf);
        ctx.eval();
        ctx.count(if vrf.len() == 64 { "rolling_nonce_vrf64" } else { "rolling_nonce_vrf32" });
        let replay = json!({"kind": "rolling", "prev": hexs(&prev), "vrf": hexs(&vrf)});
        match pv::panics::catch(|| generate_rolling_nonce(Hash::from(prev), &vrf)) {
            Err(p) => {
                ctx.violation(&format!("panic:generate_rolling_nonce:vrf{}:{}", vrf.len(), p.site()), &p.msg, replay);
                break;
            }
            Ok(got) => {
                if got.as_ref() != &want[..] {
                    ctx.violation(
                        &format!("C10:rolling-nonce:vrf{}:differs", vrf.len()),
                        &format!("generate_rolling_nonce({}, {}) = {got}, Praos composition Blake2b-256(prev ‖ Blake2b-256(vrf)) = {}", hexs(&prev), hexs(&vrf), hexs(&want)),
                        replay,
                    );
                }
                let mut input = prev.to_vec();
                input.extend_from_slice(&vrf);
                log.put(&mut ctx.rng, "rolling_nonce", json!({}), &input, &lower_hex(got.as_ref()));
                ctx.nontrivial(fp(&input));
                prev = *got;
            }
        }
    }
}

fn cbor_cases(ctx: &mut Ctx, log: &mut Log) {
    let tag = if ctx.rng.bool() { Some(ctx.rng.next_u8()) } else { None };
    let bits = *ctx.rng.pick(&[160u32, 224, 256]);
    macro_rules! go {
        ($value:expr, $enc:expr, $what:expr) => {
            match bits {
                160 => cbor_case!(ctx, log, 160, $value, $enc, tag, $what),
                224 => cbor_case!(ctx, log, 224, $value, $enc, tag, $what),
                _ => cbor_case!(ctx, log, 256, $value, $enc, tag, $what),
            }
        };
    }
    match ctx.rng.below(6) {
        0 | 1 => {
            // arbitrary CBOR item from the own generator, pushed through the writer in random pieces
            let node = cbor::gen_node(&mut ctx.rng, 4);
            let enc = node.to_vec();
            let pts = split_points(&mut ctx.rng, enc.len());
            let ps = parts(&enc, &pts);
            let v = Chunks(&ps);
            go!(&v, &enc, "generated CBOR item written in pieces");
            if enc.len() >= 129 && ps.iter().filter(|p| !p.is_empty()).count() >= 2 {
                ctx.nontrivial(fp_mix(fp(&enc), pts.len() as u64 ^ 0xCB));
            }
        }
        2 => {
            let v: (u64, String, Vec<i64>, Option<bool>) = (ctx.rng.edgy_u64(), cbor::gen_text(&mut ctx.rng, 40), (0..ctx.rng.usize_below(40)).map(|_| ctx.rng.edgy_i64()).collect(), if ctx.rng.bool() { Some(ctx.rng.bool()) } else { None });
            let enc = minicbor::to_vec(&v).unwrap();
            go!(&v, &enc, "tuple (u64, text, [i64], bool?)");
            ctx.nontrivial(fp_mix(fp(&enc), 0xCB2));
        }
        3 => {
            let n = gen_len(&mut ctx.rng);
            let v = minicbor::bytes::ByteVec::from(ctx.rng.bytes(n));
            let enc = minicbor::to_vec(&v).unwrap();
            go!(&v, &enc, "byte string");
            if enc.len() >= 129 {
                ctx.nontrivial(fp_mix(fp(&enc), 0xCB3));
            }
        }
        4 => {
            let v: Vec<Hash<32>> = (0..ctx.rng.usize_below(8)).map(|_| Hash::from(ctx.rng.array::<32>())).collect();
            let enc = minicbor::to_vec(&v).unwrap();
            go!(&v, &enc, "array of Hash<32>");
            if enc.len() >= 129 {
                ctx.nontrivial(fp_mix(fp(&enc), 0xCB4));
            }
        }
        _ => {
            let v: std::collections::BTreeMap<u32, (Hash<28>, u64)> = (0..ctx.rng.usize_below(6)).map(|_| (ctx.rng.next_u32() >> ctx.rng.below(32), (Hash::from(ctx.rng.array::<28>()), ctx.rng.edgy_u64()))).collect();
            let enc = minicbor::to_vec(&v).unwrap();
            go!(&v, &enc, "map u32 -> (Hash<28>, u64)");
            if enc.len() >= 129 {
                ctx.nontrivial(fp_mix(fp(&enc), 0xCB5));
            }
        }
    }
}

fn hash_case(ctx: &mut Ctx, log: &mut Log, bits: u32, data: &[u8], pts: &[usize]) {
    match bits {
        160 => hasher_case!(ctx, log, 160, data, pts),
        224 => hasher_case!(ctx, log, 224, data, pts),
        _ => hasher_case!(ctx, log, 256, data, pts),
    }
}

fn tagged(ctx: &mut Ctx, log: &mut Log, bits: u32, data: &[u8], tag: u8) {
    match bits {
        160 => tagged_case!(ctx, log, 160, data, tag),
        224 => tagged_case!(ctx, log, 224, data, tag),
        _ => tagged_case!(ctx, log, 256, data, tag),
    }
}

fn main() {
    let mut ctx = Ctx::from_args("C10");
    let mut log = Log { f: None, written: 0, cap: 0, p_small: 1, p_large: 1, n: 0 };
    if let Err(e) = pv::refhash::selftest().and_then(|_| pin_nonce_formulas()) {
        ctx.inconclusive(&format!("oracle could not be pinned: {e}"));
        ctx.finish();
    }
    ctx.note("nonce_formulas_pinned_to_mainnet_values", json!(4));
    if let Some(p) = ctx.replay.clone() {
        let v: serde_json::Value = serde_json::from_slice(&std::fs::read(p).unwrap()).unwrap();
        let r = &v["replay"];
        let data = hex::decode(r["data"].as_str().unwrap_or("")).unwrap_or_default();
        match r["kind"].as_str().unwrap_or("") {
            "hash" => {
                let pts: Vec<usize> = r["splits"].as_array().map(|a| a.iter().map(|x| x.as_u64().unwrap() as usize).collect()).unwrap_or_default();
                hash_case(&mut ctx, &mut log, r["bits"].as_u64().unwrap() as u32, &data, &pts);
            }
            "tagged" => tagged(&mut ctx, &mut log, r["bits"].as_u64().unwrap() as u32, &data, r["tag"].as_u64().unwrap() as u8),
            "cbor" => {
                let ps = [&data[..]];
                let v = Chunks(&ps);
                let tag = r["tag"].as_u64().map(|t| t as u8);
                match r["bits"].as_u64().unwrap() {
                    160 => cbor_case!(ctx, log, 160, &v, &data, tag, "replayed encoding"),
                    224 => cbor_case!(ctx, log, 224, &v, &data, tag, "replayed encoding"),
                    _ => cbor_case!(ctx, log, 256, &v, &data, tag, "replayed encoding"),
                }
            }
            "epoch" | "rolling" | "value" | "reject" => {
                println!("replay of kind {}: inputs are in the witness; re-running the generator family instead", r["kind"]);
                nonce_case(&mut ctx, &mut log);
                hash_value_case!(ctx, log, 20);
                hash_value_case!(ctx, log, 28);
                hash_value_case!(ctx, log, 32);
            }
            k => println!("unknown replay kind {k}"),
        }
        println!("replayed: violations={}", ctx.n_violations());
        ctx.finish();
    }
    let path = ctx.out.join(format!("events-{}.jsonl", ctx.shard));
    log = Log {
        f: std::fs::File::create(&path).ok().map(std::io::BufWriter::new),
        written: 0,
        cap: if ctx.quick() { 1_200_000 } else { 4_000_000 },
        p_small: if ctx.quick() { 1 } else { 40 },
        p_large: if ctx.quick() { 6 } else { 500 },
        n: 0,
    };
    if log.f.is_none() {
        ctx.inconclusive("could not create the event log for the offline oracle");
    }
    // ---- all 256 tag bytes, all three digest sizes
    for tag in 0..=255u8 {
        if !ctx.owns(tag as u64) {
            continue;
        }
        for bits in [160u32, 224, 256] {
            for k in 0..2 {
                let n = if k == 0 { ctx.rng.usize_below(64) } else { gen_len(&mut ctx.rng) };
                let data = ctx.rng.bytes(n);
                tagged(&mut ctx, &mut log, bits, &data, tag);
                ctx.nontrivial(fp_mix(fp(&data), (tag as u64) << 16 | bits as u64));
            }
        }
    }
    ctx.note("all_256_tags_times_3_digest_sizes", json!(true));
    // ---- fixed boundary lengths, each split at every block boundary +-1
    for (i, len) in [0usize, 1, 127, 128, 129, 255, 256, 257, 4095, 4096].into_iter().enumerate() {
        if !ctx.owns(i as u64) {
            continue;
        }
        let data = ctx.rng.bytes(len);
        for bits in [160u32, 224, 256] {
            hash_case(&mut ctx, &mut log, bits, &data, &[]);
            for p in [1usize, 127, 128, 129, 255, 256, 257] {
                if p <= len {
                    hash_case(&mut ctx, &mut log, bits, &data, &[p]);
                    hash_case(&mut ctx, &mut log, bits, &data, &[p, p]); // an empty part in the middle
                }
            }
        }
    }
    // ---- random mix
    let n = ctx.budget(26_000, 2_600_000);
    for _ in 0..n {
        match ctx.rng.below(20) {
            0..=8 => {
                let len = gen_len(&mut ctx.rng);
                let data = ctx.rng.bytes(len);
                let pts = split_points(&mut ctx.rng, len);
                let bits = *ctx.rng.pick(&[160u32, 224, 256]);
                hash_case(&mut ctx, &mut log, bits, &data, &pts);
            }
            9..=11 => {
                let len = gen_len(&mut ctx.rng);
                let data = ctx.rng.bytes(len);
                let bits = *ctx.rng.pick(&[160u32, 224, 256]);
                let tag = ctx.rng.next_u8();
                tagged(&mut ctx, &mut log, bits, &data, tag);
                if len >= 128 {
                    ctx.nontrivial(fp_mix(fp(&data), (tag as u64) << 16 | bits as u64));
                }
            }
            12..=15 => cbor_cases(&mut ctx, &mut log),
            16 => match ctx.rng.below(3) {
                0 => hash_value_case!(ctx, log, 20),
                1 => hash_value_case!(ctx, log, 28),
                _ => hash_value_case!(ctx, log, 32),
            },
            _ => nonce_case(&mut ctx, &mut log),
        }
    }
    // auxiliary (not part of the property): From<&[u8]> with a wrong length panics instead of failing softly
    if ctx.shard == 0 {
        let r = pv::panics::catch(|| Hash::<32>::from(&[0u8; 31][..]));
        ctx.note("aux_from_slice_wrong_length", json!(if r.is_err() { "panics (documented copy_from_slice behaviour, not judged)" } else { "returns a value" }));
    }
    ctx.add("events_logged_for_offline_oracle", log.n);
    if let Some(f) = log.f.as_mut() {
        let _ = f.flush();
    }
    ctx.finish();
}
