//! C34 — accepted transactions conserve value exactly.
//!
//! Oracle: own balance in unbounded integers (num-bigint) over the own CBOR view of the mutated
//! transaction (`pv::fixmut::parse_tx`, nothing of pallas) and the harness-owned UTxO table:
//!   post-Byron, no certificates / withdrawals / treasury / donation:
//!       Σ spent + mint = Σ produced + fee          for ada and for every asset
//!   Byron:  Σ in − Σ out ≥ a·size + b   (0 when every input is a redeem address), with size taken
//!       as |tx| + |witnesses| (the smallest of the candidate size definitions, so that a reported
//!       shortfall is a shortfall under any of them).
//! A violation is reported only for transactions `validate_tx` ACCEPTS.
//!
//! Workload: the 24 re-keyed fixtures (Byron re-keyed with own bootstrap / redeem addresses), every
//! mutated body re-signed: ±1 on fee / output coin / asset / mint quantities, balanced shifts,
//! a "lab" asset minted with an always-true native script (or placed into the spent UTxO) with
//! produced quantities chosen as wrap-around candidates (x vs x − 2^64, around 2^63), burns of assets
//! absent from the inputs, compensating errors on two assets, ada sums around 2^64, Byron outputs
//! exceeding inputs.
use num_bigint::BigInt;
use pallas_traverse::Era;
use pv::cbor::Node;
use pv::fixmut::*;
use pv::fixtures::*;
use pv::*;
use std::collections::BTreeMap;

const TWO64: u128 = 1u128 << 64;

struct Case {
    family: &'static str,
    scenario: String,
    tx: Vec<u8>,
    utxo: Vec<UtxoEntry>,
}

/// last entry with the same input wins (as `HashMap::insert` in the store)
fn utxo_map(utxo: &[UtxoEntry]) -> BTreeMap<InRef, &Out> {
    let mut m = BTreeMap::new();
    for e in utxo {
        m.insert((e.tx_hash, e.index), &e.out);
    }
    m
}
fn fund(utxo: &mut [UtxoEntry], r: &InRef, add: u64) -> bool {
    let mut ok = false;
    for e in utxo.iter_mut() {
        if (e.tx_hash, e.index) == *r {
            match e.out.coin.checked_add(add) {
                Some(c) => {
                    e.out.coin = c;
                    ok = true
                }
                None => return false,
            }
        }
    }
    ok
}
fn give_asset(utxo: &mut [UtxoEntry], r: &InRef, policy: &[u8], name: &[u8], q: u64) {
    for e in utxo.iter_mut() {
        if (e.tx_hash, e.index) == *r {
            if let Some(p) = e.out.assets.iter_mut().find(|(p, _)| p == policy) {
                p.1.push((name.to_vec(), q));
            } else {
                e.out.assets.push((policy.to_vec(), vec![(name.to_vec(), q)]));
            }
        }
    }
}

/// raise the fee to the linear minimum (+ slack) of the edited transaction, paid for by input 0's UTxO
fn top_up_fee(f: &Fixture, tx: Vec<u8>, utxo: &mut [UtxoEntry]) -> Option<Vec<u8>> {
    let (a, b) = f.env.minfee();
    let need = a * (ledger_size(&tx) as u64 + 24) + b;
    let cur = fee(&tx);
    if cur >= need {
        return Some(tx);
    }
    let in0 = *body_inputs(&tx, 0).first()?;
    if !fund(utxo, &in0, need - cur) {
        return None;
    }
    Some(set_fee(&tx, need))
}

fn small(rng: &mut Rng) -> u64 {
    match rng.below(4) {
        0 => 1,
        1 => 1 + rng.below(10),
        2 => 1 + rng.below(1_000_000),
        _ => 1 + rng.below(1 << 40),
    }
}

fn mary_or_later(f: &Fixture) -> bool {
    !matches!(f.era, Era::Byron | Era::Shelley | Era::Allegra)
}

/// quantities of the lab asset: (in spent UTxO entries by input position, mint, produced per new output)
struct Lab {
    name: &'static str,
    spent: Vec<u64>,
    mint: i128,
    produced: Vec<u64>,
    /// quantity of a second asset *name* under the same policy that appears only in a produced output
    sibling_produced: u64,
    /// quantity of a second asset name under the same policy that appears only in the spent UTxO
    sibling_spent: u64,
}

fn lab_scenario(rng: &mut Rng, n_inputs: usize) -> Lab {
    let k = small(rng);
    let d = small(rng);
    let s = small(rng);
    let big = |x: u128| -> u64 { (x % TWO64) as u64 };
    match rng.below(24) {
        22 => Lab { name: "forged-without-mint", spent: vec![], mint: 0, produced: vec![k], sibling_produced: 0, sibling_spent: 0 },
        23 => Lab { name: "vanishes-without-burn", spent: vec![k], mint: 0, produced: vec![], sibling_produced: 0, sibling_spent: 0 },
        18 => Lab { name: "sibling-name-forged(policy-spent)", spent: vec![k], mint: 0, produced: vec![k], sibling_produced: d, sibling_spent: 0 },
        19 => Lab { name: "sibling-name-forged(policy-minted)", spent: vec![], mint: k as i128, produced: vec![k], sibling_produced: d, sibling_spent: 0 },
        20 => Lab { name: "sibling-name-vanishes", spent: vec![k], mint: 0, produced: vec![k], sibling_produced: 0, sibling_spent: d },
        21 => Lab { name: "sibling-name-balanced", spent: vec![k], mint: 0, produced: vec![k], sibling_produced: d, sibling_spent: d },
        16 => Lab { name: "mint-counted-on-the-wrong-side", spent: vec![k], mint: k as i128, produced: vec![], sibling_produced: 0, sibling_spent: 0 },
        17 => Lab { name: "mint-counted-on-the-wrong-side(2)", spent: vec![k.saturating_add(d)], mint: d as i128, produced: vec![k], sibling_produced: 0, sibling_spent: 0 },
        0 => Lab { name: "mint-balanced", spent: vec![], mint: k as i128, produced: vec![k], sibling_produced: 0, sibling_spent: 0 },
        1 => Lab { name: "spent-balanced", spent: vec![k.saturating_add(d)], mint: 0, produced: vec![k, d], sibling_produced: 0, sibling_spent: 0 },
        2 => Lab { name: "mint-unbalanced+1", spent: vec![], mint: k as i128, produced: vec![k + 1], sibling_produced: 0, sibling_spent: 0 },
        3 => Lab { name: "mint-unbalanced-1", spent: vec![], mint: k as i128 + 1, produced: vec![k], sibling_produced: 0, sibling_spent: 0 },
        4 => Lab { name: "burn-absent-produced-2^64-k", spent: vec![], mint: -(k as i128), produced: vec![big(TWO64 - k as u128)], sibling_produced: 0, sibling_spent: 0 },
        5 => Lab { name: "burn-absent-nothing-produced", spent: vec![], mint: -(k as i128), produced: vec![], sibling_produced: 0, sibling_spent: 0 },
        6 => Lab { name: "burn-present-balanced", spent: vec![k.saturating_add(d)], mint: -(k as i128), produced: vec![d], sibling_produced: 0, sibling_spent: 0 },
        7 => {
            // produced a + (2^64 − d') with a − d' = s   => Σ produced = 2^64 + s, spent/mint = s
            let a = s.saturating_add(d);
            if rng.bool() {
                Lab { name: "produced-wrap-2^64(minted)", spent: vec![], mint: s as i128, produced: vec![a, big(TWO64 - d as u128)], sibling_produced: 0, sibling_spent: 0 }
            } else {
                Lab { name: "produced-wrap-2^64(spent)", spent: vec![s], mint: 0, produced: vec![a, big(TWO64 - d as u128)], sibling_produced: 0, sibling_spent: 0 }
            }
        }
        8 => Lab { name: "produced-wrap-around-2^63", spent: vec![], mint: s as i128, produced: vec![(1u64 << 63) - 1, (1u64 << 63) + 1 + s], sibling_produced: 0, sibling_spent: 0 },
        9 => {
            // spent 2^64 − d, mint m > d, produced m − d
            let m = d.saturating_add(k);
            Lab { name: "spent-2^64-d-plus-mint", spent: vec![big(TWO64 - d as u128)], mint: m as i128, produced: vec![k], sibling_produced: 0, sibling_spent: 0 }
        }
        10 if n_inputs >= 2 => Lab { name: "spent-wrap-two-inputs", spent: vec![s.saturating_add(d), big(TWO64 - d as u128)], mint: 0, produced: vec![s], sibling_produced: 0, sibling_spent: 0 },
        11 => Lab { name: "produced-big-first", spent: vec![], mint: s as i128, produced: vec![big(TWO64 - d as u128), s.saturating_add(d)], sibling_produced: 0, sibling_spent: 0 },
        12 => Lab { name: "three-way-wrap", spent: vec![], mint: s as i128, produced: vec![(1u64 << 63) - 1, (1u64 << 63) - 1, 2 + s], sibling_produced: 0, sibling_spent: 0 },
        13 => Lab { name: "big-balanced", spent: vec![(1u64 << 63) + k], mint: 0, produced: vec![(1u64 << 63) + k], sibling_produced: 0, sibling_spent: 0 },
        14 => Lab { name: "mint-max-balanced", spent: vec![], mint: i64::MAX as i128, produced: vec![i64::MAX as u64], sibling_produced: 0, sibling_spent: 0 },
        _ => Lab { name: "mint-balanced-split", spent: vec![], mint: (k as i128) + (d as i128), produced: vec![k, d], sibling_produced: 0, sibling_spent: 0 },
    }
}

fn gen_case(rng: &mut Rng, f: &Fixture) -> Option<Case> {
    let tx0 = f.tx_bytes.clone();
    let mut utxo = f.utxo.clone();
    if f.era == Era::Byron {
        return gen_byron(rng, f);
    }
    let n_out = output_count(&tx0);
    let ins = body_inputs(&tx0, 0);
    let in0 = *ins.first()?;
    let legacy = outputs(&tx0).first().map(|o| !matches!(o, Node::Map(..) | Node::MapIndef(..))).unwrap_or(true);
    let addr0 = outputs(&tx0).first().and_then(parse_output)?.addr;
    let fam = rng.below(if mary_or_later(f) { 10 } else { 4 });
    let (family, scenario, tx): (&'static str, String, Vec<u8>) = match fam {
        0 => {
            // unbalanced ±delta on fee or one output coin
            // errors a wrong balance equation would not notice: an output (or the fee) changed by exactly the fee
            let f0 = fee(&tx0) as i128;
            let delta = match rng.below(8) {
                0 => f0,
                1 => -f0,
                2 => 2 * f0,
                _ => (if rng.chance(2, 3) { 1 } else { small(rng) as i128 }) * if rng.bool() { 1 } else { -1 },
            };
            let tgt = rng.below(n_out as u64 + 1) as usize;
            if tgt == n_out {
                let nf = fee(&tx0) as i128 + delta;
                if nf < 0 || nf > u64::MAX as i128 {
                    return None;
                }
                ("unbalanced", format!("fee{delta:+}"), set_fee(&tx0, nf as u64))
            } else {
                let c = output_coin(&tx0, tgt) as i128 + delta;
                if c < 0 || c > u64::MAX as i128 {
                    return None;
                }
                ("unbalanced", format!("out{tgt}.coin{delta:+}"), set_output_coin(&tx0, tgt, c as u64))
            }
        }
        1 => {
            // balanced shift between fee and an output / between two outputs / funded from the UTxO
            let d = small(rng) % 200_000 + 1;
            match rng.below(3) {
                0 => {
                    let i = richest_output(&tx0)?;
                    ("balanced", format!("fee+{d},out{i}-{d}"), shift_fee(&tx0, i, d as i128)?)
                }
                1 if n_out >= 2 => {
                    let i = richest_output(&tx0)?;
                    let j = (i + 1 + rng.usize_below(n_out - 1)) % n_out;
                    let t = set_output_coin(&tx0, i, output_coin(&tx0, i).checked_sub(d)?);
                    ("balanced", format!("out{i}-{d},out{j}+{d}"), set_output_coin(&t, j, output_coin(&t, j).checked_add(d)?))
                }
                _ => {
                    if !fund(&mut utxo, &in0, d) {
                        return None;
                    }
                    ("balanced", format!("utxo.in0+{d},fee+{d}"), set_fee(&tx0, fee(&tx0).checked_add(d)?))
                }
            }
        }
        2 => {
            // ada sums around 2^64 (checked_add territory): two outputs whose true sum exceeds 2^64
            let i = rng.usize_below(n_out);
            let c = output_coin(&tx0, i);
            let (a, b) = match rng.below(3) {
                0 => (1u64 << 63, (1u64 << 63).wrapping_add(c)),
                1 => (u64::MAX, c.wrapping_add(1)),
                _ => (u64::MAX - small(rng), c.wrapping_add(small(rng))),
            };
            let t = set_output_coin(&tx0, i, a);
            let mut outs = outputs(&t);
            outs.push(mk_output(&addr0, b, &vec![], legacy));
            ("ada-wrap", format!("out{i}.coin={a},new.coin={b}"), set_outputs(&t, outs))
        }
        3 => {
            // the spent UTxO is worth 2^64-ish: utxo coin raised so that Σ spent needs > 64 bits (multi-input) or
            // produced side carries it
            let add = u64::MAX - utxo_map(&utxo).get(&in0)?.coin - rng.below(3);
            let i = rng.usize_below(n_out);
            if !fund(&mut utxo, &in0, add) {
                return None;
            }
            let bump = if rng.bool() { add } else { add.wrapping_add(1) };
            ("ada-huge", format!("utxo.in0+{add},out{i}+{bump}"), set_output_coin(&tx0, i, output_coin(&tx0, i).checked_add(bump)?))
        }
        4 | 5 => {
            // existing assets of the fixture: ±1 on an output quantity / a mint quantity, compensated or not
            let outs = outputs(&tx0);
            let with_assets: Vec<usize> = (0..outs.len()).filter(|i| out_get(&outs[*i]).map(|x| !x.1.is_empty()).unwrap_or(false)).collect();
            let mint = mint_get(&tx0);
            if with_assets.is_empty() && mint.is_empty() {
                return None;
            }
            let up = rng.bool();
            if !mint.is_empty() && (with_assets.is_empty() || rng.bool()) {
                let mut m = mint.clone();
                let pi = rng.usize_below(m.len());
                let ni = rng.usize_below(m[pi].1.len());
                let q = m[pi].1[ni].1 + if up { 1 } else { -1 };
                if q == 0 || q > i64::MAX as i128 || q < i64::MIN as i128 {
                    return None;
                }
                m[pi].1[ni].1 = q;
                ("asset±1", format!("mint[{pi}][{ni}]{}", if up { "+1" } else { "-1" }), mint_set(&tx0, &m))
            } else {
                let i = *rng.pick(&with_assets);
                let (c, mut a) = out_get(&outs[i])?;
                let pi = rng.usize_below(a.len());
                let ni = rng.usize_below(a[pi].1.len());
                let q = if up { a[pi].1[ni].1.checked_add(1)? } else { a[pi].1[ni].1.checked_sub(1)? };
                if q == 0 {
                    return None;
                }
                a[pi].1[ni].1 = q;
                // sometimes compensate the asset error with an opposite ada error (Σ over everything unchanged)
                let comp = rng.chance(1, 3);
                let c2 = if comp { if up { c.checked_sub(1)? } else { c.checked_add(1)? } } else { c };
                ("asset±1", format!("out{i}.asset[{pi}][{ni}]{}{}", if up { "+1" } else { "-1" }, if comp { ",coin∓1" } else { "" }), edit_output(&tx0, i, |o| out_set(o, c2, &a)))
            }
        }
        6 => {
            // compensating errors on two lab assets X, Y: mint k each, produce k+d and k−d
            let k = small(rng).saturating_add(1);
            let d = 1 + rng.below(k.min(1000));
            let (script, pol) = native_always(rng.below(3) as u8);
            let mut m = mint_get(&tx0);
            mint_put(&mut m, &pol, b"X", k as i128);
            mint_put(&mut m, &pol, b"Y", k as i128);
            let t = add_native_script(&mint_set(&tx0, &m), script);
            let coin = 3_000_000;
            if !fund(&mut utxo, &in0, coin) {
                return None;
            }
            let mut outs = outputs(&t);
            outs.push(mk_output(&addr0, coin, &vec![(pol.to_vec(), vec![(b"X".to_vec(), k.checked_add(d)?), (b"Y".to_vec(), k.checked_sub(d).filter(|x| *x > 0)?)])], legacy));
            ("compensating-pair", format!("mint X={k},Y={k}; produced X={},Y={}", k + d, k - d), set_outputs(&t, outs))
        }
        _ => {
            // lab asset
            let lab = lab_scenario(rng, ins.len());
            let (script, pol) = native_always(rng.below(3) as u8);
            let nlen = rng.usize_below(33);
            let name: Vec<u8> = if rng.bool() { b"pv".to_vec() } else { rng.bytes(nlen) };
            let mut t = tx0.clone();
            if lab.mint != 0 {
                let mut m = mint_get(&t);
                mint_put(&mut m, &pol, &name, lab.mint);
                t = add_native_script(&mint_set(&t, &m), script);
            }
            for (i, q) in lab.spent.iter().enumerate() {
                give_asset(&mut utxo, ins.get(i)?, &pol, &name, *q);
            }
            // a second asset name under the same policy, guaranteed to differ from `name`
            let mut sibling = name.clone();
            if sibling.len() < 32 {
                sibling.push(b'~');
            } else {
                let l = sibling.len() - 1;
                sibling[l] ^= 1;
            }
            if lab.sibling_spent > 0 {
                give_asset(&mut utxo, &in0, &pol, &sibling, lab.sibling_spent);
            }
            let mut outs = outputs(&t);
            if lab.sibling_produced > 0 {
                let coin = 3_000_000;
                if !fund(&mut utxo, &in0, coin) {
                    return None;
                }
                outs.push(mk_output(&addr0, coin, &vec![(pol.to_vec(), vec![(sibling.clone(), lab.sibling_produced)])], legacy));
            }
            for q in &lab.produced {
                let coin = 3_000_000;
                if !fund(&mut utxo, &in0, coin) {
                    return None;
                }
                outs.push(mk_output(&addr0, coin, &vec![(pol.to_vec(), vec![(name.clone(), *q)])], legacy));
            }
            // optionally put the new outputs in front of the old ones
            if rng.chance(1, 4) {
                let k = lab.produced.len();
                outs.rotate_right(k);
            }
            ("lab-asset", format!("{}: spent={:?} mint={} produced={:?} sibling(spent={},produced={})", lab.name, lab.spent, lab.mint, lab.produced, lab.sibling_spent, lab.sibling_produced), set_outputs(&t, outs))
        }
    };
    let tx = if family == "unbalanced" { tx } else { top_up_fee(f, tx, &mut utxo)? };
    let mut tx = f.resign(&tx);
    let mut scenario = scenario;
    // a share of the post-Alonzo cases carries the phase-2 validity flag set to false: value is
    // conserved by an accepted transaction whatever the flag says
    if rng.chance(1, 5) {
        if let Ok(it) = pv::cbor::parse(&tx) {
            if it.major == 4 && it.children.len() == 4 && it.children[2].major == 7 && tx[it.children[2].start] == 0xf5 {
                tx[it.children[2].start] = 0xf4;
                scenario.push_str(" [valid=false]");
            }
        }
    }
    Some(Case { family, scenario, tx, utxo })
}

fn gen_byron(rng: &mut Rng, f: &Fixture) -> Option<Case> {
    let tx0 = f.tx_bytes.clone();
    let utxo = f.utxo.clone();
    let v = parse_byron(&tx0)?;
    let m = utxo_map(&utxo);
    let sin: u128 = v.inputs.iter().map(|r| m.get(r).map(|o| o.coin as u128).unwrap_or(0)).sum();
    let outs = byron_outputs(&tx0);
    let coins: Vec<u64> = v.outputs.iter().map(|o| u64::try_from(o.1.clone()).unwrap_or(0)).collect();
    let sout: u128 = coins.iter().map(|c| *c as u128).sum();
    let i = rng.usize_below(outs.len());
    let payload0 = v.outputs[0].0.clone();
    let (family, scenario, tx): (&'static str, String, Vec<u8>) = match rng.below(6) {
        0 => {
            let d = small(rng) % 5000 + 1;
            ("byron-coin-", format!("out{i}-{d}"), byron_set_coin(&tx0, i, coins[i].checked_sub(d).filter(|c| *c > 0)?))
        }
        1 => {
            let d = small(rng) % 5000 + 1;
            ("byron-coin+", format!("out{i}+{d}"), byron_set_coin(&tx0, i, coins[i].checked_add(d)?))
        }
        2 => {
            // Σ out = Σ in + d
            let d = small(rng);
            let c = (sin + d as u128).checked_sub(sout - coins[i] as u128)?;
            ("byron-outputs-exceed-inputs", format!("out{i}={c} (Σout = Σin + {d})"), byron_set_coin(&tx0, i, u64::try_from(c).ok()?))
        }
        3 => {
            // an extra output of 2^64 − x: Σ out wraps to Σ out − x in 64 bits
            let x = 1 + rng.below(coins[i].min(100_000));
            let mut o = outs.clone();
            o.push(byron_output(&payload0, (TWO64 - x as u128) as u64));
            ("byron-output-sum-wrap", format!("new output 2^64-{x}"), byron_set_outputs(&tx0, o))
        }
        4 => {
            let c = *rng.pick(&[1u64 << 63, u64::MAX, (1 << 63) + 1, u64::MAX - 1]);
            ("byron-huge-output", format!("out{i}={c}"), byron_set_coin(&tx0, i, c))
        }
        _ => {
            // exactly at / one below the linear minimum fee (own size)
            let (a, b) = f.env.minfee();
            let minfee = a as u128 * ledger_size(&tx0) as u128 + b as u128;
            let below = rng.bool();
            let target_out = sin.checked_sub(minfee)? + if below { 1 } else { 0 };
            let c = target_out.checked_sub(sout - coins[i] as u128)?;
            ("byron-fee-boundary", format!("Σin-Σout = minfee{}", if below { "-1" } else { "" }), byron_set_coin(&tx0, i, u64::try_from(c).ok().filter(|c| *c > 0)?))
        }
    };
    Some(Case { family, scenario, tx: byron_resign(f, &tx), utxo })
}

enum Bal {
    /// the implication's premise does not hold / the view cannot be built: no verdict from the oracle
    #[allow(dead_code)]
    NotApplicable(&'static str),
    Ok,
    Off { class: String, detail: String },
}

fn oracle(f: &Fixture, c: &Case) -> Bal {
    let m = utxo_map(&c.utxo);
    if f.era == Era::Byron {
        let Some(v) = parse_byron(&c.tx) else { return Bal::NotApplicable("byron view") };
        let mut sin = BigInt::from(0);
        let mut all_redeem = true;
        let mut seen = std::collections::BTreeSet::new();
        for r in &v.inputs {
            if !seen.insert(*r) {
                return Bal::NotApplicable("duplicate inputs");
            }
            let Some(o) = m.get(r) else { return Bal::NotApplicable("input not in the UTxO table") };
            sin += BigInt::from(o.coin);
            if byron_payload_parts(&o.address).map(|p| p.2) != Some(2) {
                all_redeem = false;
            }
        }
        let sout: BigInt = v.outputs.iter().map(|o| o.1.clone()).sum();
        let (a, b) = f.env.minfee();
        let minfee = if all_redeem { BigInt::from(0) } else { BigInt::from(a) * BigInt::from(ledger_size(&c.tx) as u64) + BigInt::from(b) };
        let paid = &sin - &sout;
        if paid >= minfee {
            return Bal::Ok;
        }
        let class = if paid < BigInt::from(0) { format!("outputs-exceed-inputs:{}", if all_redeem { "redeem-only" } else { "pubkey" }) } else { "below-min-fee".to_string() };
        return Bal::Off { class, detail: format!("Σin={sin} Σout={sout} Σin−Σout={paid} < min fee {minfee}") };
    }
    let Some(v) = parse_tx(&c.tx) else { return Bal::NotApplicable("tx view") };
    if v.has_certs || v.has_withdrawals || v.has_treasury || v.has_donation || v.has_proposals {
        return Bal::NotApplicable("certificates / withdrawals / treasury / donation present");
    }
    let mut lhs = Val::default();
    let mut seen = std::collections::BTreeSet::new();
    for r in &v.inputs {
        if !seen.insert(*r) {
            return Bal::NotApplicable("duplicate inputs");
        }
        let Some(o) = m.get(r) else { return Bal::NotApplicable("input not in the UTxO table") };
        lhs.add(&Val::from_out(o));
    }
    let spent = lhs.clone();
    lhs.add_assets(&v.mint);
    let mut rhs = Val { coin: v.fee.clone(), assets: BTreeMap::new() };
    for o in &v.outputs {
        rhs.add(&o.val);
    }
    let (l, r) = (lhs.normalised(), rhs.normalised());
    if l == r {
        return Bal::Ok;
    }
    let zero = BigInt::from(0);
    let two64 = BigInt::from(TWO64);
    let mut classes = std::collections::BTreeSet::new();
    let mut detail = vec![];
    if l.coin != r.coin {
        let d = &r.coin - &l.coin;
        classes.insert(if (&d % &two64) == zero { "ada:off-by-multiple-of-2^64" } else { "ada:other" }.to_string());
        detail.push(format!("ada: spent+mint={} produced+fee={}", l.coin, r.coin));
    }
    let keys: std::collections::BTreeSet<&AssetId> = l.assets.keys().chain(r.assets.keys()).collect();
    for k in keys {
        let a = l.assets.get(k).cloned().unwrap_or_default();
        let b = r.assets.get(k).cloned().unwrap_or_default();
        if a != b {
            let minted = v.mint.get(k).cloned().unwrap_or_default();
            let sp = spent.assets.get(k).cloned().unwrap_or_default();
            let d = &b - &a;
            let cls = if minted < zero && &sp + &minted < zero {
                "asset:burn-exceeds-spent"
            } else if (&d % &two64) == zero {
                "asset:off-by-multiple-of-2^64"
            } else {
                "asset:other"
            };
            classes.insert(cls.to_string());
            detail.push(format!("asset {}.{}: spent={} mint={} produced={}", hex_short(&k.0), hexs(&k.1), sp, minted, b));
        }
    }
    // one class per case, the most specific one first, so that signatures stay stable
    let order = ["asset:burn-exceeds-spent", "asset:off-by-multiple-of-2^64", "ada:off-by-multiple-of-2^64", "asset:other", "ada:other"];
    let class = order.iter().find(|c| classes.contains(**c)).unwrap_or(&"other").to_string();
    Bal::Off { class, detail: detail.join("; ") }
}

fn utxo_json(utxo: &[UtxoEntry]) -> serde_json::Value {
    json!(utxo
        .iter()
        .map(|e| json!({"role": format!("{:?}", e.role), "tx": hexs(&e.tx_hash), "ix": e.index, "addr": hexs(&e.out.address), "coin": e.out.coin.to_string(),
            "assets": e.out.assets.iter().map(|(p, xs)| json!({"policy": hexs(p), "names": xs.iter().map(|(n, q)| json!([hexs(n), q.to_string()])).collect::<Vec<_>>()})).collect::<Vec<_>>() }))
        .collect::<Vec<_>>())
}

fn run_case(ctx: &mut Ctx, f: &Fixture, c: &Case, case_seed: u64, fix_idx: usize, verbose: bool) {
    ctx.eval();
    let era = era_name(f.era);
    let verdict = f.validate_with(&c.tx, &c.utxo, &f.env);
    let bal = oracle(f, c);
    let vclass = match &verdict {
        Verdict::Accepted => "accepted".to_string(),
        Verdict::Rejected(e) => {
            let v = err_variant(e);
            if v == "PreservationOfValue" || v == "NegativeValue" || (f.era == Era::Byron && v == "FeesBelowMin") {
                "rejected-by-preservation".to_string()
            } else {
                format!("rejected-other:{v}")
            }
        }
        Verdict::Undecodable(_) => "undecodable".to_string(),
        Verdict::Panicked(p) => {
            // a panic is not an acceptance: it is C33's business; counted here, not reported
            ctx.set_insert("panic_sites_seen(reported_by_C33)", &p.site());
            "panicked".to_string()
        }
    };
    let bclass = match &bal {
        Bal::Ok => "balanced",
        Bal::Off { .. } => "imbalanced",
        Bal::NotApplicable(_) => "oracle-n/a",
    };
    ctx.count(&format!("{era}:{}:{}:{}", c.family, bclass, vclass.split(':').next().unwrap_or("")));
    ctx.count(&format!("verdict:{}", vclass.split(':').next().unwrap_or("")));
    if let Some(v) = vclass.strip_prefix("rejected-other:") {
        ctx.set_insert("other_rejections", v);
    }
    if verbose {
        println!("{} [{}] {} -> {} / {}", f.name, c.family, c.scenario, verdict.label(), bclass);
        if let Bal::Off { class, detail } = &bal {
            println!("   oracle: {class}: {detail}");
        }
    }
    let fp_case = fp_mix(fp(&c.tx), fp(utxo_json(&c.utxo).to_string().as_bytes()));
    match (&verdict, &bal) {
        (Verdict::Accepted, Bal::Ok) => {
            ctx.count("accepted_and_balanced");
            ctx.nontrivial(fp_case);
            if matches!(c.family, "lab-asset" | "balanced" | "byron-coin-" | "byron-fee-boundary") && ctx.want_sample() {
                ctx.sample(json!({"fixture": f.name, "family": c.family, "scenario": c.scenario, "verdict": "accepted", "oracle": "balanced"}));
            }
        }
        (Verdict::Accepted, Bal::Off { class, detail }) => {
            ctx.nontrivial(fp_case);
            ctx.count("accepted_and_imbalanced");
            ctx.violation(
                &format!("C34:{era}:accepted-imbalance:{class}"),
                &format!("{} [{}: {}] is accepted by validate_tx but value is not conserved: {detail}", f.name, c.family, c.scenario),
                json!({"fixture": fix_idx, "fixture_name": f.name, "case_seed": case_seed.to_string(), "family": c.family, "scenario": c.scenario, "tx": hexs(&c.tx), "utxo": utxo_json(&c.utxo)}),
            );
        }
        (Verdict::Accepted, Bal::NotApplicable(_)) => ctx.count("accepted_oracle_not_applicable"),
        (Verdict::Rejected(_), _) if vclass == "rejected-by-preservation" => {
            ctx.count("rejected_by_preservation_check");
            ctx.nontrivial(fp_case);
            if let Bal::Ok = bal {
                // not a C34 matter (the property is an implication from acceptance) but worth seeing in the evidence
                ctx.count("balanced_but_rejected_by_preservation_check");
                ctx.set_insert("balanced_but_rejected(scenarios)", &format!("{era}:{}{}", c.family, if c.family == "lab-asset" { format!(":{}", c.scenario.split(':').next().unwrap_or("")) } else { String::new() }));
            }
        }
        _ => {}
    }
}

fn main() {
    let mut ctx = Ctx::from_args("C34");
    // every re-keyed fixture is used, accepted unmutated or not: the property is an implication from acceptance
    let fixtures: Vec<Fixture> = all_fixtures().iter().map(|f| if f.era == Era::Byron { byron_rekeyed(f) } else { f.rekeyed() }).collect();
    let usable = fixtures.iter().filter(|f| f.validate(&f.tx_bytes).accepted()).count();
    if usable < 24 {
        ctx.inconclusive(&format!("only {usable} of 24 re-keyed fixtures are accepted unmutated"));
    }
    ctx.note("fixtures_accepted_unmutated", json!(usable));
    if let Some(p) = ctx.replay.clone() {
        let v: serde_json::Value = serde_json::from_slice(&std::fs::read(p).unwrap()).unwrap();
        let r = &v["replay"];
        let fi = r["fixture"].as_u64().unwrap() as usize;
        let seed: u64 = r["case_seed"].as_str().unwrap().parse().unwrap();
        let f = &fixtures[fi];
        let mut rng = Rng::new(seed);
        match gen_case(&mut rng, f) {
            Some(c) => {
                println!("regenerated case identical to the recorded tx: {}", hexs(&c.tx) == r["tx"].as_str().unwrap_or(""));
                run_case(&mut ctx, f, &c, seed, fi, true);
            }
            None => println!("case could not be regenerated"),
        }
        println!("replayed: violations={}", ctx.n_violations());
        ctx.finish();
    }
    // the unmutated fixtures themselves satisfy the oracle (sanity of the oracle and of the tables)
    for (i, f) in fixtures.iter().enumerate() {
        if !ctx.owns(i as u64) {
            continue;
        }
        let c = Case { family: "unmutated", scenario: "-".into(), tx: f.tx_bytes.clone(), utxo: f.utxo.clone() };
        if let Bal::Off { class, detail } = oracle(f, &c) {
            ctx.inconclusive(&format!("oracle disagrees with the unmutated fixture {}: {class}: {detail}", f.name));
        }
        run_case(&mut ctx, f, &c, 0, i, false);
    }
    let n = ctx.budget(50_000, 3_000_000);
    for _ in 0..n {
        let fi = ctx.rng.usize_below(fixtures.len());
        let case_seed = ctx.rng.next_u64();
        let mut rng = Rng::new(case_seed);
        let f = &fixtures[fi];
        match gen_case(&mut rng, f) {
            Some(c) => run_case(&mut ctx, f, &c, case_seed, fi, false),
            None => ctx.count("generator_not_applicable"),
        }
    }
    ctx.finish();
}
