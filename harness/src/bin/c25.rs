//! C25 — handshake negotiation accepts only the highest common version.
//!
//! Oracle (own three-line model): common = keys(P) ∩ keys(R);
//!   Accept(v, d)  => v ∈ common, v = max(common), magic(d) = magic(P[v]);
//!   common = ∅    => the reply must be Refuse(VersionMismatch(S)) with set(S) = keys(R).
//! (For overlapping tables a refusal is not constrained by the property.)
//! v1: real `handshake::Server::handshake` (N2N and N2C payloads) over a Plexer pair on a Unix
//!     socket pair; the proposer is a raw AgentChannel that sends a Propose encoded by the harness'
//!     own CBOR encoder and parses the reply with the harness' own CBOR parser.
//! v2: `ResponderBehavior` with a custom `HandshakeResponderConfig`, fed Connected + Recv(Propose),
//!     outputs drained.
use futures::{FutureExt, StreamExt};
use pallas_network::miniprotocols::handshake as hs1;
use pallas_network::multiplexer::{AgentChannel, Bearer, Plexer};
use pallas_network2::behavior::responder::handshake::{HandshakeResponder, HandshakeResponderConfig};
use pallas_network2::behavior::responder::{ResponderBehavior, ResponderEvent};
use pallas_network2::behavior::AnyMessage;
use pallas_network2::protocol::handshake as hs2;
use pallas_network2::{Behavior, BehaviorOutput, InterfaceCommand, InterfaceEvent, PeerId};
use pv::cbor::{self, Node};
use pv::*;
use std::collections::{BTreeMap, BTreeSet};
use std::time::Duration;

/// version data of the model: N2N `[magic, initiatorOnly, peerSharing, query]` / `[magic, initiatorOnly]`,
/// N2C `[magic, query]` / `magic`
#[derive(Clone, Debug, PartialEq)]
struct VData {
    magic: u64,
    init_only: bool,
    ext: Option<(u8, bool)>,
}
type Table = BTreeMap<u64, VData>;

#[derive(Clone, Copy, PartialEq, Debug)]
enum Flavour {
    N2N,
    N2C,
}

#[derive(Clone, Debug, PartialEq)]
enum Reply {
    Accept(u64, u64), // version, magic of the accepted data
    RefuseMismatch(Vec<u64>),
    RefuseDecode(u64),
    RefuseRefused(u64),
    Other(String),
}

struct Case {
    p: Table,
    r: Table,
    shape: &'static str,
}

const POOL: [u64; 20] = [0, 1, 4, 6, 7, 8, 9, 10, 11, 12, 13, 14, 15, 16, 23, 24, 255, 32783, 32784, 1 << 40];
const MAGICS: [u64; 5] = [764824073, 1, 2, 4, 1097911063];

fn gen_vdata(rng: &mut Rng, magic: u64) -> VData {
    VData { magic, init_only: rng.bool(), ext: if rng.bool() { Some((rng.below(2) as u8, rng.chance(1, 5))) } else { None } }
}

fn gen_case(rng: &mut Rng) -> Case {
    let magic = if rng.chance(1, 6) { rng.edgy_u64() } else { *rng.pick(&MAGICS) };
    let mut pool = POOL.to_vec();
    rng.shuffle(&mut pool);
    // (shape, #common, #proposer-only, #responder-only); each table has 0..=16 versions out of a pool of 20
    let (shape, nc, pe, re) = match rng.below(10) {
        0 | 1 | 2 => ("disjoint", 0, 1 + rng.usize_below(10), 1 + rng.usize_below(10)),
        3 => ("empty-proposal", 0, 0, rng.usize_below(17)),
        4 => ("empty-responder", 0, rng.usize_below(17), 0),
        _ => {
            let nc = 1 + rng.usize_below(8);
            let pe = rng.usize_below((16 - nc).min(20 - nc) + 1);
            let re = rng.usize_below((16 - nc).min(20 - nc - pe) + 1);
            ("overlap", nc, pe, re)
        }
    };
    let common: Vec<u64> = pool[..nc].to_vec();
    let p_only: Vec<u64> = pool[nc..nc + pe].to_vec();
    let r_only: Vec<u64> = pool[nc + pe..nc + pe + re].to_vec();
    let mut p = Table::new();
    let mut r = Table::new();
    // how the data of common versions relate
    let data_mode = rng.below(6);
    for v in &common {
        let d = gen_vdata(rng, magic);
        let e = match data_mode {
            0 | 1 | 2 => d.clone(),                                                  // identical
            3 => VData { init_only: !d.init_only, ..d.clone() },                     // same magic, other flag
            4 => VData { magic: d.magic ^ (1 << rng.below(33)), ..d.clone() },       // other magic everywhere
            _ => {
                // mixed per version
                match rng.below(3) {
                    0 => d.clone(),
                    1 => VData { magic: d.magic.wrapping_add(1), ..d.clone() },
                    _ => gen_vdata(rng, magic),
                }
            }
        };
        p.insert(*v, d);
        r.insert(*v, e);
    }
    for v in &p_only {
        let m = if rng.chance(1, 5) { rng.edgy_u64() } else { magic };
        p.insert(*v, gen_vdata(rng, m));
    }
    for v in &r_only {
        let m = if rng.chance(1, 5) { rng.edgy_u64() } else { magic };
        r.insert(*v, gen_vdata(rng, m));
    }
    Case { p, r, shape }
}

// ---------------------------------------------------------------------------------------
// the model
// ---------------------------------------------------------------------------------------
fn judge(c: &Case, reply: &Reply) -> Option<(String, String)> {
    let common: BTreeSet<u64> = c.p.keys().filter(|k| c.r.contains_key(k)).copied().collect();
    match reply {
        Reply::Accept(v, m) => {
            if !common.contains(v) {
                return Some(("accept:version-not-offered-by-both".into(), format!("accepted version {v} is not offered by both sides (common = {common:?})")));
            }
            if Some(v) != common.iter().max() {
                return Some(("accept:not-highest-common".into(), format!("accepted version {v} although {} is also common", common.iter().max().unwrap())));
            }
            if *m != c.p[v].magic {
                return Some(("accept:magic-differs-from-proposer".into(), format!("accepted version {v} with magic {m}, the proposer offered magic {}", c.p[v].magic)));
            }
            None
        }
        other if common.is_empty() => match other {
            Reply::RefuseMismatch(s) => {
                let got: BTreeSet<u64> = s.iter().copied().collect();
                let want: BTreeSet<u64> = c.r.keys().copied().collect();
                if got != want {
                    Some(("disjoint:version-mismatch-lists-wrong-set".into(), format!("VersionMismatch lists {got:?}, the responder's versions are {want:?}")))
                } else {
                    None
                }
            }
            Reply::RefuseDecode(_) => Some(("disjoint:got=refuse-decode-error".into(), "disjoint tables answered with HandshakeDecodeError".into())),
            Reply::RefuseRefused(_) => Some(("disjoint:got=refuse-refused".into(), "disjoint tables answered with Refused".into())),
            Reply::Other(x) => Some((format!("disjoint:got={x}"), format!("disjoint tables answered with {x}"))),
            Reply::Accept(..) => unreachable!(),
        },
        _ => None,
    }
}

// ---------------------------------------------------------------------------------------
// wire forms (own encoder / parser)
// ---------------------------------------------------------------------------------------
fn vdata_node(d: &VData, fl: Flavour) -> Node {
    match fl {
        Flavour::N2N => match d.ext {
            Some((ps, q)) => Node::arr(vec![Node::u(d.magic), Node::Bool(d.init_only), Node::u(ps as u64), Node::Bool(q)]),
            None => Node::arr(vec![Node::u(d.magic), Node::Bool(d.init_only)]),
        },
        Flavour::N2C => match d.ext {
            Some((_, q)) => Node::arr(vec![Node::u(d.magic), Node::Bool(q)]),
            None => Node::u(d.magic),
        },
    }
}
fn propose_bytes(t: &Table, fl: Flavour) -> Vec<u8> {
    let entries = t.iter().map(|(k, v)| (Node::u(*k), vdata_node(v, fl))).collect();
    Node::arr(vec![Node::u(0), Node::map(entries)]).to_vec()
}
fn parse_reply(b: &[u8]) -> Reply {
    let Ok(it) = cbor::parse(b) else { return Reply::Other("unparsable-reply".into()) };
    if !it.is_array() || it.children.is_empty() || !it.children[0].is_uint() {
        return Reply::Other("malformed-reply".into());
    }
    let ch = &it.children;
    match ch[0].arg {
        1 if ch.len() == 3 && ch[1].is_uint() => {
            let d = &ch[2];
            let magic = if d.is_uint() {
                d.arg
            } else if d.is_array() && !d.children.is_empty() && d.children[0].is_uint() {
                d.children[0].arg
            } else {
                return Reply::Other("malformed-accept".into());
            };
            Reply::Accept(ch[1].arg, magic)
        }
        2 if ch.len() == 2 && ch[1].is_array() && !ch[1].children.is_empty() => {
            let r = &ch[1].children;
            match r[0].arg {
                0 if r.len() == 2 && r[1].is_array() => Reply::RefuseMismatch(r[1].children.iter().map(|c| c.arg).collect()),
                1 if r.len() == 3 => Reply::RefuseDecode(r[1].arg),
                2 if r.len() == 3 => Reply::RefuseRefused(r[1].arg),
                _ => Reply::Other("malformed-refuse".into()),
            }
        }
        3 => Reply::Other("query-reply".into()),
        _ => Reply::Other("malformed-reply".into()),
    }
}

// ---------------------------------------------------------------------------------------
// v1
// ---------------------------------------------------------------------------------------
fn to_v1_n2n(t: &Table) -> hs1::VersionTable<hs1::n2n::VersionData> {
    hs1::VersionTable { values: t.iter().map(|(k, d)| (*k, hs1::n2n::VersionData::new(d.magic, d.init_only, d.ext.map(|e| e.0), d.ext.map(|e| e.1)))).collect() }
}
fn to_v1_n2c(t: &Table) -> hs1::VersionTable<hs1::n2c::VersionData> {
    hs1::VersionTable { values: t.iter().map(|(k, d)| (*k, hs1::n2c::VersionData::new(d.magic, d.ext.map(|e| e.1)))).collect() }
}

enum V1Out {
    Reply(Reply, Option<u64>), // wire reply, version returned by handshake() (None = Ok(None))
    Inconclusive(String),
}

async fn pair() -> std::io::Result<(Plexer, Plexer)> {
    let (a, b) = tokio::net::UnixStream::pair()?;
    Ok((Plexer::new(Bearer::Unix(a)), Plexer::new(Bearer::Unix(b))))
}

async fn recv_reply(ch: &mut AgentChannel) -> Result<Vec<u8>, String> {
    let mut buf = vec![];
    loop {
        match tokio::time::timeout(Duration::from_secs(20), ch.dequeue_chunk()).await {
            Err(_) => return Err("no reply within 20 s".into()),
            Ok(Err(e)) => return Err(format!("proposer channel: {e:?}")),
            Ok(Ok(c)) => buf.extend(c),
        }
        match cbor::parse(&buf) {
            Ok(_) => return Ok(buf),
            Err(cbor::CborError::Truncated(_)) => continue,
            Err(_) => return Ok(buf),
        }
    }
}

async fn run_v1(c: &Case, fl: Flavour) -> V1Out {
    let Ok((mut pa, mut pb)) = pair().await else { return V1Out::Inconclusive("socketpair failed".into()) };
    let server_ch = pa.subscribe_server(0);
    let mut proposer = pb.subscribe_client(0);
    let ra = pa.spawn();
    let rb = pb.spawn();
    let wire = propose_bytes(&c.p, fl);
    let out;
    if proposer.enqueue_chunk(wire).await.is_err() {
        out = V1Out::Inconclusive("enqueue failed".into());
    } else {
        let res: Result<Result<Option<u64>, String>, _> = match fl {
            Flavour::N2N => {
                let mut s = hs1::N2NServer::new(server_ch);
                tokio::time::timeout(Duration::from_secs(20), s.handshake(to_v1_n2n(&c.r))).await.map(|r| r.map(|o| o.map(|x| x.0)).map_err(|e| format!("{e:?}")))
            }
            Flavour::N2C => {
                let mut s = hs1::N2CServer::new(server_ch);
                tokio::time::timeout(Duration::from_secs(20), s.handshake(to_v1_n2c(&c.r))).await.map(|r| r.map(|o| o.map(|x| x.0)).map_err(|e| format!("{e:?}")))
            }
        };
        match res {
            Err(_) => out = V1Out::Inconclusive("handshake() did not return within 20 s".into()),
            Ok(Err(e)) => out = V1Out::Inconclusive(format!("handshake() returned Err({})", e.chars().take(80).collect::<String>())),
            Ok(Ok(ret)) => match recv_reply(&mut proposer).await {
                Ok(bytes) => out = V1Out::Reply(parse_reply(&bytes), ret),
                Err(e) => out = V1Out::Inconclusive(e),
            },
        }
    }
    ra.abort().await;
    rb.abort().await;
    out
}

// ---------------------------------------------------------------------------------------
// v2
// ---------------------------------------------------------------------------------------
fn to_v2(t: &Table) -> hs2::n2n::VersionTable {
    hs2::VersionTable { values: t.iter().map(|(k, d)| (*k, hs2::n2n::VersionData::new(d.magic, d.init_only, d.ext.map(|e| e.0), d.ext.map(|e| e.1)))).collect() }
}

/// returns (handshake replies sent to the peer, version announced by PeerInitialized)
fn run_v2(c: &Case, n: u64) -> (Vec<Reply>, Option<u64>) {
    let mut b = ResponderBehavior::default();
    b.handshake = HandshakeResponder::new(HandshakeResponderConfig { supported_version: to_v2(&c.r) });
    let pid = PeerId { host: format!("10.0.{}.{}", (n >> 8) & 255, n & 255), port: 3001 };
    b.handle_io(InterfaceEvent::Connected(pid.clone()));
    b.handle_io(InterfaceEvent::Recv(pid.clone(), vec![AnyMessage::Handshake(hs2::Message::Propose(to_v2(&c.p)))]));
    let mut replies = vec![];
    let mut init = None;
    while let Some(Some(out)) = b.next().now_or_never() {
        match out {
            BehaviorOutput::InterfaceCommand(InterfaceCommand::Send(to, AnyMessage::Handshake(m))) if to == pid => replies.push(match m {
                hs2::Message::Accept(v, d) => Reply::Accept(v, d.network_magic),
                hs2::Message::Refuse(hs2::RefuseReason::VersionMismatch(s)) => Reply::RefuseMismatch(s),
                hs2::Message::Refuse(hs2::RefuseReason::HandshakeDecodeError(v, _)) => Reply::RefuseDecode(v),
                hs2::Message::Refuse(hs2::RefuseReason::Refused(v, _)) => Reply::RefuseRefused(v),
                hs2::Message::Propose(_) => Reply::Other("propose".into()),
                hs2::Message::QueryReply(_) => Reply::Other("query-reply".into()),
            }),
            BehaviorOutput::ExternalEvent(ResponderEvent::PeerInitialized(_, (v, _))) => init = Some(v),
            _ => {}
        }
    }
    (replies, init)
}

// ---------------------------------------------------------------------------------------
fn case_json(c: &Case, stack: &str) -> serde_json::Value {
    let t = |t: &Table| t.iter().map(|(k, d)| json!([k, d.magic, d.init_only, d.ext.map(|e| json!([e.0, e.1]))])).collect::<Vec<_>>();
    json!({"stack": stack, "proposer": t(&c.p), "responder": t(&c.r), "shape": c.shape})
}
fn case_from_json(v: &serde_json::Value) -> Case {
    let t = |x: &serde_json::Value| -> Table {
        x.as_array()
            .unwrap()
            .iter()
            .map(|e| {
                let ext = if e[3].is_null() { None } else { Some((e[3][0].as_u64().unwrap() as u8, e[3][1].as_bool().unwrap())) };
                (e[0].as_u64().unwrap(), VData { magic: e[1].as_u64().unwrap(), init_only: e[2].as_bool().unwrap(), ext })
            })
            .collect()
    };
    Case { p: t(&v["proposer"]), r: t(&v["responder"]), shape: "replay" }
}

fn observe(ctx: &mut Ctx, c: &Case, stack: &str, reply: &Reply) {
    ctx.eval();
    let common = c.p.keys().filter(|k| c.r.contains_key(k)).count();
    ctx.count(&format!("{stack}_{}", match reply {
        Reply::Accept(..) => "accept",
        Reply::RefuseMismatch(_) => "refuse_version_mismatch",
        Reply::RefuseRefused(_) => "refuse_refused",
        Reply::RefuseDecode(_) => "refuse_decode_error",
        Reply::Other(_) => "other_reply",
    }));
    if common >= 2 && matches!(reply, Reply::Accept(..)) {
        ctx.count(&format!("{stack}_accept_with_ge2_common"));
    }
    if common == 0 {
        ctx.count(&format!("{stack}_disjoint"));
    }
    ctx.max("max_common_versions", common as u64);
    if common >= 2 || common == 0 {
        ctx.nontrivial(fp(format!("{stack}{:?}{:?}", c.p, c.r).as_bytes()));
    }
    if let Some((cls, what)) = judge(c, reply) {
        ctx.violation(&format!("C25:{stack}:{cls}"), &format!("{stack}: {what}; proposer {:?} responder {:?} reply {reply:?}", c.p.keys().collect::<Vec<_>>(), c.r.keys().collect::<Vec<_>>()), case_json(c, stack));
    }
}

async fn do_v1(ctx: &mut Ctx, c: &Case, fl: Flavour) {
    let stack = if fl == Flavour::N2N { "v1-n2n" } else { "v1-n2c" };
    match run_v1(c, fl).await {
        V1Out::Inconclusive(why) => {
            ctx.count("v1_no_observation");
            ctx.inconclusive(&format!("{stack}: {why}"));
        }
        V1Out::Reply(reply, ret) => {
            observe(ctx, c, stack, &reply);
            // the value returned to the caller must describe what was put on the wire
            let wire_v = if let Reply::Accept(v, _) = &reply { Some(*v) } else { None };
            if wire_v != ret {
                ctx.violation(&format!("C25:{stack}:return-value-differs-from-wire"), &format!("handshake() returned {ret:?} but sent {reply:?}"), case_json(c, stack));
            }
        }
    }
}

fn do_v2(ctx: &mut Ctx, c: &Case, n: u64) {
    match pv::panics::catch(|| run_v2(c, n)) {
        Err(p) => ctx.violation(&format!("panic:C25:v2:{}", p.site()), &format!("ResponderBehavior panicked during negotiation: {}", p.msg), case_json(c, "v2")),
        Ok((replies, init)) => {
            if replies.len() != 1 {
                let common = c.p.keys().filter(|k| c.r.contains_key(k)).count();
                if common == 0 {
                    ctx.eval();
                    ctx.violation(&format!("C25:v2:disjoint:got={}-replies", replies.len()), &format!("disjoint tables: responder emitted {} handshake replies", replies.len()), case_json(c, "v2"));
                } else {
                    ctx.count("v2_no_single_reply");
                    ctx.inconclusive(&format!("v2: {} handshake replies for overlapping tables", replies.len()));
                }
                return;
            }
            observe(ctx, c, "v2", &replies[0]);
            let wire_v = if let Reply::Accept(v, _) = &replies[0] { Some(*v) } else { None };
            if wire_v != init {
                ctx.violation("C25:v2:initialized-event-differs-from-wire", &format!("PeerInitialized announced {init:?} but the reply was {:?}", replies[0]), case_json(c, "v2"));
            }
        }
    }
}

fn main() {
    let mut ctx = Ctx::from_args("C25");
    let rt = tokio::runtime::Builder::new_current_thread().enable_all().build().unwrap();
    if let Some(p) = ctx.replay.clone() {
        let v: serde_json::Value = serde_json::from_slice(&std::fs::read(p).unwrap()).unwrap();
        let c = case_from_json(&v["replay"]);
        match v["replay"]["stack"].as_str().unwrap_or("") {
            "v2" => do_v2(&mut ctx, &c, 1),
            "v1-n2c" => rt.block_on(do_v1(&mut ctx, &c, Flavour::N2C)),
            _ => rt.block_on(do_v1(&mut ctx, &c, Flavour::N2N)),
        }
        println!("replayed: violations={}", ctx.n_violations());
        ctx.finish();
    }
    // model sanity (harness self-test): the judge accepts the textbook answer and rejects a lower version
    {
        let mut p = Table::new();
        let mut r = Table::new();
        for v in [7u64, 9, 11] {
            p.insert(v, VData { magic: 1, init_only: false, ext: None });
        }
        for v in [9u64, 11, 13] {
            r.insert(v, VData { magic: 1, init_only: false, ext: None });
        }
        let c = Case { p, r, shape: "selftest" };
        assert!(judge(&c, &Reply::Accept(11, 1)).is_none());
        assert!(judge(&c, &Reply::Accept(9, 1)).is_some());
        assert!(judge(&c, &Reply::Accept(13, 1)).is_some());
        assert!(judge(&c, &Reply::Accept(11, 2)).is_some());
        assert!(judge(&c, &Reply::RefuseRefused(11)).is_none());
    }
    let n1 = ctx.budget(5_000, 500_000);
    let n2 = ctx.budget(5_000, 500_000);
    rt.block_on(async {
        for i in 0..n1 {
            let mut rng = ctx.sub_rng("v1", i);
            let c = gen_case(&mut rng);
            let fl = if i % 4 == 3 { Flavour::N2C } else { Flavour::N2N };
            if i < 2 {
                ctx.sample(case_json(&c, if fl == Flavour::N2N { "v1-n2n" } else { "v1-n2c" }));
            }
            ctx.count(&format!("shape_{}", c.shape));
            do_v1(&mut ctx, &c, fl).await;
        }
    });
    for i in 0..n2 {
        let mut rng = ctx.sub_rng("v2", i);
        let c = gen_case(&mut rng);
        if i < 1 {
            ctx.sample(case_json(&c, "v2"));
        }
        ctx.count(&format!("shape_{}", c.shape));
        do_v2(&mut ctx, &c, i);
    }
    ctx.finish();
}
