//! C03 — CBOR helper wrappers round-trip and preserve original encodings.
//!
//! Three rules:
//!   V (value):    decode(encode(v)) == v for values of every helper type (nested to depth 3);
//!   B (bytes):    for the form-preserving wrappers (KeepRaw, AnyCbor, KeyValuePairs,
//!                 NonEmptyKeyValuePairs, MaybeIndefArray, Nullable, AnyUInt) every accepted byte
//!                 string re-encodes to exactly the same bytes. Byte strings are produced by the own
//!                 CBOR encoder (`pv::cbor::Node`) from a typed generator, so the style (head widths,
//!                 definite / indefinite framing, entry order, duplicates, null / undefined) is under
//!                 the generator's control and independent of minicbor;
//!   M (mutation): a KeepRaw decoded from non-canonical bytes and then touched through `deref_mut`
//!                 re-encodes as `to_vec(inner)`, not as the stale bytes.
//! Interpretation (DESIGN.md): byte-exactness is demanded only for the aspect each wrapper exists
//! to retain, therefore container *length heads* are generated minimal outside KeepRaw / AnyCbor,
//! and element types are themselves form-preserving or canonically encoded.
use pallas_codec::minicbor;
use pallas_codec::utils::{
    AnyCbor, AnyUInt, Bytes, CborWrap, EmptyMap, Int, KeepRaw, KeyValuePairs, MaybeIndefArray, NonEmptyKeyValuePairs, NonEmptySet, NonZeroInt, Nullable,
    OrderPreservingProperties, PositiveCoin, Set, TagWrap, ZeroOrOneArray,
};
use pv::cbor::{self, Item, Node, Restyle};
use pv::*;
use std::ops::DerefMut;

// ---------------------------------------------------------------------------------------
// typed generators of byte strings (rule B)
// ---------------------------------------------------------------------------------------

struct G<'a> {
    rng: &'a mut Rng,
    /// the one-byte-argument form with a value below 24 (`18 05`) is known not to be preserved by
    /// AnyUInt; when the direct AnyUInt probe fails, containers avoid that form so that the defect is
    /// reported once, under AnyUInt's own signature, and cannot mask a container defect
    avoid_w1_small: bool,
    depth: usize,
}

trait Shaped {
    fn gen(g: &mut G) -> Node;
    fn name() -> String;
}

fn min_w(v: u64) -> u8 {
    if v < 24 {
        0
    } else if v < 256 {
        1
    } else if v < 65536 {
        2
    } else if v < (1 << 32) {
        4
    } else {
        8
    }
}

fn any_width_uint(g: &mut G) -> Node {
    let v = match g.rng.below(4) {
        0 => g.rng.below(24),
        1 => g.rng.below(256),
        _ => g.rng.edgy_u64(),
    };
    let min = min_w(v);
    let mut opts: Vec<u8> = [0u8, 1, 2, 4, 8].iter().copied().filter(|w| *w >= min).collect();
    if g.avoid_w1_small && v < 24 {
        opts.retain(|w| *w != 1);
    }
    Node::UInt(v, *g.rng.pick(&opts))
}

impl Shaped for AnyUInt {
    fn gen(g: &mut G) -> Node {
        any_width_uint(g)
    }
    fn name() -> String {
        "AnyUInt".into()
    }
}
impl Shaped for u64 {
    fn gen(g: &mut G) -> Node {
        Node::UInt(g.rng.edgy_u64(), 0)
    }
    fn name() -> String {
        "u64".into()
    }
}
impl Shaped for Bytes {
    fn gen(g: &mut G) -> Node {
        let n = match g.rng.below(8) {
            0 => 24 + g.rng.usize_below(300),
            _ => g.rng.usize_below(30),
        };
        Node::Bytes(g.rng.bytes(n), 0)
    }
    fn name() -> String {
        "Bytes".into()
    }
}
impl Shaped for AnyCbor {
    fn gen(g: &mut G) -> Node {
        let d = g.rng.usize_below(4);
        let n = cbor::gen_node(g.rng, d);
        cbor::restyle(&n, g.rng, &Restyle::all(35)).0
    }
    fn name() -> String {
        "AnyCbor".into()
    }
}
impl<T: Shaped> Shaped for Vec<T> {
    fn gen(g: &mut G) -> Node {
        let n = if g.depth >= 3 { g.rng.usize_below(2) } else { g.rng.usize_below(6) };
        g.depth += 1;
        let xs = (0..n).map(|_| T::gen(g)).collect();
        g.depth -= 1;
        Node::Array(xs, 0)
    }
    fn name() -> String {
        format!("Vec<{}>", T::name())
    }
}
fn gen_entries<K: Shaped, V: Shaped>(g: &mut G, allow_empty: bool) -> Vec<(Node, Node)> {
    let mut n = if g.depth >= 3 { g.rng.usize_below(2) } else { g.rng.usize_below(6) };
    if !allow_empty && n == 0 {
        n = 1;
    }
    g.depth += 1;
    let mut xs: Vec<(Node, Node)> = (0..n).map(|_| (K::gen(g), V::gen(g))).collect();
    // duplicates and arbitrary (non-canonical) order are part of what the wrapper must keep
    if xs.len() >= 2 && g.rng.chance(1, 4) {
        let i = g.rng.usize_below(xs.len());
        let j = g.rng.usize_below(xs.len());
        let k = xs[i].0.clone();
        xs[j].0 = k;
    }
    g.depth -= 1;
    xs
}
impl<K: Shaped + Clone, V: Shaped + Clone> Shaped for KeyValuePairs<K, V> {
    fn gen(g: &mut G) -> Node {
        let xs = gen_entries::<K, V>(g, true);
        if g.rng.bool() {
            Node::Map(xs, 0)
        } else {
            Node::MapIndef(xs)
        }
    }
    fn name() -> String {
        format!("KeyValuePairs<{},{}>", K::name(), V::name())
    }
}
impl<K: Shaped + Clone, V: Shaped + Clone> Shaped for NonEmptyKeyValuePairs<K, V> {
    fn gen(g: &mut G) -> Node {
        let xs = gen_entries::<K, V>(g, false);
        if g.rng.bool() {
            Node::Map(xs, 0)
        } else {
            Node::MapIndef(xs)
        }
    }
    fn name() -> String {
        format!("NonEmptyKeyValuePairs<{},{}>", K::name(), V::name())
    }
}
impl<A: Shaped> Shaped for MaybeIndefArray<A> {
    fn gen(g: &mut G) -> Node {
        let n = if g.depth >= 3 { g.rng.usize_below(2) } else { g.rng.usize_below(6) };
        g.depth += 1;
        let xs = (0..n).map(|_| A::gen(g)).collect();
        g.depth -= 1;
        if g.rng.bool() {
            Node::Array(xs, 0)
        } else {
            Node::ArrayIndef(xs)
        }
    }
    fn name() -> String {
        format!("MaybeIndefArray<{}>", A::name())
    }
}
impl<T: Shaped + Clone> Shaped for Nullable<T> {
    fn gen(g: &mut G) -> Node {
        match g.rng.below(4) {
            0 => Node::Null,
            1 => Node::Undefined,
            _ => T::gen(g),
        }
    }
    fn name() -> String {
        format!("Nullable<{}>", T::name())
    }
}
/// KeepRaw keeps everything: the inner encoding is restyled freely (head widths of containers and
/// integers, definite <-> indefinite)
impl<T: Shaped> Shaped for KeepRaw<'_, T> {
    fn gen(g: &mut G) -> Node {
        let n = T::gen(g);
        let saved = g.avoid_w1_small;
        let _ = saved;
        cbor::restyle(&n, g.rng, &Restyle { width_pct: 50, indef_pct: 40, chunk_pct: 0, permute_pct: 30, tag258_pct: 0, min_depth: 0, int_heads_only: false }).0
    }
    fn name() -> String {
        format!("KeepRaw<{}>", T::name())
    }
}

// ---------------------------------------------------------------------------------------
// classification of a re-encoding difference (for signatures)
// ---------------------------------------------------------------------------------------

fn deepest_at<'a>(it: &'a Item, off: usize) -> &'a Item {
    for c in &it.children {
        if c.start <= off && off < c.end {
            return deepest_at(c, off);
        }
    }
    it
}

fn item_class(it: &Item, off: usize) -> String {
    let kind = match it.major {
        0 => "uint",
        1 => "nint",
        2 => "bytes",
        3 => "text",
        4 => "array",
        5 => "map",
        6 => "tag",
        _ => match it.ai {
            20 | 21 => "bool",
            22 => "null",
            23 => "undefined",
            25 | 26 | 27 => "float",
            _ => "simple",
        },
    };
    if it.indef {
        let part = if off + 1 == it.end { "break" } else { "head" };
        return format!("{kind}:indef:{part}");
    }
    if it.major == 7 {
        return kind.to_string();
    }
    let w = match it.ai {
        24 => 1,
        25 => 2,
        26 => 4,
        27 => 8,
        _ => 0,
    };
    let minimal = if w == min_w(it.arg) { "minimal" } else { "nonminimal" };
    let part = if off < it.start + it.head_len { "head" } else { "payload" };
    format!("{kind}:w{w}:{minimal}:{part}")
}

fn diff_class(orig: &[u8], re: &[u8]) -> String {
    let fd = orig.iter().zip(re.iter()).position(|(a, b)| a != b).unwrap_or(orig.len().min(re.len()));
    match cbor::parse(orig) {
        Ok(it) => {
            if fd >= orig.len() {
                return "longer-output".into();
            }
            item_class(deepest_at(&it, fd), fd)
        }
        Err(_) => "unparsed".into(),
    }
}

/// does the byte string use any style minicbor would not emit (non-minimal head, indefinite
/// container, undefined)?
fn non_canonical_style(it: &Item) -> bool {
    if it.indef {
        return true;
    }
    if it.major == 7 && it.ai == 23 {
        return true;
    }
    if it.major < 7 {
        let w = match it.ai {
            24 => 1,
            25 => 2,
            26 => 4,
            27 => 8,
            _ => 0,
        };
        if w != min_w(it.arg) {
            return true;
        }
    }
    it.children.iter().any(non_canonical_style)
}

// ---------------------------------------------------------------------------------------
// rule B
// ---------------------------------------------------------------------------------------

/// returns Some(true) when accepted and byte-identical, Some(false) when a violation was reported,
/// None when the decoder rejected the bytes
macro_rules! bytes_case {
    ($ctx:expr, $ty:ty, $bytes:expr) => {{
        let ctx: &mut Ctx = $ctx;
        let bytes: &[u8] = $bytes;
        let name = <$ty as Shaped>::name();
        ctx.eval();
        ctx.count("byte_cases");
        let r = pv::panics::catch(|| {
            let mut d = minicbor::Decoder::new(bytes);
            let v: Result<$ty, _> = d.decode();
            match v {
                Err(e) => Err(e.to_string()),
                Ok(v) => Ok((d.position(), minicbor::to_vec(&v).map_err(|e| e.to_string()))),
            }
        });
        match r {
            Err(p) => {
                ctx.violation(&format!("panic:bytes:{name}:{}", p.site()), &format!("decode / re-encode of {} as {name} panicked: {}", hex_short(bytes), p.msg), json!({"rule": "B", "type": name, "bytes": hexs(bytes)}));
                Some(false)
            }
            Ok(Err(_)) => {
                ctx.count("byte_cases_rejected");
                ctx.count(&format!("rejected_{name}"));
                None
            }
            Ok(Ok((pos, re))) => {
                ctx.count("byte_cases_accepted");
                ctx.count(&format!("accepted_{name}"));
                match re {
                    Err(e) => {
                        ctx.violation(&format!("reencode:{name}:encode-error"), &format!("{} decoded as {name} but re-encoding failed: {e}", hex_short(bytes)), json!({"rule": "B", "type": name, "bytes": hexs(bytes)}));
                        Some(false)
                    }
                    Ok(re) => {
                        if pos != bytes.len() {
                            ctx.violation(
                                &format!("reencode:{name}:partial-consume"),
                                &format!("{name} accepted {} but consumed only {pos} of {} bytes (one well-formed item)", hex_short(bytes), bytes.len()),
                                json!({"rule": "B", "type": name, "bytes": hexs(bytes)}),
                            );
                            Some(false)
                        } else if re != bytes {
                            let cls = diff_class(bytes, &re);
                            ctx.violation(
                                &format!("reencode:{name}:{cls}"),
                                &format!("{name} accepted {} but re-encodes it as {} (first difference in: {cls})", hex_short(bytes), hex_short(&re)),
                                json!({"rule": "B", "type": name, "bytes": hexs(bytes)}),
                            );
                            Some(false)
                        } else {
                            Some(true)
                        }
                    }
                }
            }
        }
    }};
}

macro_rules! gen_and_check {
    ($ctx:expr, $avoid:expr, $ty:ty) => {{
        let mut rng = std::mem::replace(&mut $ctx.rng, Rng::new(0));
        let node = {
            let mut g = G { rng: &mut rng, avoid_w1_small: $avoid, depth: 0 };
            <$ty as Shaped>::gen(&mut g)
        };
        $ctx.rng = rng;
        let bytes = node.to_vec();
        let r = bytes_case!($ctx, $ty, &bytes);
        if r == Some(true) {
            if let Ok(it) = cbor::parse(&bytes) {
                if non_canonical_style(&it) {
                    $ctx.nontrivial(fp(&bytes));
                    $ctx.count("nontrivial_byte_cases");
                }
                $ctx.max("deepest_byte_case_nodes", it.count_nodes() as u64);
            }
            if $ctx.want_sample() && bytes.len() > 6 && bytes.len() < 60 {
                $ctx.sample(json!({"rule": "B", "type": <$ty as Shaped>::name(), "bytes": hexs(&bytes)}));
            }
        }
    }};
}

/// all head forms of AnyUInt x magnitudes, executed completely (a few hundred cases)
fn anyuint_direct(ctx: &mut Ctx) -> bool {
    let mut vals: Vec<u64> = (0..=30).collect();
    for k in [8u32, 16, 32, 63] {
        let b = 1u64 << k;
        vals.extend([b - 2, b - 1, b, b + 1]);
    }
    vals.extend([200, 255, 256, 1000, 65535, 65536, u32::MAX as u64, u64::MAX - 1, u64::MAX, 23, 24, 25]);
    let mut w1_small_ok = true;
    for v in vals {
        for w in [0u8, 1, 2, 4, 8] {
            if w < min_w(v) || (w == 0 && v >= 24) {
                continue;
            }
            let bytes = Node::UInt(v, w).to_vec();
            let r = bytes_case!(ctx, AnyUInt, &bytes);
            ctx.count("anyuint_head_forms");
            if r == Some(true) && w != min_w(v) {
                ctx.nontrivial(fp(&bytes));
                ctx.count("nontrivial_byte_cases");
            }
            if w == 1 && v < 24 && r != Some(true) {
                w1_small_ok = false;
            }
        }
    }
    w1_small_ok
}

// ---------------------------------------------------------------------------------------
// rule V
// ---------------------------------------------------------------------------------------

macro_rules! value_case {
    ($ctx:expr, $name:expr, $ty:ty, $v:expr) => {
        value_case!($ctx, $name, $ty, $v, |a: &$ty, b: &$ty| a == b)
    };
    ($ctx:expr, $name:expr, $ty:ty, $v:expr, $eq:expr) => {{
        let ctx: &mut Ctx = $ctx;
        let name: String = $name.to_string();
        let v: $ty = $v;
        ctx.eval();
        ctx.count("value_cases");
        ctx.count(&format!("values_{}", name.split('<').next().unwrap_or("")));
        let enc = pv::panics::catch(|| minicbor::to_vec(&v).map_err(|e| e.to_string()));
        match enc {
            Err(p) => ctx.violation(&format!("panic:encode:{name}:{}", p.site()), &format!("encoding {v:?} panicked: {}", p.msg), json!({"rule": "V", "type": name, "value": format!("{v:?}")})),
            Ok(Err(e)) => ctx.violation(&format!("value:{name}:encode-error"), &format!("encoding {v:?} failed: {e}"), json!({"rule": "V", "type": name, "value": format!("{v:?}")})),
            Ok(Ok(bytes)) => {
                if cbor::parse(&bytes).is_err() {
                    ctx.count("encodings_not_one_wellformed_item");
                }
                let dec = pv::panics::catch(|| {
                    let mut d = minicbor::Decoder::new(&bytes);
                    let r: Result<$ty, _> = d.decode();
                    r.map(|x| (x, d.position())).map_err(|e| e.to_string())
                });
                match dec {
                    Err(p) => ctx.violation(&format!("panic:decode:{name}:{}", p.site()), &format!("decoding the encoding {} of {v:?} panicked: {}", hex_short(&bytes), p.msg), json!({"rule": "V", "type": name, "bytes": hexs(&bytes)})),
                    Ok(Err(e)) => ctx.violation(
                        &format!("value:{name}:decode-error"),
                        &format!("{v:?} encodes to {} which does not decode: {e}", hex_short(&bytes)),
                        json!({"rule": "V", "type": name, "bytes": hexs(&bytes), "value": format!("{v:?}")}),
                    ),
                    Ok(Ok((back, pos))) => {
                        let eq = $eq;
                        if !eq(&v, &back) {
                            ctx.violation(
                                &format!("value:{name}:mismatch"),
                                &format!("{v:?} encodes to {} which decodes to {back:?}", hex_short(&bytes)),
                                json!({"rule": "V", "type": name, "bytes": hexs(&bytes), "value": format!("{v:?}")}),
                            );
                        } else if pos != bytes.len() {
                            ctx.violation(
                                &format!("value:{name}:partial-consume"),
                                &format!("{v:?} encodes to {} of which decoding consumed only {pos} bytes", hex_short(&bytes)),
                                json!({"rule": "V", "type": name, "bytes": hexs(&bytes), "value": format!("{v:?}")}),
                            );
                        } else {
                            ctx.count("value_roundtrips_ok");
                        }
                    }
                }
            }
        }
    }};
}

// value generators ----------------------------------------------------------------------

struct VG<'a> {
    rng: &'a mut Rng,
    /// AnyUInt::U8(x < 24) is known not to round-trip; nested values avoid it when the direct probe fails
    avoid_u8_small: bool,
}

fn v_anyuint(g: &mut VG) -> AnyUInt {
    loop {
        let v = match g.rng.below(4) {
            0 => g.rng.below(24),
            1 => g.rng.below(300),
            _ => g.rng.edgy_u64(),
        };
        let a = match g.rng.below(5) {
            0 if v < 24 => AnyUInt::MajorByte(v as u8),
            1 if v < 256 => AnyUInt::U8(v as u8),
            2 if v < 65536 => AnyUInt::U16(v as u16),
            3 if v < (1 << 32) => AnyUInt::U32(v as u32),
            4 => AnyUInt::U64(v),
            _ => continue,
        };
        if g.avoid_u8_small {
            if let AnyUInt::U8(x) = a {
                if x < 24 {
                    continue;
                }
            }
        }
        return a;
    }
}
fn v_string(g: &mut VG) -> String {
    cbor::gen_text(g.rng, 14)
}
fn v_bytes(g: &mut VG) -> Bytes {
    let n = match g.rng.below(8) {
        0 => 23 + g.rng.usize_below(280),
        _ => g.rng.usize_below(26),
    };
    Bytes::from(g.rng.bytes(n))
}
fn v_int(g: &mut VG) -> Int {
    // the full CBOR integer range [-2^64, 2^64-1]
    let mag = g.rng.edgy_u64() as i128;
    let v: i128 = match g.rng.below(6) {
        0 => -(1i128 << 64),
        1 => (1i128 << 64) - 1,
        2 => -1 - mag,
        _ => {
            if g.rng.bool() {
                mag
            } else {
                -mag - 1
            }
        }
    };
    Int::try_from(v).expect("in CBOR integer range")
}
fn v_vec<T>(g: &mut VG, max: usize, f: impl Fn(&mut VG) -> T) -> Vec<T> {
    let n = g.rng.usize_below(max + 1);
    (0..n).map(|_| f(g)).collect()
}
fn v_mia<T>(g: &mut VG, f: impl Fn(&mut VG) -> T) -> MaybeIndefArray<T> {
    let xs = v_vec(g, 4, f);
    if g.rng.bool() {
        MaybeIndefArray::Def(xs)
    } else {
        MaybeIndefArray::Indef(xs)
    }
}
fn v_kvp<K: Clone, V: Clone>(g: &mut VG, fk: impl Fn(&mut VG) -> K, fv: impl Fn(&mut VG) -> V) -> KeyValuePairs<K, V> {
    let n = g.rng.usize_below(5);
    let mut xs: Vec<(K, V)> = (0..n).map(|_| (fk(g), fv(g))).collect();
    if xs.len() >= 2 && g.rng.chance(1, 4) {
        let k = xs[0].0.clone();
        let last = xs.len() - 1;
        xs[last].0 = k; // duplicate key
    }
    if g.rng.bool() {
        KeyValuePairs::Def(xs)
    } else {
        KeyValuePairs::Indef(xs)
    }
}
fn v_nekvp<K: Clone, V: Clone>(g: &mut VG, fk: impl Fn(&mut VG) -> K, fv: impl Fn(&mut VG) -> V) -> NonEmptyKeyValuePairs<K, V> {
    let n = 1 + g.rng.usize_below(4);
    let xs: Vec<(K, V)> = (0..n).map(|_| (fk(g), fv(g))).collect();
    if g.rng.bool() {
        NonEmptyKeyValuePairs::Def(xs)
    } else {
        NonEmptyKeyValuePairs::Indef(xs)
    }
}
fn v_nullable<T: Clone>(g: &mut VG, f: impl Fn(&mut VG) -> T) -> Nullable<T> {
    match g.rng.below(4) {
        0 => Nullable::Null,
        1 => Nullable::Undefined,
        _ => Nullable::Some(f(g)),
    }
}
fn v_u64(g: &mut VG) -> u64 {
    g.rng.edgy_u64()
}

/// an attribute of an order-preserving property map: key then value
#[derive(Debug, Clone, PartialEq)]
enum Prop {
    Num(u64),
    Name(String),
    Blob(Bytes),
}
impl<'b, C> minicbor::Decode<'b, C> for Prop {
    fn decode(d: &mut minicbor::Decoder<'b>, _: &mut C) -> Result<Self, minicbor::decode::Error> {
        match d.u8()? {
            0 => Ok(Prop::Num(d.u64()?)),
            1 => Ok(Prop::Name(d.str()?.to_string())),
            2 => Ok(Prop::Blob(d.decode()?)),
            _ => Err(minicbor::decode::Error::message("unknown property")),
        }
    }
}
impl<C> minicbor::Encode<C> for Prop {
    fn encode<W: minicbor::encode::Write>(&self, e: &mut minicbor::Encoder<W>, _: &mut C) -> Result<(), minicbor::encode::Error<W::Error>> {
        match self {
            Prop::Num(x) => {
                e.u8(0)?.u64(*x)?;
            }
            Prop::Name(s) => {
                e.u8(1)?.str(s)?;
            }
            Prop::Blob(b) => {
                e.u8(2)?.encode(b)?;
            }
        }
        Ok(())
    }
}

/// enums built with the `codec_by_datatype!` macro (datatype dispatch)
#[derive(Debug, Clone, PartialEq)]
enum ByType {
    Num(u64),
    Flag(bool),
    Text(String),
    Blob(Bytes),
    Many(bool, u64, i32),
}
pallas_codec::codec_by_datatype! {
    ByType,
    U8 | U16 | U32 | U64 => Num,
    Bool => Flag,
    String => Text,
    Bytes => Blob,
    (a, b, c => Many)
}
#[derive(Debug, Clone, PartialEq)]
enum ByContainer {
    List(MaybeIndefArray<AnyUInt>),
    Dict(KeyValuePairs<AnyUInt, Int>),
}
pallas_codec::codec_by_datatype! {
    ByContainer,
    Array | ArrayIndef => List,
    Map | MapIndef => Dict,
    ()
}

fn value_cases(ctx: &mut Ctx, n: u64, avoid_u8_small: bool) {
    for i in 0..n {
        let mut rng = std::mem::replace(&mut ctx.rng, Rng::new(0));
        let mut g = VG { rng: &mut rng, avoid_u8_small };
        let which = i % 37;
        match which {
            0 => {
                let v = v_kvp(&mut g, v_u64, v_string);
                value_case!(ctx, "KeyValuePairs<u64,String>", KeyValuePairs<u64, String>, v);
            }
            1 => {
                let v = v_kvp(&mut g, v_anyuint, v_bytes);
                value_case!(ctx, "KeyValuePairs<AnyUInt,Bytes>", KeyValuePairs<AnyUInt, Bytes>, v);
            }
            2 => {
                let v = v_kvp(&mut g, v_int, |g| v_nullable(g, |g| g.rng.next_u32()));
                value_case!(ctx, "KeyValuePairs<Int,Nullable<u32>>", KeyValuePairs<Int, Nullable<u32>>, v);
            }
            3 => {
                let v = v_nekvp(&mut g, v_string, v_u64);
                value_case!(ctx, "NonEmptyKeyValuePairs<String,u64>", NonEmptyKeyValuePairs<String, u64>, v);
            }
            4 => {
                let v = v_nekvp(&mut g, v_anyuint, |g| v_mia(g, v_anyuint));
                value_case!(ctx, "NonEmptyKeyValuePairs<AnyUInt,MaybeIndefArray<AnyUInt>>", NonEmptyKeyValuePairs<AnyUInt, MaybeIndefArray<AnyUInt>>, v);
            }
            5 => {
                let v = v_mia(&mut g, v_u64);
                value_case!(ctx, "MaybeIndefArray<u64>", MaybeIndefArray<u64>, v);
            }
            6 => {
                let v = v_mia(&mut g, v_string);
                value_case!(ctx, "MaybeIndefArray<String>", MaybeIndefArray<String>, v);
            }
            7 => {
                // depth 3
                let v = v_mia(&mut g, |g| v_kvp(g, |g| g.rng.next_u32(), |g| v_mia(g, |g| v_nullable(g, |g| g.rng.next_u32() as u16))));
                value_case!(ctx, "MaybeIndefArray<KeyValuePairs<u32,MaybeIndefArray<Nullable<u16>>>>", MaybeIndefArray<KeyValuePairs<u32, MaybeIndefArray<Nullable<u16>>>>, v);
            }
            8 => {
                let v = v_mia(&mut g, |g| v_mia(g, |g| v_mia(g, v_anyuint)));
                value_case!(ctx, "MaybeIndefArray<MaybeIndefArray<MaybeIndefArray<AnyUInt>>>", MaybeIndefArray<MaybeIndefArray<MaybeIndefArray<AnyUInt>>>, v);
            }
            9 => {
                let v = v_nullable(&mut g, v_u64);
                value_case!(ctx, "Nullable<u64>", Nullable<u64>, v);
            }
            10 => {
                let v = v_nullable(&mut g, v_string);
                value_case!(ctx, "Nullable<String>", Nullable<String>, v);
            }
            11 => {
                let v = v_nullable(&mut g, |g| v_mia(g, |g| g.rng.next_u8()));
                value_case!(ctx, "Nullable<MaybeIndefArray<u8>>", Nullable<MaybeIndefArray<u8>>, v);
            }
            12 => {
                // the direct AnyUInt space is covered by anyuint_values(); here inside a tuple
                let v = (v_anyuint(&mut g), v_anyuint(&mut g));
                value_case!(ctx, "(AnyUInt,AnyUInt)", (AnyUInt, AnyUInt), v);
            }
            13 => {
                let v: Set<u64> = Set::from(v_vec(&mut g, 5, v_u64));
                value_case!(ctx, "Set<u64>", Set<u64>, v);
            }
            14 => {
                let mut xs = v_vec(&mut g, 4, v_string);
                xs.push(v_string(&mut g));
                let v: NonEmptySet<String> = NonEmptySet::from_vec(xs).unwrap();
                value_case!(ctx, "NonEmptySet<String>", NonEmptySet<String>, v);
            }
            15 => {
                let v: Set<Set<u32>> = Set::from(v_vec(&mut g, 3, |g| Set::from(v_vec(g, 3, |g| g.rng.next_u32()))));
                value_case!(ctx, "Set<Set<u32>>", Set<Set<u32>>, v);
            }
            16 => {
                let v: TagWrap<u64, 30> = TagWrap::new(v_u64(&mut g));
                value_case!(ctx, "TagWrap<u64,30>", TagWrap<u64, 30>, v);
            }
            17 => {
                let v: TagWrap<Bytes, 24> = TagWrap::new(v_bytes(&mut g));
                value_case!(ctx, "TagWrap<Bytes,24>", TagWrap<Bytes, 24>, v);
            }
            18 => {
                let v: TagWrap<Vec<u32>, 70000> = TagWrap::new(v_vec(&mut g, 4, |g| g.rng.next_u32()));
                value_case!(ctx, "TagWrap<Vec<u32>,70000>", TagWrap<Vec<u32>, 70000>, v);
            }
            19 => {
                let v = CborWrap(v_u64(&mut g));
                value_case!(ctx, "CborWrap<u64>", CborWrap<u64>, v);
            }
            20 => {
                let v = CborWrap(v_kvp(&mut g, v_anyuint, |g| v_vec(g, 3, v_string)));
                value_case!(ctx, "CborWrap<KeyValuePairs<AnyUInt,Vec<String>>>", CborWrap<KeyValuePairs<AnyUInt, Vec<String>>>, v);
            }
            21 => {
                // ZeroOrOneArray has no public constructor: obtain values by decoding
                let bytes = if g.rng.bool() { vec![0x80] } else { minicbor::to_vec((v_u64(&mut g),)).unwrap() };
                let v: Result<ZeroOrOneArray<u64>, _> = minicbor::decode(&bytes);
                if let Ok(v) = v {
                    value_case!(ctx, "ZeroOrOneArray<u64>", ZeroOrOneArray<u64>, v, |a: &ZeroOrOneArray<u64>, b: &ZeroOrOneArray<u64>| **a == **b);
                } else {
                    ctx.count("zero_or_one_seed_rejected");
                }
            }
            22 => {
                let props: Vec<Prop> = v_vec(&mut g, 5, |g| match g.rng.below(3) {
                    0 => Prop::Num(v_u64(g)),
                    1 => Prop::Name(v_string(g)),
                    _ => Prop::Blob(v_bytes(g)),
                });
                let v: OrderPreservingProperties<Prop> = OrderPreservingProperties::from(props);
                value_case!(ctx, "OrderPreservingProperties<Prop>", OrderPreservingProperties<Prop>, v);
            }
            23 => {
                let v = v_bytes(&mut g);
                value_case!(ctx, "Bytes", Bytes, v);
            }
            24 => {
                let v = v_int(&mut g);
                value_case!(ctx, "Int", Int, v);
            }
            25 => {
                value_case!(ctx, "EmptyMap", EmptyMap, EmptyMap);
            }
            26 => {
                let x = v_u64(&mut g).max(1);
                let v = PositiveCoin::try_from(x).unwrap();
                value_case!(ctx, "PositiveCoin", PositiveCoin, v);
            }
            27 => {
                let mut x = g.rng.edgy_i64();
                if x == 0 {
                    x = -1;
                }
                let v = NonZeroInt::try_from(x).unwrap();
                value_case!(ctx, "NonZeroInt", NonZeroInt, v);
            }
            28 => {
                // KeepRaw built from a value: equal inner value and the same re-encoding
                let v: KeepRaw<'static, Vec<u64>> = KeepRaw::from(v_vec(&mut g, 4, v_u64));
                value_case!(ctx, "KeepRaw<Vec<u64>>(from value)", KeepRaw<'_, Vec<u64>>, v, |a: &KeepRaw<'_, Vec<u64>>, b: &KeepRaw<'_, Vec<u64>>| **a == **b
                    && minicbor::to_vec(a).ok() == minicbor::to_vec(b).ok());
            }
            29 => {
                let inner = v_kvp(&mut g, v_anyuint, v_int);
                let v = AnyCbor::from_encode(inner);
                value_case!(ctx, "AnyCbor", AnyCbor, v);
            }
            30 => {
                let v = match g.rng.below(5) {
                    0 => ByType::Num(v_u64(&mut g)),
                    1 => ByType::Flag(g.rng.bool()),
                    2 => ByType::Text(v_string(&mut g)),
                    3 => ByType::Blob(v_bytes(&mut g)),
                    _ => ByType::Many(g.rng.bool(), v_u64(&mut g), g.rng.edgy_i64() as i32),
                };
                value_case!(ctx, "codec_by_datatype:ByType", ByType, v);
            }
            31 => {
                let v = if g.rng.bool() { ByContainer::List(v_mia(&mut g, v_anyuint)) } else { ByContainer::Dict(v_kvp(&mut g, v_anyuint, v_int)) };
                value_case!(ctx, "codec_by_datatype:ByContainer", ByContainer, v);
            }
            32 => {
                let v = v_nullable(&mut g, |g| v_kvp(g, v_anyuint, |g| v_nullable(g, v_bytes)));
                value_case!(ctx, "Nullable<KeyValuePairs<AnyUInt,Nullable<Bytes>>>", Nullable<KeyValuePairs<AnyUInt, Nullable<Bytes>>>, v);
            }
            34 => {
                // an (in)definite map as the last value of an (in)definite map: two breaks in a row
                let v = v_nekvp(&mut g, v_u64, |g| v_nekvp(g, v_u64, v_u64));
                value_case!(ctx, "NonEmptyKeyValuePairs<u64,NonEmptyKeyValuePairs<u64,u64>>", NonEmptyKeyValuePairs<u64, NonEmptyKeyValuePairs<u64, u64>>, v);
            }
            35 => {
                let v = v_mia(&mut g, |g| v_nekvp(g, v_u64, v_u64));
                value_case!(ctx, "MaybeIndefArray<NonEmptyKeyValuePairs<u64,u64>>", MaybeIndefArray<NonEmptyKeyValuePairs<u64, u64>>, v);
            }
            36 => {
                let v = v_kvp(&mut g, v_u64, |g| v_kvp(g, v_u64, |g| v_mia(g, v_u64)));
                value_case!(ctx, "KeyValuePairs<u64,KeyValuePairs<u64,MaybeIndefArray<u64>>>", KeyValuePairs<u64, KeyValuePairs<u64, MaybeIndefArray<u64>>>, v);
            }
            _ => {
                // a decoded KeepRaw (raw bytes present) is a value too: full equality incl. the raw bytes
                let node = {
                    let mut gg = G { rng: g.rng, avoid_w1_small: true, depth: 0 };
                    <KeepRaw<'_, Vec<u64>> as Shaped>::gen(&mut gg)
                };
                let bytes = node.to_vec();
                let k: Result<KeepRaw<'_, Vec<u64>>, _> = minicbor::decode(&bytes);
                if let Ok(k) = k {
                    let k = k.to_owned();
                    value_case!(ctx, "KeepRaw<Vec<u64>>(decoded)", KeepRaw<'_, Vec<u64>>, k);
                }
            }
        }
        ctx.rng = rng;
    }
}

/// every AnyUInt variant x boundary magnitudes, executed completely. Returns whether U8(x<24) round-trips.
fn anyuint_values(ctx: &mut Ctx) -> bool {
    let mut ok_small = true;
    let mut all: Vec<(AnyUInt, &'static str)> = vec![];
    for x in 0..24u8 {
        all.push((AnyUInt::MajorByte(x), "MajorByte"));
    }
    for x in 0..=255u8 {
        all.push((AnyUInt::U8(x), if x < 24 { "U8:nonminimal" } else { "U8:minimal" }));
    }
    for x in [0u16, 1, 23, 24, 255, 256, 257, 1000, u16::MAX - 1, u16::MAX] {
        all.push((AnyUInt::U16(x), if x < 256 { "U16:nonminimal" } else { "U16:minimal" }));
    }
    for x in [0u32, 23, 24, 255, 256, 65535, 65536, 1 << 31, u32::MAX] {
        all.push((AnyUInt::U32(x), if x < 65536 { "U32:nonminimal" } else { "U32:minimal" }));
    }
    for x in [0u64, 23, 24, 255, 256, 65535, 65536, u32::MAX as u64, 1 << 32, 1 << 63, u64::MAX] {
        all.push((AnyUInt::U64(x), if x < (1 << 32) { "U64:nonminimal" } else { "U64:minimal" }));
    }
    for (v, cls) in all {
        let before = ctx.n_violations();
        let count_before = ctx.stat("value_roundtrips_ok");
        value_case!(ctx, format!("AnyUInt:{cls}"), AnyUInt, v);
        let _ = before;
        if cls == "U8:nonminimal" && ctx.stat("value_roundtrips_ok") == count_before {
            ok_small = false;
        }
    }
    ok_small
}

// ---------------------------------------------------------------------------------------
// rule M: mutation of a KeepRaw
// ---------------------------------------------------------------------------------------

fn mutation_case(ctx: &mut Ctx) {
    ctx.eval();
    ctx.count("mutation_cases");
    let mut rng = std::mem::replace(&mut ctx.rng, Rng::new(0));
    let nested = rng.chance(1, 3);
    let node = {
        let mut g = G { rng: &mut rng, avoid_w1_small: true, depth: 0 };
        if nested {
            <MaybeIndefArray<KeepRaw<'_, Vec<u64>>> as Shaped>::gen(&mut g)
        } else {
            <KeepRaw<'_, Vec<u64>> as Shaped>::gen(&mut g)
        }
    };
    let bytes = node.to_vec();
    let how = rng.below(5);
    let x = rng.edgy_u64();
    // how the wrapper reaches the mutation: 0 = as decoded (borrowed raw bytes), 1 = detached with
    // to_owned(), 2 = a clone of the decoded wrapper, 3 = to_owned() then clone, 4 = clone then to_owned()
    let prep = rng.below(5);
    ctx.rng = rng;
    ctx.count(&format!("mutation_prep_{prep}"));
    let replay = json!({"rule": "M", "bytes": hexs(&bytes), "nested": nested, "how": how, "x": x.to_string(), "prep": prep});
    let mutate = |v: &mut Vec<u64>| match how {
        0 => v.push(x),
        1 => {
            v.pop();
        }
        2 => {
            if let Some(f) = v.first_mut() {
                *f = f.wrapping_add(1);
            } else {
                v.push(x);
            }
        }
        3 => v.clear(),
        _ => {} // mutable access without a change
    };
    let r = pv::panics::catch(|| -> Result<Option<(Vec<u8>, Vec<u8>, bool)>, String> {
        if nested {
            let mut outer: MaybeIndefArray<KeepRaw<'_, Vec<u64>>> = match minicbor::decode(&bytes) {
                Ok(v) => v,
                Err(_) => return Ok(None),
            };
            let xs = match &mut outer {
                MaybeIndefArray::Def(xs) | MaybeIndefArray::Indef(xs) => xs,
            };
            if xs.is_empty() {
                return Ok(None);
            }
            let stale_visible = xs[0].raw_cbor() != minicbor::to_vec(&*xs[0]).map_err(|e| e.to_string())?.as_slice();
            if prep != 0 {
                let e = xs.remove(0);
                let e: KeepRaw<'_, Vec<u64>> = match prep {
                    1 => e.to_owned(),
                    2 => e.clone(),
                    3 => e.to_owned().clone(),
                    _ => e.clone().to_owned(),
                };
                xs.insert(0, e);
            }
            mutate(xs[0].deref_mut());
            // expected: the element re-encodes from its content, the others keep their bytes
            let mut expect = vec![];
            {
                let indef = matches!(outer, MaybeIndefArray::Indef(_));
                let n = outer.len() as u64;
                if indef {
                    expect.push(0x9f);
                } else {
                    cbor::head(4, n, 0, &mut expect);
                }
                for (i, k) in outer.iter().enumerate() {
                    if i == 0 {
                        expect.extend(minicbor::to_vec(&**k).map_err(|e| e.to_string())?);
                    } else {
                        expect.extend_from_slice(k.raw_cbor());
                    }
                }
                if indef {
                    expect.push(0xff);
                }
            }
            let got = minicbor::to_vec(&outer).map_err(|e| e.to_string())?;
            Ok(Some((got, expect, stale_visible)))
        } else {
            let mut k: KeepRaw<'_, Vec<u64>> = match minicbor::decode(&bytes) {
                Ok(v) => v,
                Err(_) => return Ok(None),
            };
            let stale_visible = k.raw_cbor() != minicbor::to_vec(&*k).map_err(|e| e.to_string())?.as_slice();
            let mut k: KeepRaw<'_, Vec<u64>> = match prep {
                0 => k,
                1 => k.to_owned(),
                2 => k.clone(),
                3 => k.to_owned().clone(),
                _ => k.clone().to_owned(),
            };
            mutate(k.deref_mut());
            let expect = minicbor::to_vec(&*k).map_err(|e| e.to_string())?;
            let got = minicbor::to_vec(&k).map_err(|e| e.to_string())?;
            Ok(Some((got, expect, stale_visible)))
        }
    });
    match r {
        Err(p) => ctx.violation(&format!("panic:mutation:{}", p.site()), &format!("KeepRaw mutation case panicked: {}", p.msg), replay),
        Ok(Err(e)) => ctx.violation("mutation:encode-error", &format!("encoding after mutation failed: {e}"), replay),
        Ok(Ok(None)) => ctx.count("mutation_seed_rejected"),
        Ok(Ok(Some((got, expect, stale_visible)))) => {
            if got != expect {
                let cls = if got == bytes { "stale-bytes-reemitted" } else { "differs-from-inner-encoding" };
                ctx.violation(
                    &format!("mutation:KeepRaw:{cls}"),
                    &format!("KeepRaw decoded from {} and touched through deref_mut (mutation kind {how}) re-encodes as {}, expected to_vec(inner) = {}", hex_short(&bytes), hex_short(&got), hex_short(&expect)),
                    replay,
                );
            } else {
                ctx.count("mutation_ok");
                if stale_visible {
                    // non-trivial: the original raw bytes differ from the canonical encoding of the
                    // content, so stale bytes would have been visible
                    ctx.nontrivial(fp_mix(fp(&bytes), how));
                    ctx.count("nontrivial_mutation_cases");
                }
            }
        }
    }
}

// ---------------------------------------------------------------------------------------

fn byte_cases(ctx: &mut Ctx, n: u64, avoid: bool) {
    for i in 0..n {
        match i % 22 {
            0 => gen_and_check!(ctx, false, AnyCbor),
            1 => gen_and_check!(ctx, avoid, KeepRaw<'_, u64>),
            2 => gen_and_check!(ctx, avoid, KeepRaw<'_, Vec<u64>>),
            3 => gen_and_check!(ctx, avoid, KeepRaw<'_, KeyValuePairs<u64, Vec<u64>>>),
            4 => gen_and_check!(ctx, avoid, KeepRaw<'_, MaybeIndefArray<AnyUInt>>),
            5 => gen_and_check!(ctx, avoid, KeyValuePairs<AnyUInt, AnyCbor>),
            6 => gen_and_check!(ctx, avoid, KeyValuePairs<u64, Bytes>),
            7 => gen_and_check!(ctx, avoid, KeyValuePairs<AnyUInt, MaybeIndefArray<AnyUInt>>),
            8 => gen_and_check!(ctx, avoid, KeyValuePairs<AnyUInt, KeyValuePairs<AnyUInt, Nullable<AnyUInt>>>),
            9 => gen_and_check!(ctx, avoid, NonEmptyKeyValuePairs<AnyUInt, AnyCbor>),
            10 => gen_and_check!(ctx, avoid, NonEmptyKeyValuePairs<u64, KeepRaw<'_, Vec<u64>>>),
            11 => gen_and_check!(ctx, avoid, MaybeIndefArray<AnyUInt>),
            12 => gen_and_check!(ctx, avoid, MaybeIndefArray<AnyCbor>),
            13 => gen_and_check!(ctx, avoid, MaybeIndefArray<MaybeIndefArray<MaybeIndefArray<AnyUInt>>>),
            14 => gen_and_check!(ctx, avoid, MaybeIndefArray<KeyValuePairs<AnyUInt, Nullable<AnyCbor>>>),
            15 => gen_and_check!(ctx, avoid, MaybeIndefArray<KeepRaw<'_, Vec<u64>>>),
            16 => gen_and_check!(ctx, avoid, Nullable<AnyUInt>),
            17 => gen_and_check!(ctx, avoid, Nullable<AnyCbor>),
            18 => gen_and_check!(ctx, avoid, Nullable<MaybeIndefArray<AnyUInt>>),
            19 => gen_and_check!(ctx, avoid, Nullable<KeepRaw<'_, u64>>),
            20 => gen_and_check!(ctx, avoid, Nullable<KeyValuePairs<AnyUInt, MaybeIndefArray<Nullable<AnyUInt>>>>),
            _ => gen_and_check!(ctx, avoid, AnyUInt),
        }
    }
}

fn replay(ctx: &mut Ctx, v: &serde_json::Value) {
    let r = &v["replay"];
    let bytes = hex::decode(r["bytes"].as_str().unwrap_or("")).unwrap_or_default();
    println!("rule {} type {} bytes {}", r["rule"], r["type"], hexs(&bytes));
    // the generic replays: show what the basic wrappers do with these bytes
    macro_rules! show {
        ($ty:ty) => {{
            let x: Result<$ty, _> = minicbor::decode(&bytes);
            match x {
                Ok(v) => println!("  as {:<28} -> {:?} -> {}", <$ty as Shaped>::name(), v, hexs(&minicbor::to_vec(&v).unwrap_or_default())),
                Err(e) => println!("  as {:<28} -> rejected: {e}", <$ty as Shaped>::name()),
            }
            // the oracle is re-applied only for the type the witness was recorded for
            if r["rule"] == "B" && r["type"].as_str() == Some(<$ty as Shaped>::name().as_str()) {
                let _ = bytes_case!(ctx, $ty, &bytes);
            }
        }};
    }
    show!(AnyUInt);
    show!(AnyCbor);
    show!(KeepRaw<'_, Vec<u64>>);
    show!(MaybeIndefArray<AnyUInt>);
    show!(KeyValuePairs<AnyUInt, AnyCbor>);
    show!(Nullable<AnyUInt>);
    println!("replayed: violations={}", ctx.n_violations());
}

fn main() {
    let mut ctx = Ctx::from_args("C03");
    if let Err(e) = cbor::selftest() {
        ctx.inconclusive(&format!("own CBOR toolkit self-test failed: {e}"));
        ctx.finish();
    }
    if let Some(p) = ctx.replay.clone() {
        let v: serde_json::Value = serde_json::from_slice(&std::fs::read(p).unwrap()).unwrap();
        replay(&mut ctx, &v);
        ctx.finish();
    }
    // complete small spaces first (every shard: they are tiny and decide the generator switches)
    let w1_small_ok = anyuint_direct(&mut ctx);
    let u8_small_ok = anyuint_values(&mut ctx);
    ctx.note("anyuint_head_forms_exhaustive", json!(true));
    ctx.note("anyuint_w1_small_form_used_inside_containers", json!(w1_small_ok));
    ctx.note("anyuint_u8_small_value_used_inside_nested_values", json!(u8_small_ok));

    let total = ctx.budget(300_000, 5_000_000);
    byte_cases(&mut ctx, total * 55 / 100, !w1_small_ok);
    value_cases(&mut ctx, total * 35 / 100, !u8_small_ok);
    for _ in 0..total * 10 / 100 {
        mutation_case(&mut ctx);
    }
    ctx.finish();
}
