//! C26 — chain-sync rollback buffer behaves like a chain-suffix (list) model.
//! Oracle: a `Vec<Point>` model, stepped next to the real `RollbackBuffer`; after every
//! operation the complete public state (peek / size / oldest / latest / position of every
//! alphabet point) is read back and compared. With duplicate points in the buffer the model
//! is permissive exactly where the property is silent: after `roll_back(p)` the content must
//! be a prefix of the old content whose last element is *an* occurrence of p, and
//! `position(p)` may name any occurrence.
use pallas_network::miniprotocols::chainsync::{RollbackBuffer, RollbackEffect};
use pallas_network::miniprotocols::Point;
use pv::*;
use serde_json::Value;

#[derive(Clone, Debug)]
enum Op {
    Fwd(usize),
    Back(usize),
    Pop(usize),
}

fn alphabet(rng: &mut Rng, k: usize, with_origin: bool) -> Vec<Point> {
    let mut v = Vec::new();
    for i in 0..k {
        if with_origin && i == 0 {
            v.push(Point::Origin);
            continue;
        }
        // some points share the slot and differ only in the hash, some share the hash bytes prefix
        let slot = if rng.chance(1, 4) { 7 } else { rng.edgy_u64() };
        let hl = if rng.chance(1, 5) { rng.usize_below(4) } else { 32 };
        let mut h = rng.bytes(hl);
        h.push(i as u8); // distinct points are distinct
        v.push(Point::Specific(slot, h));
    }
    v
}

fn pt_json(p: &Point) -> Value {
    match p {
        Point::Origin => json!("origin"),
        Point::Specific(s, h) => json!([s.to_string(), hexs(h)]),
    }
}
fn pt_from(v: &Value) -> Point {
    match v {
        Value::String(_) => Point::Origin,
        _ => Point::Specific(v[0].as_str().unwrap().parse().unwrap(), hex::decode(v[1].as_str().unwrap()).unwrap()),
    }
}
fn ops_json(ops: &[Op]) -> Value {
    Value::Array(
        ops.iter()
            .map(|o| match o {
                Op::Fwd(i) => json!(["f", i]),
                Op::Back(i) => json!(["b", i]),
                Op::Pop(d) => json!(["p", d.to_string()]),
            })
            .collect(),
    )
}
fn ops_from(v: &Value) -> Vec<Op> {
    v.as_array()
        .unwrap()
        .iter()
        .map(|o| match o[0].as_str().unwrap() {
            "f" => Op::Fwd(o[1].as_u64().unwrap() as usize),
            "b" => Op::Back(o[1].as_u64().unwrap() as usize),
            _ => Op::Pop(o[1].as_str().unwrap().parse().unwrap()),
        })
        .collect()
}

struct Outcome {
    hit: u64,
    miss: u64,
    pop_nonempty: u64,
    dup_rollback: u64,
    max_len: usize,
    failed: bool,
}

fn idxs(model: &[Point], alpha: &[Point]) -> String {
    model.iter().map(|p| alpha.iter().position(|a| a == p).map(|i| i.to_string()).unwrap_or("?".into())).collect::<Vec<_>>().join(",")
}

/// runs one op sequence against the real buffer and the model; reports the first divergence
fn run_seq(ctx: &mut Ctx, alpha: &[Point], ops: &[Op]) -> Outcome {
    let mut out = Outcome { hit: 0, miss: 0, pop_nonempty: 0, dup_rollback: 0, max_len: 0, failed: false };
    let mut real = RollbackBuffer::new();
    let mut model: Vec<Point> = Vec::new();
    let replay = |upto: usize| json!({"alphabet": alpha.iter().map(pt_json).collect::<Vec<_>>(), "ops": ops_json(&ops[..=upto])});
    for (k, op) in ops.iter().enumerate() {
        ctx.eval();
        let before = model.clone();
        // ---- apply to the real buffer, compute the expectation on the model -------------
        let r = pv::panics::catch(|| -> Result<(), (String, String)> {
            match op {
                Op::Fwd(i) => {
                    real.roll_forward(alpha[*i].clone());
                    model.push(alpha[*i].clone());
                }
                Op::Back(i) => {
                    let p = &alpha[*i];
                    let eff = real.roll_back(p);
                    let present = model.iter().any(|q| q == p);
                    let dup = model.iter().filter(|q| *q == p).count() > 1;
                    let now: Vec<Point> = real.peek().cloned().collect();
                    match (present, eff) {
                        (true, RollbackEffect::Handled) => {
                            // permissive: any prefix of the old content that ends in an occurrence of p
                            let ok = !now.is_empty() && now.len() <= model.len() && now[..] == model[..now.len()] && now.last() == Some(p);
                            if !ok {
                                let cls = if now.len() <= model.len() && now[..] == model[..now.len()] {
                                    if now.len() < model.len() && model.get(now.len()) == Some(p) { "point-itself-dropped" } else { "prefix-not-ending-in-point" }
                                } else {
                                    "not-a-prefix"
                                };
                                return Err((format!("roll_back:hit:{cls}"), format!("roll_back(#{i}) on [{}] left [{}]", idxs(&model, alpha), idxs(&now, alpha))));
                            }
                            if dup {
                                out.dup_rollback += 1;
                            }
                            out.hit += 1;
                            model = now;
                        }
                        (true, RollbackEffect::OutOfScope) => {
                            return Err(("roll_back:hit:reported-out-of-scope".into(), format!("roll_back(#{i}) on [{}] reported OutOfScope", idxs(&model, alpha))));
                        }
                        (false, RollbackEffect::Handled) => {
                            return Err(("roll_back:miss:reported-handled".into(), format!("roll_back(#{i}) on [{}] (point absent) reported Handled", idxs(&model, alpha))));
                        }
                        (false, RollbackEffect::OutOfScope) => {
                            out.miss += 1;
                            model.clear();
                            if !now.is_empty() {
                                return Err(("roll_back:miss:buffer-not-emptied".into(), format!("roll_back(#{i}) (point absent) left {} points in the buffer", now.len())));
                            }
                        }
                    }
                }
                Op::Pop(d) => {
                    let got = real.pop_with_depth(*d);
                    let ready = model.len().saturating_sub(*d);
                    let exp: Vec<Point> = model.drain(0..ready).collect();
                    if got != exp {
                        let cls = if got.len() > exp.len() { "too-many" } else if got.len() < exp.len() { "too-few" } else { "wrong-points-or-order" };
                        return Err((format!("pop_with_depth:{cls}"), format!("pop_with_depth({d}) on [{}] returned [{}], expected [{}]", idxs(&before, alpha), idxs(&got, alpha), idxs(&exp, alpha))));
                    }
                    if !got.is_empty() {
                        out.pop_nonempty += 1;
                    }
                }
            }
            // ---- read the whole public state back ----------------------------------------
            let now: Vec<Point> = real.peek().cloned().collect();
            if now != model {
                let opn = match op { Op::Fwd(_) => "roll_forward", Op::Back(_) => "roll_back", Op::Pop(_) => "pop_with_depth" };
                return Err((format!("state:peek-differs-after:{opn}"), format!("after {op:?} on [{}]: buffer [{}], model [{}]", idxs(&before, alpha), idxs(&now, alpha), idxs(&model, alpha))));
            }
            if real.size() != model.len() {
                return Err(("state:size".into(), format!("size() = {}, model has {}", real.size(), model.len())));
            }
            if real.oldest() != model.first() {
                return Err(("state:oldest".into(), format!("oldest() = {:?}, model {:?}", real.oldest(), model.first())));
            }
            if real.latest() != model.last() {
                return Err(("state:latest".into(), format!("latest() = {:?}, model {:?}", real.latest(), model.last())));
            }
            for (j, p) in alpha.iter().enumerate() {
                match real.position(p) {
                    None => {
                        if model.iter().any(|q| q == p) {
                            return Err(("position:none-for-buffered-point".into(), format!("position(#{j}) = None but model is [{}]", idxs(&model, alpha))));
                        }
                    }
                    Some(x) => {
                        if model.get(x) != Some(p) {
                            return Err(("position:wrong-index".into(), format!("position(#{j}) = Some({x}) but model is [{}]", idxs(&model, alpha))));
                        }
                    }
                }
            }
            Ok(())
        });
        out.max_len = out.max_len.max(model.len());
        match r {
            Ok(Ok(())) => {}
            Ok(Err((sig, what))) => {
                ctx.violation(&sig, &format!("{what} (step {k} of {})", ops.len()), replay(k));
                out.failed = true;
                return out;
            }
            Err(p) if p.in_harness() => {
                ctx.inconclusive(&format!("harness panic at {}:{}: {}", p.file, p.line, p.msg));
                out.failed = true;
                return out;
            }
            Err(p) => {
                let opn = match op { Op::Fwd(_) => "roll_forward", Op::Back(_) => "roll_back", Op::Pop(_) => "pop_with_depth" };
                ctx.violation(&format!("panic:{opn}:{}", p.site()), &format!("{op:?} on [{}] panicked: {}", idxs(&before, alpha), p.msg), replay(k));
                out.failed = true;
                return out;
            }
        }
    }
    out
}

fn gen_ops(rng: &mut Rng, k: usize, len: usize) -> Vec<Op> {
    // per-sequence mix so that some sequences grow long buffers and others churn.
    // `shadow` only steers the generator (which points are probably buffered, how deep the
    // buffer probably is); it plays no part in the verdict.
    let w_fwd = if rng.chance(1, 8) { 40 } else { 2 + rng.below(10) };
    let w_back = 1 + rng.below(3);
    let w_pop = 1 + rng.below(3);
    let tot = w_fwd + w_back + w_pop;
    let p_hit = rng.below(5); // of 4: probability that a roll-back aims at a buffered point
    let mut shadow: Vec<usize> = Vec::new();
    let mut ops = Vec::with_capacity(len);
    for _ in 0..len {
        let x = rng.below(tot);
        if x < w_fwd {
            let i = rng.usize_below(k);
            ops.push(Op::Fwd(i));
            shadow.push(i);
        } else if x < w_fwd + w_back {
            let i = if !shadow.is_empty() && rng.below(4) < p_hit { shadow[rng.usize_below(shadow.len())] } else { rng.usize_below(k) };
            ops.push(Op::Back(i));
            match shadow.iter().position(|q| *q == i) {
                Some(x) => shadow.truncate(x + 1),
                None => shadow.clear(),
            }
        } else {
            let cur_len = shadow.len();
            let d = match rng.below(10) {
                0 => 0,
                1 => cur_len,
                2 => cur_len + 1,
                3 => cur_len.saturating_sub(1),
                4 => *rng.pick(&[usize::MAX, usize::MAX - 1, usize::MAX / 2, 1 << 32]),
                _ => rng.usize_below(cur_len + 3),
            };
            ops.push(Op::Pop(d));
            let ready = cur_len.saturating_sub(d);
            shadow.drain(0..ready);
        }
    }
    ops
}

fn main() {
    let mut ctx = Ctx::from_args("C26");
    if let Some(p) = ctx.replay.clone() {
        let v: Value = serde_json::from_slice(&std::fs::read(p).unwrap()).unwrap();
        let alpha: Vec<Point> = v["replay"]["alphabet"].as_array().unwrap().iter().map(pt_from).collect();
        let ops = ops_from(&v["replay"]["ops"]);
        let o = run_seq(&mut ctx, &alpha, &ops);
        println!("replayed {} ops: failed={} violations={}", ops.len(), o.failed, ctx.n_violations());
        ctx.finish();
    }
    // the five unit-test scenarios, as a sanity anchor for the model
    {
        let alpha: Vec<Point> = (0..7u64).map(|i| Point::Specific(i, i.to_le_bytes().to_vec())).collect();
        let fill = |n: usize| (0..n).map(Op::Fwd).collect::<Vec<_>>();
        for (mut ops, tail) in [(fill(5), Op::Pop(2)), (fill(6), Op::Pop(10)), (fill(6), Op::Back(2)), (fill(6), Op::Back(6)), (fill(3), Op::Pop(0))] {
            ops.push(tail);
            run_seq(&mut ctx, &alpha, &ops);
            ctx.count("unit_scenarios");
        }
    }
    let n = ctx.budget(40_000, 1_000_000);
    for i in 0..n {
        let k = 3 + ctx.rng.usize_below(6); // 3..8 points
        let with_origin = ctx.rng.chance(1, 3);
        let mut rng = ctx.rng.clone();
        let alpha = alphabet(&mut rng, k, with_origin);
        let len = match rng.below(4) {
            0 => 1 + rng.usize_below(20),
            1 => 200,
            _ => 1 + rng.usize_below(200),
        };
        let ops = gen_ops(&mut rng, k, len);
        ctx.rng = rng;
        let o = run_seq(&mut ctx, &alpha, &ops);
        ctx.count("sequences");
        ctx.add("ops", ops.len() as u64);
        ctx.add("rollback_hits", o.hit);
        ctx.add("rollback_misses", o.miss);
        ctx.add("rollback_hits_on_duplicated_point", o.dup_rollback);
        ctx.add("pops_returning_points", o.pop_nonempty);
        ctx.max("max_buffer_len", o.max_len as u64);
        ctx.max("max_sequence_len", ops.len() as u64);
        if !o.failed && o.hit > 0 && o.miss > 0 && o.pop_nonempty > 0 {
            ctx.nontrivial(fp(format!("{:?}{:?}", alpha, ops).as_bytes()));
            ctx.count("sequences_with_hit_miss_and_pop");
        }
        if i < 2 && ctx.want_sample() {
            ctx.sample(json!({"alphabet_size": k, "ops": ops.len(), "hits": o.hit, "misses": o.miss, "pops_nonempty": o.pop_nonempty, "first_ops": format!("{:?}", &ops[..ops.len().min(12)])}));
        }
    }
    ctx.finish();
}
