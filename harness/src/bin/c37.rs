//! C37 — accepted script transactions respect the execution-unit budget.
//!
//! Oracle (own): redeemers are read from the witness set with the own CBOR walker (list form
//! `[[tag, ix, data, [mem, steps]]..]` or map form `{[tag, ix]: [data, [mem, steps]]}`), mem and steps are
//! summed in u128 and compared with `max_tx_ex_units` of the environment. Accepted + over budget = violation.
//!
//! Workload: the 9 Plutus fixtures (re-keyed) in up to four shapes — as is; with a second script input
//! (clone of the script-locked UTxO, so that two redeemers exist and budgets can be split); with the reference
//! script moved into the witness set; both — and two modes: limits moved in the environment (no byte changes),
//! budgets rewritten in the redeemers (script integrity hash recomputed by the harness, re-signed), in list and
//! (Conway) map encodings. A case counts only if the same bytes are accepted with the limits lifted to u64::MAX,
//! so nothing but the budget rule decides.
use pallas_traverse::Era;
use pv::cbor::Node;
use pv::fixtures::*;
use pv::*;

#[derive(Clone, Debug)]
struct Red {
    tag: u64,
    index: u64,
    data: Node,
    mem: u64,
    steps: u64,
}

fn parse_redeemers(n: &Node) -> Option<(Vec<Red>, bool)> {
    let ex = |n: &Node| -> Option<(u64, u64)> {
        let xs = elems(n)?;
        Some((node_u64(xs.first()?)?, node_u64(xs.get(1)?)?))
    };
    match n {
        Node::Array(xs, _) | Node::ArrayIndef(xs) => {
            let mut v = vec![];
            for r in xs {
                let f = elems(r)?;
                if f.len() != 4 {
                    return None;
                }
                let (mem, steps) = ex(&f[3])?;
                v.push(Red { tag: node_u64(&f[0])?, index: node_u64(&f[1])?, data: f[2].clone(), mem, steps });
            }
            Some((v, false))
        }
        Node::Map(xs, _) | Node::MapIndef(xs) => {
            let mut v = vec![];
            for (k, val) in xs {
                let kk = elems(k)?;
                let vv = elems(val)?;
                if kk.len() != 2 || vv.len() != 2 {
                    return None;
                }
                let (mem, steps) = ex(&vv[1])?;
                v.push(Red { tag: node_u64(&kk[0])?, index: node_u64(&kk[1])?, data: vv[0].clone(), mem, steps });
            }
            Some((v, true))
        }
        _ => None,
    }
}

fn encode_redeemers(rs: &[Red], as_map: bool) -> Node {
    if as_map {
        let mut es: Vec<(Node, Node)> = rs
            .iter()
            .map(|r| (Node::arr(vec![Node::u(r.tag), Node::u(r.index)]), Node::arr(vec![r.data.clone(), Node::arr(vec![Node::u(r.mem), Node::u(r.steps)])])))
            .collect();
        es.sort_by(|a, b| a.0.to_vec().cmp(&b.0.to_vec()));
        Node::map(es)
    } else {
        Node::arr(rs.iter().map(|r| Node::arr(vec![Node::u(r.tag), Node::u(r.index), r.data.clone(), Node::arr(vec![Node::u(r.mem), Node::u(r.steps)])])).collect())
    }
}

fn sums(rs: &[Red]) -> (u128, u128) {
    (rs.iter().map(|r| r.mem as u128).sum(), rs.iter().map(|r| r.steps as u128).sum())
}

/// the same transaction with the phase-2 validity flag set to false (the flag is outside the signed body);
/// the budget rule applies whatever the flag says
fn flag_false(tx: &[u8]) -> Option<Vec<u8>> {
    let it = pv::cbor::parse(tx).ok()?;
    if it.major == 4 && it.children.len() == 4 && it.children[2].major == 7 && tx[it.children[2].start] == 0xf5 {
        let mut t = tx.to_vec();
        t[it.children[2].start] = 0xf4;
        Some(t)
    } else {
        None
    }
}

fn era_group(e: Era) -> &'static str {
    match e {
        Era::Alonzo => "alonzo",
        Era::Babbage => "babbage",
        _ => "conway",
    }
}

/// shape of a fixture: (fixture with possibly edited utxo, tx bytes, label)
struct Shape {
    f: Fixture,
    tx: Vec<u8>,
    label: String,
    /// environment whose cost models reproduce the fixture's on-chain script integrity hash
    views: EnvSpec,
}

fn has_witness_scripts(tx: &[u8]) -> bool {
    [3u64, 6, 7].iter().any(|k| wits_get(tx, *k).and_then(|n| elems(&n).map(|x| !x.is_empty())).unwrap_or(false))
}

/// recompute the script integrity hash (own computation) and re-sign
fn finalize(f: &Fixture, views: &EnvSpec, tx: &[u8]) -> Option<Vec<u8>> {
    let h = script_data_hash_in(f, views, tx)?;
    Some(f.resign(&body_set(tx, 11, Some(Node::bytes(&h)))))
}

/// Environment whose cost models reproduce the on-chain script integrity hash of the fixture: its own, or (pallas'
/// Babbage validator ignores the parameter table and uses built-in language views) the table of another fixture.
fn views_env(f: &Fixture, all: &[Fixture]) -> EnvSpec {
    let want = body_get(&f.tx_bytes, 11).and_then(|n| node_bytes(&n));
    let mut cands = vec![f.env.clone()];
    for g in all {
        if g.era == f.era && g.plutus {
            cands.push(g.env.clone());
        }
    }
    for e in cands {
        if script_data_hash_in(f, &e, &f.tx_bytes).map(|h| h.to_vec()) == want {
            return e;
        }
    }
    f.env.clone()
}

fn script_data_hash_in(f: &Fixture, e: &EnvSpec, tx: &[u8]) -> Option<[u8; 32]> {
    let mut g = f.clone();
    g.env = e.clone();
    script_data_hash_for(&g, tx)
}

fn sorted_inputs(tx: &[u8]) -> Vec<([u8; 32], u64)> {
    let mut v = body_inputs(tx, 0);
    v.sort();
    v.dedup();
    v
}

/// add a second input locked by the same script as the first spend redeemer's input, with its own redeemer
fn clone_script_input(s: &Shape) -> Option<Shape> {
    let (mut reds, as_map) = parse_redeemers(&redeemers(&s.tx)?)?;
    let src = reds.iter().find(|r| r.tag == 0)?.clone();
    let old_sorted = sorted_inputs(&s.tx);
    let target = *old_sorted.get(src.index as usize)?;
    let entry = s.f.utxo.iter().rev().find(|e| (e.tx_hash, e.index) == target)?.clone();
    let mut ne = entry.clone();
    ne.role = Role::Input;
    ne.tx_hash = pv::refhash::blake2b_256(&[b"pv-c37-clone:", s.f.name.as_bytes()].concat());
    ne.index = 0;
    ne.out.assets.clear();
    ne.out.coin = 5_000_000;
    let mut f = s.f.clone();
    f.env.set_minfee(0, 0); // the edited transaction is larger than its fee pays for; the fee rule is not under test
    f.utxo.push(ne.clone());
    // body: inputs + 1, largest output + coin
    let mut ins = body_get(&s.tx, 0)?;
    elems_mut(&mut ins)?.push(Node::arr(vec![Node::bytes(&ne.tx_hash), Node::u(0)]));
    let mut tx = body_set(&s.tx, 0, Some(ins));
    let n = output_count(&tx);
    let oi = (0..n).max_by_key(|i| output_coin(&tx, *i))?;
    tx = set_output_coin(&tx, oi, output_coin(&tx, oi) + ne.out.coin);
    // redeemer indices follow the sorted input set
    let new_sorted = sorted_inputs(&tx);
    for r in reds.iter_mut().filter(|r| r.tag == 0) {
        let inp = *old_sorted.get(r.index as usize)?;
        r.index = new_sorted.iter().position(|x| *x == inp)? as u64;
    }
    let ni = new_sorted.iter().position(|x| *x == (ne.tx_hash, 0))? as u64;
    reds.push(Red { tag: 0, index: ni, data: src.data.clone(), mem: 0, steps: 0 });
    tx = set_redeemers(&tx, encode_redeemers(&reds, as_map));
    let tx = finalize(&f, &s.views, &tx)?;
    Some(Shape { f, tx, label: format!("{}+cloned-input", s.label), views: s.views.clone() })
}

/// move the Plutus reference script of the (single) reference input into the witness set
fn script_to_witness(s: &Shape) -> Option<Shape> {
    let refs: Vec<&UtxoEntry> = s.f.utxo.iter().filter(|e| e.role == Role::Reference).collect();
    if refs.len() != 1 {
        return None;
    }
    let (lang, script) = refs[0].out.script_ref.clone()?;
    let key = match lang {
        1 => 3,
        2 => 6,
        3 => 7,
        _ => return None,
    };
    let mut f = s.f.clone();
    f.env.set_minfee(0, 0); // see clone_script_input
    f.utxo.retain(|e| e.role != Role::Reference);
    let tx = body_set(&s.tx, 18, None);
    // With a Plutus script in the witness set the collateral rules are enforced (they are skipped for reference
    // scripts), and the collateral rows of the Conway test tables do not satisfy them: use a fresh key-locked
    // collateral UTxO at the address of the existing one, without collateral return / total collateral.
    let old_coll = f.utxo.iter().find(|e| e.role == Role::Collateral)?.clone();
    // the table row of the old collateral may shadow an input row with the same TxIn (conway4): keep the effective value
    for e in f.utxo.iter_mut() {
        if e.role == Role::Input && (e.tx_hash, e.index) == (old_coll.tx_hash, old_coll.index) {
            e.out = old_coll.out.clone();
        }
    }
    f.utxo.retain(|e| e.role != Role::Collateral);
    let ch = pv::refhash::blake2b_256(&[b"pv-c37-collateral:", s.f.name.as_bytes()].concat());
    f.utxo.push(UtxoEntry { role: Role::Collateral, tx_hash: ch, index: 0, out: Out { address: old_coll.out.address.clone(), coin: 20 * fee(&tx) + 5_000_000, assets: vec![], datum: Datum::None, script_ref: None } });
    let mut coll = body_get(&tx, 13)?;
    *elems_mut(&mut coll)? = vec![Node::arr(vec![Node::bytes(&ch), Node::u(0)])];
    let tx = body_set(&body_set(&body_set(&tx, 13, Some(coll)), 16, None), 17, None);
    let mut list = wits_get(&tx, key).unwrap_or(Node::arr(vec![]));
    elems_mut(&mut list)?.push(Node::bytes(&script));
    let tx = wits_set(&tx, key, Some(list));
    let tx = finalize(&f, &s.views, &tx)?;
    Some(Shape { f, tx, label: format!("{}+script-in-witness", s.label), views: s.views.clone() })
}

struct Run<'a> {
    shape: &'a Shape,
    tx: Vec<u8>,
    reds: Vec<Red>,
    as_map: bool,
    mode: &'static str,
}

fn judge(ctx: &mut Ctx, r: &Run, limits: (u64, u64), cls: &str) {
    let f = &r.shape.f;
    let (sm, ss) = sums(&r.reds);
    let over_mem = sm > limits.0 as u128;
    let over_steps = ss > limits.1 as u128;
    let over = over_mem || over_steps;
    let wraps = sm > u64::MAX as u128 || ss > u64::MAX as u128;
    let mut env = f.env.clone();
    env.set_max_ex_units(limits.0, limits.1);
    let v = f.validate_with(&r.tx, &f.utxo, &env);
    ctx.eval();
    let grp = era_group(f.era);
    let scripts = if has_witness_scripts(&r.tx) { "witness" } else { "reference" };
    let enc = if r.as_map { "map" } else { "list" };
    let replay = json!({"fixture": f.name, "shape": r.shape.label, "mode": r.mode, "tx": hexs(&r.tx), "limits": [limits.0.to_string(), limits.1.to_string()], "utxo_extra": f.utxo.len()});
    ctx.count(&format!("judged_{grp}_{enc}_{scripts}"));
    if over {
        ctx.count("over_budget_cases");
        ctx.nontrivial(fp_mix(fp(f.name.as_bytes()), fp_mix(fp(r.shape.label.as_bytes()), fp_mix(fp(&r.tx), limits.0 ^ limits.1.rotate_left(17)))));
    } else if sm == limits.0 as u128 || ss == limits.1 as u128 {
        ctx.count("at_limit_cases");
        ctx.nontrivial(fp_mix(fp(f.name.as_bytes()), fp_mix(fp(r.shape.label.as_bytes()), fp_mix(fp(&r.tx), limits.0 ^ limits.1.rotate_left(17) ^ 1))));
    }
    match &v {
        Verdict::Panicked(p) => {
            ctx.violation(
                &format!("panic:validate_tx:{}", p.site()),
                &format!("{} [{}, {}]: validate_tx panicked ({}) with redeemer budgets mem={:?} steps={:?}, limits {:?}", f.name, r.shape.label, r.mode, p.msg, r.reds.iter().map(|x| x.mem).collect::<Vec<_>>(), r.reds.iter().map(|x| x.steps).collect::<Vec<_>>(), limits),
                replay,
            );
        }
        Verdict::Undecodable(e) => ctx.inconclusive(&format!("harness-built transaction does not decode: {e}")),
        Verdict::Accepted => {
            ctx.count(if over { "accepted_over_budget" } else { "accepted_within_budget" });
            if !over && (sm == limits.0 as u128 || ss == limits.1 as u128) {
                ctx.count("accepted_at_limit");
            }
            if over {
                let which = match (over_mem, over_steps) {
                    (true, true) => "mem and steps",
                    (true, false) => "mem",
                    _ => "steps",
                };
                // differential diagnosis for sums >= 2^64: is the u64 wrap-around needed for the acceptance? The sibling has the
                // same bytes except that the wrapping dimension(s) are set to limit+1 (over budget without any overflow).
                let mut wrap_needed = false;
                if wraps {
                    let mut sib = r.reds.clone();
                    for (i, x) in sib.iter_mut().enumerate() {
                        if sm > u64::MAX as u128 {
                            x.mem = if i == 0 { limits.0.saturating_add(1) } else { 0 };
                        }
                        if ss > u64::MAX as u128 {
                            x.steps = if i == 0 { limits.1.saturating_add(1) } else { 0 };
                        }
                    }
                    if let Some(t) = finalize(f, &r.shape.views, &set_redeemers(&r.tx, encode_redeemers(&sib, r.as_map))) {
                        wrap_needed = !f.validate_with(&t, &f.utxo, &env).accepted();
                        ctx.eval();
                    }
                }
                ctx.violation(
                    &format!("C37:accepted-over-budget:era={grp}:scripts={scripts}:enc={enc}{}", if wrap_needed { ":only-when-sum-wraps-u64" } else { "" }),
                    &format!(
                        "{} [{}, {}{}]: accepted although the redeemers' {which} exceed max_tx_ex_units: sum mem={sm} (limit {}), sum steps={ss} (limit {}); per redeemer mem={:?} steps={:?}; {} redeemer encoding, Plutus script in {}",
                        f.name,
                        r.shape.label,
                        r.mode,
                        cls,
                        limits.0,
                        limits.1,
                        r.reds.iter().map(|x| x.mem).collect::<Vec<_>>(),
                        r.reds.iter().map(|x| x.steps).collect::<Vec<_>>(),
                        enc,
                        if scripts == "witness" { "the witness set" } else { "a reference input" }
                    ),
                    replay,
                );
            }
        }
        Verdict::Rejected(e) => {
            if over {
                ctx.count(if e.contains("TxExUnitsExceeded") { "rejected_over_budget_by_rule" } else { "rejected_over_budget_other" });
                if !e.contains("TxExUnitsExceeded") {
                    ctx.set_insert("over_budget_rejected_by_other_rule", &format!("{} [{}]: {e}", f.name, r.shape.label));
                }
            } else {
                // within budget but rejected: not what C37 forbids; recorded, and visible through `accepted_at_limit`
                ctx.count("rejected_within_budget");
                ctx.set_insert("within_budget_rejected", &format!("{} [{}] {}: {e}", f.name, r.shape.label, r.mode));
            }
        }
    }
}

/// the transaction must be acceptable with the budget rule out of the way; returns false otherwise
fn usable(ctx: &mut Ctx, r: &Run) -> bool {
    let f = &r.shape.f;
    let (sm, ss) = sums(&r.reds);
    if sm > u64::MAX as u128 || ss > u64::MAX as u128 {
        // cannot be neutralised by limits; usability is established by the sibling case with the same bytes but small budgets
        return true;
    }
    let mut env = f.env.clone();
    env.set_max_ex_units(u64::MAX, u64::MAX);
    let v = f.validate_with(&r.tx, &f.utxo, &env);
    ctx.eval();
    if v.accepted() {
        ctx.count("usable_cases");
        true
    } else {
        ctx.count("unusable_cases");
        ctx.set_insert("unusable", &format!("{} [{}] {}: {}", f.name, r.shape.label, r.mode, v.label()));
        if let Verdict::Panicked(p) = &v {
            ctx.violation(&format!("panic:validate_tx:{}", p.site()), &format!("{}: validate_tx panicked with limits lifted: {}", f.name, p.msg), json!({"fixture": f.name, "shape": r.shape.label, "tx": hexs(&r.tx)}));
        }
        false
    }
}

fn limits_mode(ctx: &mut Ctx, s: &Shape) {
    let Some((reds, as_map)) = redeemers(&s.tx).and_then(|n| parse_redeemers(&n)) else { return };
    let (sm, ss) = sums(&reds);
    let (m, st) = (sm as u64, ss as u64);
    let r = Run { shape: s, tx: s.tx.clone(), reds, as_map, mode: "limits-moved" };
    if !usable(ctx, &r) {
        return;
    }
    let mut lims = vec![(m, st), (m.saturating_sub(1), st), (m, st.saturating_sub(1)), (m.saturating_sub(1), st.saturating_sub(1)), (m / 2, u64::MAX), (u64::MAX, st / 2), (0, 0), (m + 1, st + 1)];
    for _ in 0..4 {
        let a = ctx.rng.range(0, m.saturating_mul(2));
        let b = ctx.rng.range(0, st.saturating_mul(2));
        lims.push((a, b));
    }
    for l in &lims {
        judge(ctx, &r, *l, "");
    }
    // the same limits against the transaction with the validity flag false
    if let Some(t2) = flag_false(&s.tx) {
        let r2 = Run { shape: s, tx: t2, reds: r.reds.clone(), as_map, mode: "limits-moved+valid=false" };
        if usable(ctx, &r2) {
            ctx.count("cases_with_validity_flag_false");
            for l in &lims {
                judge(ctx, &r2, *l, "");
            }
        }
    }
}

fn split(rng: &mut Rng, total: u128, n: usize) -> Vec<u64> {
    // parts are u64; total may exceed u64 (then at least two parts are needed)
    if n == 1 {
        return vec![total.min(u64::MAX as u128) as u64];
    }
    let first_max = total.min(u64::MAX as u128) as u64;
    let first_min = total.saturating_sub(u64::MAX as u128) as u64;
    let a = match rng.below(5) {
        0 => first_min,
        1 => first_max,
        2 => (total / 2).min(u64::MAX as u128) as u64,
        _ => rng.range(first_min, first_max),
    };
    let mut v = vec![a, (total - a as u128).min(u64::MAX as u128) as u64];
    for _ in 2..n {
        v.push(0);
    }
    if rng.bool() {
        v.swap(0, 1);
    }
    v
}

fn budgets_mode(ctx: &mut Ctx, s: &Shape, exhaustive_targets: bool) {
    let f = &s.f;
    let Some((lm, ls)) = f.env.max_ex_units() else { return };
    let Some((reds0, as_map0)) = redeemers(&s.tx).and_then(|n| parse_redeemers(&n)) else { return };
    let n = reds0.len();
    let (om, os) = sums(&reds0);
    let mem_targets: Vec<u128> = vec![om, lm as u128 - 1, lm as u128, lm as u128 + 1, 2 * lm as u128, u64::MAX as u128, if n > 1 { 1u128 << 64 } else { u64::MAX as u128 - 1 }, if n > 1 { (1u128 << 64) + lm as u128 } else { lm as u128 / 2 }];
    let step_targets: Vec<u128> = vec![os, ls as u128 - 1, ls as u128, ls as u128 + 1, 2 * ls as u128, u64::MAX as u128, if n > 1 { 1u128 << 64 } else { u64::MAX as u128 - 1 }, if n > 1 { (1u128 << 64) + ls as u128 } else { ls as u128 / 2 }];
    let encs: Vec<bool> = if f.era == Era::Conway { vec![false, true] } else { vec![false] };
    let mut combos: Vec<(u128, u128)> = vec![];
    if exhaustive_targets {
        for (i, mt) in mem_targets.iter().enumerate() {
            for (j, stt) in step_targets.iter().enumerate() {
                if i == 0 && j == 0 {
                    continue;
                }
                // every single-dimension change, plus the diagonal
                if i == 0 || j == 0 || i == j {
                    combos.push((*mt, *stt));
                }
            }
        }
    } else {
        for _ in 0..3 {
            let mt = match ctx.rng.below(3) {
                0 => *ctx.rng.pick(&mem_targets),
                1 => ctx.rng.range(0, 3 * lm) as u128,
                _ => (lm as i128 + ctx.rng.irange(-3, 3) as i128).max(0) as u128,
            };
            let stt = match ctx.rng.below(3) {
                0 => *ctx.rng.pick(&step_targets),
                1 => ctx.rng.range(0, 3 * ls) as u128,
                _ => (ls as i128 + ctx.rng.irange(-3, 3) as i128).max(0) as u128,
            };
            combos.push((mt, stt));
        }
    }
    // third form: list encoding in which one pointer occurs twice (the list carries what it carries:
    // the budget is the sum over the redeemers of the transaction)
    let mut forms: Vec<(bool, bool)> = encs.iter().map(|m| (*m, false)).collect();
    forms.push((false, true));
    for (mt, stt) in combos {
        for &(as_map, dup) in &forms {
            let mut reds = reds0.clone();
            if dup {
                let k = ctx.rng.usize_below(reds.len());
                let d = reds[k].clone();
                reds.insert(k + 1, d);
            }
            let n = reds.len();
            let mp = split(&mut ctx.rng, mt, n);
            let sp = split(&mut ctx.rng, stt, n);
            for (i, r) in reds.iter_mut().enumerate() {
                r.mem = mp[i];
                r.steps = sp[i];
            }
            let t = set_redeemers(&s.tx, encode_redeemers(&reds, as_map));
            let Some(mut t) = finalize(f, &s.views, &t) else {
                ctx.count("no_integrity_hash");
                continue;
            };
            if ctx.rng.chance(1, 3) {
                if let Some(t2) = flag_false(&t) {
                    t = t2;
                    ctx.count("cases_with_validity_flag_false");
                }
            }
            let r = Run { shape: s, tx: t, reds, as_map, mode: if dup { "budgets-rewritten+duplicate-pointer" } else if as_map == as_map0 { "budgets-rewritten" } else { "budgets-rewritten+encoding-converted" } };
            if dup {
                ctx.count("duplicate_pointer_cases");
            }
            if !usable(ctx, &r) {
                continue;
            }
            judge(ctx, &r, (lm, ls), "");
            ctx.count("budget_rewrites");
            if ctx.want_sample() {
                ctx.sample(json!({"fixture": f.name, "shape": s.label, "encoding": if as_map {"map"} else {"list"}, "mem": r.reds.iter().map(|x| x.mem.to_string()).collect::<Vec<_>>(), "steps": r.reds.iter().map(|x| x.steps.to_string()).collect::<Vec<_>>(), "limits": [lm, ls]}));
            }
        }
    }
}

fn shapes(f: &Fixture, all: &[Fixture]) -> Vec<Shape> {
    let base = Shape { f: f.clone(), tx: f.tx_bytes.clone(), label: "as-is".into(), views: views_env(f, all) };
    let mut v = vec![];
    if let Some(c) = clone_script_input(&base) {
        v.push(c);
    }
    if let Some(w) = script_to_witness(&base) {
        if let Some(c) = clone_script_input(&w) {
            v.push(c);
        }
        v.push(w);
    }
    v.insert(0, base);
    v
}

fn main() {
    let mut ctx = Ctx::from_args("C37");
    let fixtures: Vec<Fixture> = usable_rekeyed().into_iter().filter(|f| f.plutus).collect();
    let mut all_shapes: Vec<Shape> = vec![];
    for f in &fixtures {
        all_shapes.extend(shapes(f, &fixtures));
    }
    if let Some(p) = ctx.replay.clone() {
        let v: serde_json::Value = serde_json::from_slice(&std::fs::read(p).unwrap()).unwrap();
        let r = &v["replay"];
        let s = all_shapes.iter().find(|s| s.f.name == r["fixture"].as_str().unwrap_or("") && s.label == r["shape"].as_str().unwrap_or("")).expect("shape");
        let tx = hex::decode(r["tx"].as_str().unwrap()).unwrap();
        let (reds, as_map) = parse_redeemers(&redeemers(&tx).unwrap()).unwrap();
        let lim = (r["limits"][0].as_str().unwrap().parse().unwrap(), r["limits"][1].as_str().unwrap().parse().unwrap());
        let run = Run { shape: s, tx, reds, as_map, mode: "replay" };
        judge(&mut ctx, &run, lim, "");
        println!("replayed {} [{}]: sums={:?} limits={:?} violations={}", s.f.name, s.label, sums(&run.reds), lim, ctx.n_violations());
        ctx.finish();
    }
    ctx.add("plutus_fixtures", 0);
    for (i, s) in all_shapes.iter().enumerate() {
        ctx.set_insert("shapes", &format!("{} [{}] redeemers={} scripts={}", s.f.name, s.label, redeemers(&s.tx).and_then(|n| parse_redeemers(&n)).map(|x| x.0.len()).unwrap_or(0), if has_witness_scripts(&s.tx) { "witness" } else { "reference" }));
        if !ctx.owns(i as u64) {
            continue;
        }
        // the shape itself must be acceptable
        let v = s.f.validate_with(&s.tx, &s.f.utxo, &s.f.env);
        ctx.eval();
        if !v.accepted() {
            ctx.count("shape_not_accepted");
            ctx.set_insert("shape_not_accepted", &format!("{} [{}]: {}", s.f.name, s.label, v.label()));
            continue;
        }
        ctx.count("shapes_accepted");
        limits_mode(&mut ctx, s);
        budgets_mode(&mut ctx, s, true);
    }
    ctx.note("target_grid_complete", json!(true));
    let n = ctx.budget(700, 35_000);
    for _ in 0..n {
        let s = &all_shapes[ctx.rng.usize_below(all_shapes.len())];
        if ctx.rng.chance(1, 3) {
            limits_mode(&mut ctx, s);
        } else {
            budgets_mode(&mut ctx, s, false);
        }
        ctx.count("random_rounds");
    }
    ctx.finish();
}
