//! C24 — pallas-network2 protocol state machines (`State::apply`) implement the specification.
//!
//! Oracle: `pv::specs` tables (written from the Ouroboros network specification, DESIGN.md
//! Appendix B). The transition relation is finite, so it is *executed completely*:
//!   part 1: every (pallas state variant incl. data sub-variants, message variant) pair of the eight
//!           protocols, the state constructed directly, payloads random per visit;
//!   part 2: every message sequence of length <= 8 from the initial state, modulo the equivalence
//!           "a rejected message leaves the state unchanged" (apply is `&self -> Result<State>`):
//!           all spec-legal prefixes of length <= 7, each followed by every message variant.
//! Checked per apply: Ok/Err agrees with the spec; class of the next state = spec next state; data
//! of the message is carried in the next state where the state has a slot for it; no panic.
//! Signature: `C24:<proto>:state=<S>:msg=<M>:expect=<..>:got=<..>` (S, M = spec names).
use pallas_network2::protocol as proto;
use pv::specs::{self, Proto, Spec};
use pv::*;
use std::collections::HashMap;

/// One protocol of the P2P stack seen through a uniform lens.
trait P2 {
    const PROTO: Proto;
    type State: std::fmt::Debug + Clone;
    type Msg: std::fmt::Debug + Clone;
    /// labels of all pallas state variants (data sub-variants included)
    fn state_variants() -> Vec<&'static str>;
    fn make_state(variant: &str, rng: &mut Rng) -> Self::State;
    /// labels of all message variants; `kind_of` maps a label to the spec message kind
    fn msg_variants() -> Vec<&'static str>;
    fn kind_of(variant: &str) -> &'static str;
    fn make_msg(variant: &str, rng: &mut Rng) -> Self::Msg;
    /// spec state name of a pallas state (carried data discarded)
    fn class(s: &Self::State) -> &'static str;
    fn initial() -> Self::State;
    fn apply(s: &Self::State, m: &Self::Msg) -> Result<Self::State, String>;
    /// data of `m` must be found in `next` where the variant of `next` has a slot for it
    fn carried(prev: &Self::State, m: &Self::Msg, next: &Self::State) -> bool;
    /// structural equality of states (not all payload types implement PartialEq)
    fn same(a: &Self::State, b: &Self::State) -> bool {
        format!("{a:?}") == format!("{b:?}")
    }
}

// ---------------------------------------------------------------------------------------
// payload generators
// ---------------------------------------------------------------------------------------
fn g_point(rng: &mut Rng) -> proto::Point {
    if rng.chance(1, 6) {
        proto::Point::Origin
    } else {
        let n = *rng.pick(&[0usize, 1, 28, 32, 32, 32, 33]);
        proto::Point::Specific(rng.edgy_u64(), rng.bytes(n))
    }
}
fn g_points(rng: &mut Rng) -> Vec<proto::Point> {
    (0..rng.below(5)).map(|_| g_point(rng)).collect()
}
fn g_tip(rng: &mut Rng) -> proto::chainsync::Tip {
    proto::chainsync::Tip(g_point(rng), rng.edgy_u64())
}
fn g_blob(rng: &mut Rng) -> Vec<u8> {
    let n = match rng.below(8) {
        0 => 0,
        1 => 1,
        2 => 70_000,
        _ => rng.usize_below(300),
    };
    rng.bytes(n)
}
fn g_header(rng: &mut Rng) -> proto::chainsync::HeaderContent {
    let variant = rng.below(8) as u8;
    proto::chainsync::HeaderContent { variant, byron_prefix: if variant == 0 { Some((rng.next_u8(), rng.edgy_u64())) } else { None }, cbor: g_blob(rng) }
}
fn g_vdata(rng: &mut Rng) -> proto::handshake::n2n::VersionData {
    let ext = rng.bool();
    proto::handshake::n2n::VersionData::new(rng.edgy_u64(), rng.bool(), if ext { Some(rng.below(3) as u8) } else { None }, if ext { Some(rng.bool()) } else { None })
}
fn g_vtable(rng: &mut Rng) -> proto::handshake::VersionTable<proto::handshake::n2n::VersionData> {
    let mut values = HashMap::new();
    for _ in 0..rng.below(6) {
        values.insert(rng.below(20), g_vdata(rng));
    }
    proto::handshake::VersionTable { values }
}
fn g_refuse(which: u64, rng: &mut Rng) -> proto::handshake::RefuseReason {
    use proto::handshake::RefuseReason as R;
    match which {
        0 => R::VersionMismatch((0..rng.below(5)).map(|_| rng.below(30)).collect()),
        1 => R::HandshakeDecodeError(rng.below(30), cbor::gen_text(rng, 12)),
        _ => R::Refused(rng.below(30), cbor::gen_text(rng, 12)),
    }
}
fn g_peers(rng: &mut Rng) -> Vec<proto::peersharing::PeerAddress> {
    use proto::peersharing::PeerAddress as A;
    (0..rng.below(5))
        .map(|_| if rng.bool() { A::V4(std::net::Ipv4Addr::from(rng.next_u32()), rng.next_u32() as u16) } else { A::V6(std::net::Ipv6Addr::from(rng.array::<16>()), rng.next_u32() as u16) })
        .collect()
}
fn g_txid(rng: &mut Rng) -> proto::txsubmission::EraTxId {
    proto::txsubmission::EraTxId(rng.below(8) as u16, rng.bytes(32))
}
fn g_txbodies(rng: &mut Rng) -> Vec<proto::txsubmission::EraTxBody> {
    (0..rng.below(4)).map(|_| proto::txsubmission::EraTxBody(rng.below(8) as u16, g_blob(rng))).collect()
}
fn g_anycbor(rng: &mut Rng) -> proto::AnyCbor {
    proto::AnyCbor::from_raw_bytes(cbor::gen_node(rng, 2).to_vec())
}
fn g_bitmaps(rng: &mut Rng) -> proto::leiosfetch::Bitmaps {
    let mut m = std::collections::BTreeMap::new();
    for _ in 0..rng.below(4) {
        m.insert(rng.below(70) as u16, rng.edgy_u64());
    }
    proto::leiosfetch::Bitmaps(m)
}

// ---------------------------------------------------------------------------------------
// the eight protocols
// ---------------------------------------------------------------------------------------
struct Hs;
type VD = proto::handshake::n2n::VersionData;
impl P2 for Hs {
    fn same(a: &Self::State, b: &Self::State) -> bool {
        a == b
    }
    const PROTO: Proto = Proto::Handshake;
    type State = proto::handshake::State<VD>;
    type Msg = proto::handshake::Message<VD>;
    fn state_variants() -> Vec<&'static str> {
        vec!["Propose", "Confirm", "Done(Accepted)", "Done(Rejected)", "Done(QueryReply)"]
    }
    fn make_state(v: &str, rng: &mut Rng) -> Self::State {
        use proto::handshake::{DoneState as D, State as S};
        match v {
            "Propose" => S::Propose,
            "Confirm" => S::Confirm(g_vtable(rng)),
            "Done(Accepted)" => S::Done(D::Accepted(rng.below(20), g_vdata(rng))),
            "Done(Rejected)" => S::Done(D::Rejected(g_refuse(rng.below(3), rng))),
            _ => S::Done(D::QueryReply(g_vtable(rng))),
        }
    }
    fn msg_variants() -> Vec<&'static str> {
        vec!["Propose", "Accept", "Refuse:VersionMismatch", "Refuse:HandshakeDecodeError", "Refuse:Refused", "QueryReply"]
    }
    fn kind_of(v: &str) -> &'static str {
        match v {
            "Propose" => "Propose",
            "Accept" => "Accept",
            "QueryReply" => "QueryReply",
            _ => "Refuse",
        }
    }
    fn make_msg(v: &str, rng: &mut Rng) -> Self::Msg {
        use proto::handshake::Message as M;
        match v {
            "Propose" => M::Propose(g_vtable(rng)),
            "Accept" => M::Accept(rng.below(20), g_vdata(rng)),
            "Refuse:VersionMismatch" => M::Refuse(g_refuse(0, rng)),
            "Refuse:HandshakeDecodeError" => M::Refuse(g_refuse(1, rng)),
            "Refuse:Refused" => M::Refuse(g_refuse(2, rng)),
            _ => M::QueryReply(g_vtable(rng)),
        }
    }
    fn class(s: &Self::State) -> &'static str {
        use proto::handshake::State as S;
        match s {
            S::Propose => "Propose",
            S::Confirm(_) => "Confirm",
            S::Done(_) => "Done",
        }
    }
    fn initial() -> Self::State {
        Default::default()
    }
    fn apply(s: &Self::State, m: &Self::Msg) -> Result<Self::State, String> {
        s.apply(m).map_err(|e| format!("{e:?}"))
    }
    fn carried(_p: &Self::State, m: &Self::Msg, n: &Self::State) -> bool {
        use proto::handshake::{DoneState as D, Message as M, State as S};
        match (m, n) {
            (M::Propose(t), S::Confirm(u)) => t == u,
            (M::Accept(v, d), S::Done(D::Accepted(w, e))) => v == w && d == e,
            (M::Refuse(r), S::Done(D::Rejected(q))) => r == q,
            (M::QueryReply(t), S::Done(D::QueryReply(u))) => t == u,
            (_, S::Done(_)) | (_, S::Confirm(_)) => false,
            _ => true,
        }
    }
}

struct Ka;
impl P2 for Ka {
    fn same(a: &Self::State, b: &Self::State) -> bool {
        a == b
    }
    const PROTO: Proto = Proto::KeepAlive;
    type State = proto::keepalive::State;
    type Msg = proto::keepalive::Message;
    fn state_variants() -> Vec<&'static str> {
        vec!["Client(Empty)", "Client(Response)", "Server", "Done"]
    }
    fn make_state(v: &str, rng: &mut Rng) -> Self::State {
        use proto::keepalive::{ClientState as C, State as S};
        match v {
            "Client(Empty)" => S::Client(C::Empty),
            "Client(Response)" => S::Client(C::Response(rng.next_u32() as u16)),
            "Server" => S::Server(rng.next_u32() as u16),
            _ => S::Done,
        }
    }
    fn msg_variants() -> Vec<&'static str> {
        vec!["KeepAlive", "ResponseKeepAlive", "Done"]
    }
    fn kind_of(v: &str) -> &'static str {
        match v {
            "KeepAlive" => "KeepAlive",
            "ResponseKeepAlive" => "ResponseKeepAlive",
            _ => "Done",
        }
    }
    fn make_msg(v: &str, rng: &mut Rng) -> Self::Msg {
        use proto::keepalive::Message as M;
        let c = rng.edgy_u64() as u16;
        match v {
            "KeepAlive" => M::KeepAlive(c),
            "ResponseKeepAlive" => M::ResponseKeepAlive(c),
            _ => M::Done,
        }
    }
    fn class(s: &Self::State) -> &'static str {
        use proto::keepalive::State as S;
        match s {
            S::Client(_) => "Client",
            S::Server(_) => "Server",
            S::Done => "Done",
        }
    }
    fn initial() -> Self::State {
        Default::default()
    }
    fn apply(s: &Self::State, m: &Self::Msg) -> Result<Self::State, String> {
        s.apply(m).map_err(|e| format!("{e:?}"))
    }
    fn carried(_p: &Self::State, m: &Self::Msg, n: &Self::State) -> bool {
        use proto::keepalive::{ClientState as C, Message as M, State as S};
        match (m, n) {
            (M::KeepAlive(c), S::Server(d)) => c == d,
            (M::ResponseKeepAlive(c), S::Client(C::Response(d))) => c == d,
            (M::ResponseKeepAlive(_), S::Client(C::Empty)) => false,
            _ => true,
        }
    }
}

struct Cs;
type HC = proto::chainsync::HeaderContent;
fn hc_eq(a: &HC, b: &HC) -> bool {
    a.variant == b.variant && a.byron_prefix == b.byron_prefix && a.cbor == b.cbor
}
impl P2 for Cs {
    fn same(a: &Self::State, b: &Self::State) -> bool {
        use proto::chainsync::{Data as D, State as S};
        match (a, b) {
            (S::Idle(x), S::Idle(y)) => match (x, y) {
                (D::New, D::New) | (D::Drained, D::Drained) => true,
                (D::Intersection(p, t), D::Intersection(q, u)) | (D::Rollback(p, t), D::Rollback(q, u)) => p == q && t == u,
                (D::NoIntersection(t), D::NoIntersection(u)) => t == u,
                (D::Content(c, t), D::Content(d, u)) => hc_eq(c, d) && t == u,
                _ => false,
            },
            (S::CanAwait, S::CanAwait) | (S::MustReply, S::MustReply) | (S::Done, S::Done) => true,
            (S::Intersect(p), S::Intersect(q)) => p == q,
            _ => false,
        }
    }
    const PROTO: Proto = Proto::ChainSync;
    type State = proto::chainsync::State<HC>;
    type Msg = proto::chainsync::Message<HC>;
    fn state_variants() -> Vec<&'static str> {
        vec!["Idle(New)", "Idle(Intersection)", "Idle(NoIntersection)", "Idle(Content)", "Idle(Rollback)", "Idle(Drained)", "CanAwait", "MustReply", "Intersect", "Done"]
    }
    fn make_state(v: &str, rng: &mut Rng) -> Self::State {
        use proto::chainsync::{Data as D, State as S};
        match v {
            "Idle(New)" => S::Idle(D::New),
            "Idle(Intersection)" => S::Idle(D::Intersection(g_point(rng), g_tip(rng))),
            "Idle(NoIntersection)" => S::Idle(D::NoIntersection(g_tip(rng))),
            "Idle(Content)" => S::Idle(D::Content(g_header(rng), g_tip(rng))),
            "Idle(Rollback)" => S::Idle(D::Rollback(g_point(rng), g_tip(rng))),
            "Idle(Drained)" => S::Idle(D::Drained),
            "CanAwait" => S::CanAwait,
            "MustReply" => S::MustReply,
            "Intersect" => S::Intersect(g_points(rng)),
            _ => S::Done,
        }
    }
    fn msg_variants() -> Vec<&'static str> {
        vec!["RequestNext", "AwaitReply", "RollForward", "RollBackward", "FindIntersect", "IntersectFound", "IntersectNotFound", "Done"]
    }
    fn kind_of(v: &str) -> &'static str {
        Self::msg_variants().into_iter().find(|x| *x == v).unwrap()
    }
    fn make_msg(v: &str, rng: &mut Rng) -> Self::Msg {
        use proto::chainsync::Message as M;
        match v {
            "RequestNext" => M::RequestNext,
            "AwaitReply" => M::AwaitReply,
            "RollForward" => M::RollForward(g_header(rng), g_tip(rng)),
            "RollBackward" => M::RollBackward(g_point(rng), g_tip(rng)),
            "FindIntersect" => M::FindIntersect(g_points(rng)),
            "IntersectFound" => M::IntersectFound(g_point(rng), g_tip(rng)),
            "IntersectNotFound" => M::IntersectNotFound(g_tip(rng)),
            _ => M::Done,
        }
    }
    fn class(s: &Self::State) -> &'static str {
        use proto::chainsync::State as S;
        match s {
            S::Idle(_) => "Idle",
            S::CanAwait => "CanAwait",
            S::MustReply => "MustReply",
            S::Intersect(_) => "Intersect",
            S::Done => "Done",
        }
    }
    fn initial() -> Self::State {
        Default::default()
    }
    fn apply(s: &Self::State, m: &Self::Msg) -> Result<Self::State, String> {
        s.apply(m).map_err(|e| format!("{e:?}"))
    }
    fn carried(_p: &Self::State, m: &Self::Msg, n: &Self::State) -> bool {
        use proto::chainsync::{Data as D, Message as M, State as S};
        match (m, n) {
            (M::FindIntersect(p), S::Intersect(q)) => p == q,
            (M::RollForward(c, t), S::Idle(D::Content(d, u))) => hc_eq(c, d) && t == u,
            (M::RollBackward(p, t), S::Idle(D::Rollback(q, u))) => p == q && t == u,
            (M::IntersectFound(p, t), S::Idle(D::Intersection(q, u))) => p == q && t == u,
            (M::IntersectNotFound(t), S::Idle(D::NoIntersection(u))) => t == u,
            (M::RollForward(..) | M::RollBackward(..) | M::IntersectFound(..) | M::IntersectNotFound(..), S::Idle(_)) => false,
            _ => true,
        }
    }
}

struct Bf;
impl P2 for Bf {
    fn same(a: &Self::State, b: &Self::State) -> bool {
        a == b
    }
    const PROTO: Proto = Proto::BlockFetch;
    type State = proto::blockfetch::State;
    type Msg = proto::blockfetch::Message;
    fn state_variants() -> Vec<&'static str> {
        vec!["Idle", "Busy", "Streaming(None)", "Streaming(Some)", "Done"]
    }
    fn make_state(v: &str, rng: &mut Rng) -> Self::State {
        use proto::blockfetch::State as S;
        match v {
            "Idle" => S::Idle,
            "Busy" => S::Busy((g_point(rng), g_point(rng))),
            "Streaming(None)" => S::Streaming(None),
            "Streaming(Some)" => S::Streaming(Some(g_blob(rng))),
            _ => S::Done,
        }
    }
    fn msg_variants() -> Vec<&'static str> {
        vec!["RequestRange", "ClientDone", "StartBatch", "NoBlocks", "Block", "BatchDone"]
    }
    fn kind_of(v: &str) -> &'static str {
        Self::msg_variants().into_iter().find(|x| *x == v).unwrap()
    }
    fn make_msg(v: &str, rng: &mut Rng) -> Self::Msg {
        use proto::blockfetch::Message as M;
        match v {
            "RequestRange" => M::RequestRange((g_point(rng), g_point(rng))),
            "ClientDone" => M::ClientDone,
            "StartBatch" => M::StartBatch,
            "NoBlocks" => M::NoBlocks,
            "Block" => M::Block(g_blob(rng)),
            _ => M::BatchDone,
        }
    }
    fn class(s: &Self::State) -> &'static str {
        use proto::blockfetch::State as S;
        match s {
            S::Idle => "Idle",
            S::Busy(_) => "Busy",
            S::Streaming(_) => "Streaming",
            S::Done => "Done",
        }
    }
    fn initial() -> Self::State {
        Default::default()
    }
    fn apply(s: &Self::State, m: &Self::Msg) -> Result<Self::State, String> {
        s.apply(m).map_err(|e| format!("{e:?}"))
    }
    fn carried(_p: &Self::State, m: &Self::Msg, n: &Self::State) -> bool {
        use proto::blockfetch::{Message as M, State as S};
        match (m, n) {
            (M::RequestRange(r), S::Busy(q)) => r == q,
            (M::Block(b), S::Streaming(x)) => x.as_ref() == Some(b),
            _ => true,
        }
    }
}

struct Ps;
impl P2 for Ps {
    fn same(a: &Self::State, b: &Self::State) -> bool {
        a == b
    }
    const PROTO: Proto = Proto::PeerSharing;
    type State = proto::peersharing::State;
    type Msg = proto::peersharing::Message;
    fn state_variants() -> Vec<&'static str> {
        vec!["Idle(Empty)", "Idle(Response)", "Busy", "Done"]
    }
    fn make_state(v: &str, rng: &mut Rng) -> Self::State {
        use proto::peersharing::{IdleState as I, State as S};
        match v {
            "Idle(Empty)" => S::Idle(I::Empty),
            "Idle(Response)" => S::Idle(I::Response(g_peers(rng))),
            "Busy" => S::Busy(rng.next_u8()),
            _ => S::Done,
        }
    }
    fn msg_variants() -> Vec<&'static str> {
        vec!["ShareRequest", "SharePeers", "Done"]
    }
    fn kind_of(v: &str) -> &'static str {
        Self::msg_variants().into_iter().find(|x| *x == v).unwrap()
    }
    fn make_msg(v: &str, rng: &mut Rng) -> Self::Msg {
        use proto::peersharing::Message as M;
        match v {
            "ShareRequest" => M::ShareRequest(if rng.chance(1, 3) { *rng.pick(&[0u8, 1, 255]) } else { rng.next_u8() }),
            "SharePeers" => M::SharePeers(g_peers(rng)),
            _ => M::Done,
        }
    }
    fn class(s: &Self::State) -> &'static str {
        use proto::peersharing::State as S;
        match s {
            S::Idle(_) => "Idle",
            S::Busy(_) => "Busy",
            S::Done => "Done",
        }
    }
    fn initial() -> Self::State {
        Default::default()
    }
    fn apply(s: &Self::State, m: &Self::Msg) -> Result<Self::State, String> {
        s.apply(m).map_err(|e| format!("{e:?}"))
    }
    fn carried(_p: &Self::State, m: &Self::Msg, n: &Self::State) -> bool {
        use proto::peersharing::{IdleState as I, Message as M, State as S};
        match (m, n) {
            (M::ShareRequest(a), S::Busy(b)) => a == b,
            (M::SharePeers(p), S::Idle(I::Response(q))) => p == q,
            (M::SharePeers(_), S::Idle(I::Empty)) => false,
            _ => true,
        }
    }
}

struct Tx;
impl P2 for Tx {
    fn same(a: &Self::State, b: &Self::State) -> bool {
        a == b
    }
    const PROTO: Proto = Proto::TxSubmission;
    type State = proto::txsubmission::State;
    type Msg = proto::txsubmission::Message;
    fn state_variants() -> Vec<&'static str> {
        vec!["Init", "Idle", "TxIdsNonBlocking", "TxIdsBlocking", "Txs", "Done"]
    }
    fn make_state(v: &str, rng: &mut Rng) -> Self::State {
        use proto::txsubmission::State as S;
        match v {
            "Init" => S::Init,
            "Idle" => S::Idle,
            "TxIdsNonBlocking" => S::TxIdsNonBlocking,
            "TxIdsBlocking" => S::TxIdsBlocking,
            "Txs" => S::Txs(g_txbodies(rng)),
            _ => S::Done,
        }
    }
    fn msg_variants() -> Vec<&'static str> {
        vec!["Init", "RequestTxIdsBlocking", "RequestTxIdsNonBlocking", "ReplyTxIds", "RequestTxs", "ReplyTxs", "Done"]
    }
    fn kind_of(v: &str) -> &'static str {
        Self::msg_variants().into_iter().find(|x| *x == v).unwrap()
    }
    fn make_msg(v: &str, rng: &mut Rng) -> Self::Msg {
        use proto::txsubmission::{Message as M, TxIdAndSize};
        match v {
            "Init" => M::Init,
            "RequestTxIdsBlocking" => M::RequestTxIds(true, rng.next_u32() as u16, rng.next_u32() as u16),
            "RequestTxIdsNonBlocking" => M::RequestTxIds(false, rng.next_u32() as u16, rng.next_u32() as u16),
            "ReplyTxIds" => M::ReplyTxIds((0..rng.below(4)).map(|_| TxIdAndSize(g_txid(rng), rng.next_u32())).collect()),
            "RequestTxs" => M::RequestTxs((0..rng.below(4)).map(|_| g_txid(rng)).collect()),
            "ReplyTxs" => M::ReplyTxs(g_txbodies(rng)),
            _ => M::Done,
        }
    }
    fn class(s: &Self::State) -> &'static str {
        use proto::txsubmission::State as S;
        match s {
            S::Init => "Init",
            S::Idle => "Idle",
            S::TxIdsNonBlocking => "TxIdsNonBlocking",
            S::TxIdsBlocking => "TxIdsBlocking",
            S::Txs(_) => "Txs",
            S::Done => "Done",
        }
    }
    fn initial() -> Self::State {
        Default::default()
    }
    fn apply(s: &Self::State, m: &Self::Msg) -> Result<Self::State, String> {
        s.apply(m).map_err(|e| format!("{e:?}"))
    }
    fn carried(_p: &Self::State, _m: &Self::Msg, _n: &Self::State) -> bool {
        // the spec's next state after a reply is Idle, which has no data slot in pallas' enum;
        // the request parameters have no slot either: nothing to compare
        true
    }
}

struct Ln;
impl P2 for Ln {
    fn same(a: &Self::State, b: &Self::State) -> bool {
        a == b
    }
    const PROTO: Proto = Proto::LeiosNotify;
    type State = proto::leiosnotify::State;
    type Msg = proto::leiosnotify::Message;
    fn state_variants() -> Vec<&'static str> {
        vec!["Idle(None)", "Idle(BlockAnnouncement)", "Idle(BlockOffer)", "Idle(BlockTxsOffer)", "Idle(Votes)", "Busy", "Done"]
    }
    fn make_state(v: &str, rng: &mut Rng) -> Self::State {
        use proto::leiosnotify::{Notification as N, State as S};
        match v {
            "Idle(None)" => S::Idle(None),
            "Idle(BlockAnnouncement)" => S::Idle(Some(N::BlockAnnouncement(g_anycbor(rng)))),
            "Idle(BlockOffer)" => S::Idle(Some(N::BlockOffer(g_point(rng), rng.next_u32()))),
            "Idle(BlockTxsOffer)" => S::Idle(Some(N::BlockTxsOffer(g_point(rng)))),
            "Idle(Votes)" => S::Idle(Some(N::Votes((0..rng.below(4)).map(|_| g_anycbor(rng)).collect()))),
            "Busy" => S::Busy,
            _ => S::Done,
        }
    }
    fn msg_variants() -> Vec<&'static str> {
        vec!["RequestNext", "BlockAnnouncement", "BlockOffer", "BlockTxsOffer", "Votes", "Done"]
    }
    fn kind_of(v: &str) -> &'static str {
        Self::msg_variants().into_iter().find(|x| *x == v).unwrap()
    }
    fn make_msg(v: &str, rng: &mut Rng) -> Self::Msg {
        use proto::leiosnotify::Message as M;
        match v {
            "RequestNext" => M::RequestNext,
            "BlockAnnouncement" => M::BlockAnnouncement(g_anycbor(rng)),
            "BlockOffer" => M::BlockOffer(g_point(rng), rng.next_u32()),
            "BlockTxsOffer" => M::BlockTxsOffer(g_point(rng)),
            "Votes" => M::Votes((0..rng.below(4)).map(|_| g_anycbor(rng)).collect()),
            _ => M::Done,
        }
    }
    fn class(s: &Self::State) -> &'static str {
        use proto::leiosnotify::State as S;
        match s {
            S::Idle(_) => "Idle",
            S::Busy => "Busy",
            S::Done => "Done",
        }
    }
    fn initial() -> Self::State {
        Default::default()
    }
    fn apply(s: &Self::State, m: &Self::Msg) -> Result<Self::State, String> {
        s.apply(m).map_err(|e| format!("{e:?}"))
    }
    fn carried(_p: &Self::State, m: &Self::Msg, n: &Self::State) -> bool {
        use proto::leiosnotify::{Message as M, Notification as N, State as S};
        match (m, n) {
            (M::BlockAnnouncement(a), S::Idle(Some(N::BlockAnnouncement(b)))) => a == b,
            (M::BlockOffer(p, s), S::Idle(Some(N::BlockOffer(q, t)))) => p == q && s == t,
            (M::BlockTxsOffer(p), S::Idle(Some(N::BlockTxsOffer(q)))) => p == q,
            (M::Votes(v), S::Idle(Some(N::Votes(w)))) => v == w,
            (M::BlockAnnouncement(_) | M::BlockOffer(..) | M::BlockTxsOffer(_) | M::Votes(_), S::Idle(_)) => false,
            _ => true,
        }
    }
}

struct Lf;
impl P2 for Lf {
    fn same(a: &Self::State, b: &Self::State) -> bool {
        a == b
    }
    const PROTO: Proto = Proto::LeiosFetch;
    type State = proto::leiosfetch::State;
    type Msg = proto::leiosfetch::Message;
    fn state_variants() -> Vec<&'static str> {
        vec!["Idle(None)", "Idle(Block)", "Idle(BlockTxs)", "AwaitingBlock", "AwaitingBlockTxs", "Done"]
    }
    fn make_state(v: &str, rng: &mut Rng) -> Self::State {
        use proto::leiosfetch::{Response as R, State as S};
        match v {
            "Idle(None)" => S::Idle(None),
            "Idle(Block)" => S::Idle(Some((g_point(rng), R::Block(g_anycbor(rng))))),
            "Idle(BlockTxs)" => S::Idle(Some((g_point(rng), R::BlockTxs { txs: (0..rng.below(4)).map(|_| g_anycbor(rng)).collect() }))),
            "AwaitingBlock" => S::AwaitingBlock(g_point(rng)),
            "AwaitingBlockTxs" => S::AwaitingBlockTxs(g_point(rng), g_bitmaps(rng)),
            _ => S::Done,
        }
    }
    fn msg_variants() -> Vec<&'static str> {
        vec!["BlockRequest", "Block", "BlockTxsRequest", "BlockTxs", "Done"]
    }
    fn kind_of(v: &str) -> &'static str {
        Self::msg_variants().into_iter().find(|x| *x == v).unwrap()
    }
    fn make_msg(v: &str, rng: &mut Rng) -> Self::Msg {
        use proto::leiosfetch::Message as M;
        match v {
            "BlockRequest" => M::BlockRequest(g_point(rng)),
            "Block" => M::Block(g_anycbor(rng)),
            "BlockTxsRequest" => M::BlockTxsRequest(g_point(rng), g_bitmaps(rng)),
            "BlockTxs" => M::BlockTxs { point: g_point(rng), bitmaps: g_bitmaps(rng), txs: (0..rng.below(4)).map(|_| g_anycbor(rng)).collect() },
            _ => M::Done,
        }
    }
    fn class(s: &Self::State) -> &'static str {
        use proto::leiosfetch::State as S;
        match s {
            S::Idle(_) => "Idle",
            S::AwaitingBlock(_) => "BusyBlock",
            S::AwaitingBlockTxs(..) => "BusyBlockTxs",
            S::Done => "Done",
        }
    }
    fn initial() -> Self::State {
        Default::default()
    }
    fn apply(s: &Self::State, m: &Self::Msg) -> Result<Self::State, String> {
        s.apply(m).map_err(|e| format!("{e:?}"))
    }
    fn carried(_p: &Self::State, m: &Self::Msg, n: &Self::State) -> bool {
        use proto::leiosfetch::{Message as M, Response as R, State as S};
        match (m, n) {
            (M::BlockRequest(p), S::AwaitingBlock(q)) => p == q,
            (M::BlockTxsRequest(p, b), S::AwaitingBlockTxs(q, c)) => p == q && b == c,
            (M::Block(b), S::Idle(Some((_, R::Block(c))))) => b == c,
            (M::BlockTxs { txs, .. }, S::Idle(Some((_, R::BlockTxs { txs: u })))) => txs == u,
            (M::Block(_) | M::BlockTxs { .. }, S::Idle(_)) => false,
            _ => true,
        }
    }
}

// ---------------------------------------------------------------------------------------
// the monitor
// ---------------------------------------------------------------------------------------
enum Step<S> {
    /// both accept, classes agree: continue from this state
    Next(S),
    /// both reject
    Rejected,
    /// disagreement (reported)
    Bad,
}

/// one monitored `apply`
fn check<P: P2>(ctx: &mut Ctx, st: &P::State, mv: &str, msg: &P::Msg, origin: &serde_json::Value) -> Step<P::State> {
    ctx.eval();
    let pname = P::PROTO.name();
    let class = P::class(st);
    let kind = P::kind_of(mv);
    let before = st.clone();
    let expect = specs::next(P::PROTO, class, kind);
    let replay = || json!({"proto": pname, "state": format!("{st:?}").chars().take(2000).collect::<String>(), "msg": format!("{msg:?}").chars().take(2000).collect::<String>(), "origin": origin});
    let got = match pv::panics::catch(|| P::apply(st, msg)) {
        Err(p) => {
            ctx.violation(&format!("panic:C24:{pname}:apply:{}", p.site()), &format!("{pname} State::apply panicked in state {class} on {kind}: {}", p.msg), replay());
            return Step::Bad;
        }
        Ok(r) => r,
    };
    if !P::same(&before, st) {
        ctx.violation(&format!("C24:{pname}:state={class}:msg={kind}:input-state-mutated"), "apply changed its input state", replay());
    }
    ctx.set_insert("pairs_seen", &format!("{pname}:{class}:{kind}"));
    match (expect, got) {
        (None, Err(_)) => {
            ctx.count("agree_reject");
            Step::Rejected
        }
        (Some(want), Ok(n)) => {
            let gc = P::class(&n);
            if gc != want {
                ctx.violation(
                    &format!("C24:{pname}:state={class}:msg={kind}:expect={want}:got={gc}"),
                    &format!("{pname}: in state {class} message {kind} must lead to {want}; State::apply returned a state of class {gc}"),
                    replay(),
                );
                return Step::Bad;
            }
            if !P::carried(st, msg, &n) {
                ctx.violation(
                    &format!("C24:{pname}:state={class}:msg={kind}:data-not-carried"),
                    &format!("{pname}: {class} --{kind}--> {want}: the data of the message is not carried in the new state ({n:?})").chars().take(900).collect::<String>(),
                    replay(),
                );
                return Step::Bad;
            }
            ctx.count("agree_accept");
            Step::Next(n)
        }
        (Some(want), Err(e)) => {
            ctx.violation(
                &format!("C24:{pname}:state={class}:msg={kind}:expect=accept:got=reject"),
                &format!("{pname}: the specification permits {kind} in state {class} (next state {want}); State::apply returned Err({e})"),
                replay(),
            );
            Step::Bad
        }
        (None, Ok(n)) => {
            ctx.violation(
                &format!("C24:{pname}:state={class}:msg={kind}:expect=reject:got=accept"),
                &format!("{pname}: the specification forbids {kind} in state {class}; State::apply returned Ok (class {})", P::class(&n)),
                replay(),
            );
            Step::Bad
        }
    }
}

/// part 1: all (state variant, message variant) pairs
fn run_pairs<P: P2>(ctx: &mut Ctx, idx: &mut u64, round: u64) {
    let pname = P::PROTO.name();
    for sv in P::state_variants() {
        for mv in P::msg_variants() {
            *idx += 1;
            if !ctx.owns(*idx) {
                continue;
            }
            let mut rng = ctx.sub_rng("pair", *idx ^ (round << 32));
            let st = P::make_state(sv, &mut rng);
            let msg = P::make_msg(mv, &mut rng);
            // the harness' own view of the variant must be coherent with the spec's vocabulary
            assert!(specs::state_named(P::PROTO, P::class(&st)).is_some(), "unknown class");
            let origin = json!({"part": "pair", "state_variant": sv, "msg_variant": mv});
            if ctx.want_sample() && round == 0 {
                ctx.sample(json!({"proto": pname, "state": format!("{st:?}").chars().take(200).collect::<String>(), "msg": format!("{msg:?}").chars().take(200).collect::<String>(), "spec_next": specs::next(P::PROTO, P::class(&st), P::kind_of(mv))}));
            }
            let _ = check::<P>(ctx, &st, mv, &msg, &origin);
            ctx.count("pairs_executed");
            ctx.nontrivial(fp(format!("pair:{pname}:{sv}:{mv}").as_bytes()));
        }
    }
}

/// part 2: every spec-legal prefix of length <= max_len-1 followed by every message variant
fn run_seqs<P: P2>(ctx: &mut Ctx, idx: &mut u64, round: u64, max_len: usize) {
    let pname = P::PROTO.name();
    let prefixes = specs::legal_paths(P::PROTO, max_len - 1);
    let variants = P::msg_variants();
    'prefix: for pre in prefixes {
        // a spec kind may have several pallas variants (handshake Refuse x3): enumerate all combinations lazily
        // by drawing the variant per step from the per-visit rng; every variant is covered by the last-step loop.
        *idx += 1;
        if !ctx.owns(*idx) {
            continue;
        }
        let mut rng = ctx.sub_rng("seq", *idx ^ (round << 32));
        let mut st = P::initial();
        let mut spec = Spec::new(P::PROTO);
        let mut trace: Vec<&str> = vec![];
        for kind in &pre {
            let cands: Vec<&&str> = variants.iter().filter(|v| P::kind_of(v) == *kind).collect();
            let mv = **rng.pick(&cands);
            let msg = P::make_msg(mv, &mut rng);
            trace.push(mv);
            let origin = json!({"part": "sequence", "sequence": trace});
            match check::<P>(ctx, &st, mv, &msg, &origin) {
                Step::Next(n) => {
                    st = n;
                    spec.step(kind).expect("legal by construction");
                }
                // a defect on the way (reported): the rest of this sequence cannot be driven
                _ => {
                    ctx.count("sequences_cut_by_violation");
                    continue 'prefix;
                }
            }
        }
        ctx.max("longest_sequence", pre.len() as u64 + 1);
        for mv in &variants {
            let msg = P::make_msg(mv, &mut rng);
            let mut t = trace.clone();
            t.push(mv);
            let origin = json!({"part": "sequence", "sequence": t});
            let _ = check::<P>(ctx, &st, mv, &msg, &origin);
            ctx.count("sequences_executed");
            ctx.nontrivial(fp(format!("seq:{pname}:{}", t.join(",")).as_bytes()));
        }
    }
}

fn run_all(ctx: &mut Ctx, round: u64, max_len: usize) {
    let mut idx = 0u64;
    run_pairs::<Hs>(ctx, &mut idx, round);
    run_pairs::<Ka>(ctx, &mut idx, round);
    run_pairs::<Cs>(ctx, &mut idx, round);
    run_pairs::<Bf>(ctx, &mut idx, round);
    run_pairs::<Ps>(ctx, &mut idx, round);
    run_pairs::<Tx>(ctx, &mut idx, round);
    run_pairs::<Ln>(ctx, &mut idx, round);
    run_pairs::<Lf>(ctx, &mut idx, round);
    run_seqs::<Hs>(ctx, &mut idx, round, max_len);
    run_seqs::<Ka>(ctx, &mut idx, round, max_len);
    run_seqs::<Cs>(ctx, &mut idx, round, max_len);
    run_seqs::<Bf>(ctx, &mut idx, round, max_len);
    run_seqs::<Ps>(ctx, &mut idx, round, max_len);
    run_seqs::<Tx>(ctx, &mut idx, round, max_len);
    run_seqs::<Ln>(ctx, &mut idx, round, max_len);
    run_seqs::<Lf>(ctx, &mut idx, round, max_len);
}

fn main() {
    let mut ctx = Ctx::from_args("C24");
    if let Err(e) = specs::selfcheck() {
        ctx.inconclusive(&format!("spec tables failed their self-check: {e}"));
        ctx.finish();
    }
    if let Some(p) = ctx.replay.clone() {
        // the witness stores the Debug form of state and message plus how it was reached; the relation is
        // finite and deterministic, so replay = re-run the enumeration and print that signature's first witness
        let v: serde_json::Value = serde_json::from_slice(&std::fs::read(p).unwrap()).unwrap();
        let want = v["signature"].as_str().unwrap_or("").to_string();
        ctx.nshards = 1;
        ctx.shard = 0;
        run_all(&mut ctx, 0, 8);
        println!("replayed the full enumeration looking for signature {want:?}");
        println!("violations={}", ctx.n_violations());
        ctx.finish();
    }
    // the finite relation is executed completely in both tiers; the thorough tier repeats it with
    // fresh random payloads
    let rounds = if ctx.quick() { 5 } else { ((60.0 * ctx.scale).ceil() as u64).max(1) };
    for r in 0..rounds {
        run_all(&mut ctx, r, 8);
    }
    ctx.note("exhaustive", json!(true));
    ctx.note("rounds", json!(rounds));
    ctx.note("max_sequence_length", json!(8));
    ctx.finish();
}
