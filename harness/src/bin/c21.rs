//! C21 — message reassembly is independent of segment boundaries (both stacks).
//!
//! Oracle: the sent sequence (re-encoding + Debug form of every received message).
//! v1 (pallas-network): real `Plexer` pair over a unix socket pair, one raw `AgentChannel::enqueue_chunk`
//!   per segment, `ChannelBuffer::recv_full_msg::<M>` on the other side, followed by an unsplit sentinel
//!   message (left-over bytes would corrupt it).
//! v2 (pallas-network2): (a) direct `AnyMessage::from_payload` driven exactly like `read_full_msgs`
//!   (exhaustive part: every single and every pair of split points of streams <= 64 bytes),
//!   (b) real socket pair, `BearerWriteHalf::write_segment` per piece with several channels interleaved,
//!   `BearerReadHalf::read_full_msgs::<AnyMessage>` on the other side, partial-buffer map must end empty.
use pallas_codec::minicbor;
use pallas_codec::Fragment;
use pallas_network::miniprotocols as n1;
use pallas_network::multiplexer as mux1;
use pallas_network2::bearer as b2;
use pallas_network2::behavior::AnyMessage;
use pallas_network2::Message as _;
use pv::netgen::*;
use pv::*;
use std::collections::{BTreeSet, HashMap};
use std::fmt::Debug;
use std::time::Duration;

#[derive(Clone, Debug)]
struct Sent {
    bytes: Vec<u8>,
    debug: String,
    label: String,
}

#[derive(Clone, Debug)]
struct Stream {
    stack: &'static str,
    proto: String,
    /// compare Debug forms too (not for handshake: HashMap iteration order)
    cmp_debug: bool,
    msgs: Vec<Sent>,
    bytes: Vec<u8>,
}

#[derive(Clone, Debug)]
enum Got {
    Msg { bytes: Vec<u8>, debug: String },
    Error(String),
    Stall,
}

fn ident(s: &str) -> String {
    let t = s.rsplit("::").next().unwrap_or(s);
    t.chars().take_while(|c| c.is_ascii_alphanumeric() || *c == '_').collect()
}
/// variant part of a generator label, sub-case included: "txmonitor::ResponseNextTx(None)" -> "ResponseNextTx(None)"
fn sent_label(s: &str) -> String {
    s.rsplit("::").next().unwrap_or(s).to_string()
}

/// positions where a cut is "non-trivial": inside a multi-byte head, inside the payload of a nested
/// byte/text string, or right before the break of an indefinite-length item
fn interesting_positions(stream: &[u8]) -> BTreeSet<usize> {
    fn walk(it: &cbor::Item, depth: usize, out: &mut BTreeSet<usize>) {
        for p in it.start + 1..it.start + it.head_len {
            out.insert(p);
        }
        if matches!(it.major, 2 | 3) && !it.indef && depth > 0 {
            for p in it.start + it.head_len + 1..it.end {
                out.insert(p);
                if out.len() > 4000 {
                    break;
                }
            }
        }
        if it.indef && it.end > it.start + 1 {
            out.insert(it.end - 1);
        }
        for c in &it.children {
            walk(c, depth + 1, out);
        }
    }
    let mut out = BTreeSet::new();
    if let Ok(items) = cbor::parse_seq(stream) {
        for it in &items {
            walk(it, 0, &mut out);
        }
    }
    out
}

fn segments_of(stream: &[u8], cuts: &[usize]) -> Vec<Vec<u8>> {
    let mut out = vec![];
    let mut prev = 0;
    for &c in cuts {
        out.push(stream[prev..c].to_vec());
        prev = c;
    }
    out.push(stream[prev..].to_vec());
    // respect the 16-bit segment length
    let mut fin = vec![];
    for s in out {
        if s.len() > 65535 {
            for ch in s.chunks(65535) {
                fin.push(ch.to_vec());
            }
        } else {
            fin.push(s);
        }
    }
    fin
}

/// random cut set; returns (sorted cuts (duplicates = empty segments only in class "empty-segment"), class)
fn gen_cuts(rng: &mut Rng, stream: &Stream, interesting: &BTreeSet<usize>) -> (Vec<usize>, &'static str) {
    let l = stream.bytes.len();
    if l < 2 {
        return (vec![], "unsplit");
    }
    let mut cuts: Vec<usize> = vec![];
    let class = match rng.below(16) {
        0 if l <= 3000 => {
            cuts = (1..l).collect();
            "all-1-byte"
        }
        1 | 2 => {
            // message boundaries +-1
            let mut p = 0;
            for m in &stream.msgs {
                p += m.bytes.len();
                for d in [-1i64, 0, 1] {
                    let c = p as i64 + d;
                    if c > 0 && (c as usize) < l && rng.chance(2, 3) {
                        cuts.push(c as usize);
                    }
                }
            }
            "message-boundaries"
        }
        3..=7 if !interesting.is_empty() => {
            let v: Vec<usize> = interesting.iter().copied().collect();
            let k = 1 + rng.usize_below(6);
            for _ in 0..k {
                cuts.push(*rng.pick(&v));
            }
            if rng.bool() {
                cuts.push(1 + rng.usize_below(l - 1));
            }
            "inside-items"
        }
        8 => {
            // empty segments: duplicate cut points, also at 0 / message boundaries / end
            let k = 1 + rng.usize_below(4);
            for _ in 0..k {
                let c = rng.usize_below(l + 1);
                cuts.push(c);
                cuts.push(c);
            }
            let mut p = 0;
            for m in &stream.msgs {
                p += m.bytes.len();
                if rng.bool() {
                    cuts.push(p);
                    cuts.push(p);
                }
            }
            cuts.sort();
            return (cuts, "empty-segment");
        }
        9 => {
            let step = 1 + rng.usize_below(7);
            cuts = (1..l).filter(|p| p % step == 0).collect();
            if cuts.len() > 4000 {
                cuts.truncate(4000);
            }
            "fixed-size-pieces"
        }
        _ => {
            let k = 1 + rng.usize_below(8);
            for _ in 0..k {
                cuts.push(1 + rng.usize_below(l - 1));
            }
            "random"
        }
    };
    cuts.sort();
    cuts.dedup();
    cuts.retain(|c| *c > 0 && *c < l);
    (cuts, class)
}

// ---------------------------------------------------------------------------------------
// judging
// ---------------------------------------------------------------------------------------

struct Judge;

fn judge(ctx: &mut Ctx, j: &Judge, stream: &Stream, mode: &str, class: &str, cuts: &[usize], got: &[Got], leftover: Option<usize>, interesting: &BTreeSet<usize>) -> bool {
    ctx.eval();
    ctx.count(&format!("cases:{}:{}", stream.stack, mode));
    ctx.count(&format!("split_class:{class}"));
    ctx.set_insert(&format!("protocols:{}:{}", stream.stack, mode), &stream.proto);
    ctx.max("max_segments", cuts.len() as u64 + 1);
    ctx.max("max_stream_len", stream.bytes.len() as u64);
    if cuts.iter().any(|c| interesting.contains(c)) {
        let mut h = fp(&stream.bytes);
        for c in cuts {
            h = fp_mix(h, *c as u64);
        }
        ctx.nontrivial(fp_mix(h, fp(mode.as_bytes())));
        ctx.count("nontrivial_cuts_inside_items");
    }
    let _ = j;
    // first divergence
    let mut verdict: Option<(String, String, String)> = None; // (sent ident, got class, text)
    for (i, s) in stream.msgs.iter().enumerate() {
        let sid = sent_label(&s.label);
        match got.get(i) {
            None => {
                verdict = Some((sid, "missing".into(), format!("message #{i} ({}) was never delivered", s.label)));
            }
            Some(Got::Stall) => {
                verdict = Some((sid, "stall".into(), format!("receiver still waits for message #{i} ({}) after all segments were delivered", s.label)));
            }
            Some(Got::Error(e)) => {
                verdict = Some((sid, "error".into(), format!("receiver failed at message #{i} ({}): {e}", s.label)));
            }
            Some(Got::Msg { bytes, debug }) => {
                if *bytes != s.bytes || (stream.cmp_debug && *debug != s.debug) {
                    let gid = ident(debug);
                    let cls = if gid == ident(&s.label) { "same-variant-different-content".to_string() } else { format!("other-variant:{gid}") };
                    verdict = Some((sid, cls, format!("message #{i}: sent {} got {}", clip(&s.debug), clip(debug))));
                }
            }
        }
        if verdict.is_some() {
            break;
        }
    }
    if verdict.is_none() && got.len() > stream.msgs.len() {
        let extra = match &got[stream.msgs.len()] {
            Got::Msg { debug, .. } => clip(debug),
            o => format!("{o:?}"),
        };
        let last = stream.msgs.last().map(|s| sent_label(&s.label)).unwrap_or_default();
        verdict = Some((last, "extra".into(), format!("receiver produced an extra item after the sent sequence: {extra}")));
    }
    if verdict.is_none() {
        if let Some(n) = leftover {
            if n > 0 {
                let last = stream.msgs.last().map(|s| sent_label(&s.label)).unwrap_or_default();
                verdict = Some((last, "leftover-bytes".into(), format!("{n} bytes left in the partial buffer after the whole sequence was delivered")));
            }
        }
    }
    match verdict {
        None => {
            ctx.count("sequences_reassembled_ok");
            true
        }
        Some((sid, cls, text)) => {
            let sig = if class == "empty-segment" {
                // zero-length segments: one signature per (protocol, what the receiver made up), whatever was sent around it
                let what = match got.iter().zip(stream.msgs.iter()).find(|(g, m)| !matches!(g, Got::Msg { bytes, .. } if *bytes == m.bytes)) {
                    Some((Got::Msg { debug, .. }, _)) => ident(debug),
                    _ => cls.clone(),
                };
                format!("C21:{}:{}:empty-segment:got={}", stream.stack, stream.proto, what)
            } else {
                format!("C21:{}:{}:sent={}:got={}", stream.stack, stream.proto, sid, cls)
            };
            let labels: Vec<&str> = stream.msgs.iter().map(|m| m.label.as_str()).collect();
            if std::env::var("PV_DEBUG").is_ok() {
                eprintln!("{sig} :: {mode} {class} {:?} cuts {:?} :: {text}", labels, &cuts[..cuts.len().min(6)]);
            }
            ctx.violation(
                &sig,
                &format!("{} {} ({mode}, split class {class}): sequence {:?} = {} cut at {:?}: {text}", stream.stack, stream.proto, labels, hex_short(&stream.bytes), &cuts[..cuts.len().min(12)]),
                json!({"stack": stream.stack, "proto": stream.proto, "mode": mode, "class": class, "stream": hexs(&stream.bytes), "msg_lens": stream.msgs.iter().map(|m| m.bytes.len()).collect::<Vec<_>>(), "labels": labels, "cuts": cuts}),
            );
            false
        }
    }
}

// ---------------------------------------------------------------------------------------
// stream generation
// ---------------------------------------------------------------------------------------

fn gen_stream_v2(rng: &mut Rng, p: N2Proto, max_msgs: usize, max_len: usize, ctx: &mut Ctx) -> Option<(Stream, Vec<AnyMessage>)> {
    for _ in 0..300 {
        let n = 1 + rng.usize_below(max_msgs);
        let mut msgs = vec![];
        let mut any = vec![];
        let mut bytes = vec![];
        let mut g = G::new(rng);
        for _ in 0..n {
            g.reset();
            let (m, label) = gen_n2_message(&mut g, p);
            let b = encode_n2(&m);
            // only messages that are well-formed and round-trip as a whole (C22 deals with the others)
            let ok = cbor::strict_check(&b).is_ok() && {
                let mut pl = b.clone();
                matches!(pv::panics::catch(|| AnyMessage::from_payload(p.channel(), &mut pl)), Ok(Some(ref x)) if pl.is_empty() && encode_n2(x) == b)
            };
            if !ok {
                ctx.count("messages_skipped_not_roundtrippable");
                ctx.set_insert("skipped_not_roundtrippable", &label);
                continue;
            }
            bytes.extend_from_slice(&b);
            msgs.push(Sent { bytes: b, debug: inner_debug_v2(&m), label });
            any.push(m);
        }
        if msgs.is_empty() || bytes.len() > max_len {
            continue;
        }
        return Some((Stream { stack: "v2", proto: p.name().to_string(), cmp_debug: p != N2Proto::Handshake, msgs, bytes }, any));
    }
    None
}

fn inner_debug_v2(m: &AnyMessage) -> String {
    // Debug of the AnyMessage wrapper: "ChainSync(RollForward(..))" -> strip the wrapper so that the
    // identifier is the message variant
    let s = format!("{m:?}");
    match s.find('(') {
        Some(i) if s.ends_with(')') => s[i + 1..s.len() - 1].to_string(),
        _ => s,
    }
}

fn gen_stream_v1(rng: &mut Rng, p: N1Proto, max_msgs: usize, max_len: usize, ctx: &mut Ctx) -> Option<Stream> {
    for _ in 0..300 {
        let n = 1 + rng.usize_below(max_msgs);
        let mut msgs = vec![];
        let mut bytes = vec![];
        let mut g = G::new(rng);
        for _ in 0..n {
            g.reset();
            let (m, label) = gen_n1_message(&mut g, p);
            let ok = match m.encode() {
                Ok(b) => {
                    if cbor::strict_check(&b).is_ok() && matches!(N1Msg::decode(p, &b), Ok((ref x, used)) if used == b.len() && x.encode().ok().as_ref() == Some(&b)) {
                        Some(b)
                    } else {
                        None
                    }
                }
                Err(_) => None,
            };
            let Some(b) = ok else {
                ctx.count("messages_skipped_not_roundtrippable");
                ctx.set_insert("skipped_not_roundtrippable", &label);
                continue;
            };
            bytes.extend_from_slice(&b);
            msgs.push(Sent { bytes: b, debug: m.debug(), label });
        }
        if msgs.is_empty() || bytes.len() > max_len {
            continue;
        }
        let cmp_debug = !matches!(p, N1Proto::HandshakeN2N | N1Proto::HandshakeN2C);
        return Some(Stream { stack: "v1", proto: p.name().to_string(), cmp_debug, msgs, bytes });
    }
    None
}

// ---------------------------------------------------------------------------------------
// v2 direct: AnyMessage::from_payload driven like read_full_msgs
// ---------------------------------------------------------------------------------------

fn run_v2_direct(channel: u16, segments: &[Vec<u8>]) -> (Vec<Got>, usize) {
    let mut out = vec![];
    let mut partial: Vec<u8> = vec![];
    for seg in segments {
        let mut payload = std::mem::take(&mut partial);
        payload.extend_from_slice(seg);
        loop {
            match pv::panics::catch(|| AnyMessage::from_payload(channel, &mut payload)) {
                Err(p) => {
                    out.push(Got::Error(format!("panic {}", p.site())));
                    return (out, payload.len());
                }
                Ok(Some(m)) => out.push(Got::Msg { bytes: encode_n2(&m), debug: inner_debug_v2(&m) }),
                Ok(None) => break,
            }
            if out.len() > 10_000 {
                break;
            }
        }
        partial = payload;
    }
    (out, partial.len())
}

// ---------------------------------------------------------------------------------------
// v2 socket
// ---------------------------------------------------------------------------------------

struct ChanPlan {
    channel: u16,
    segments: Vec<Vec<u8>>,
    expect: usize,
}

async fn run_v2_socket(plans: &[ChanPlan], order: &[usize], mode_bits: &[u16], stall_s: u64) -> (HashMap<u16, Vec<Got>>, HashMap<u16, usize>, Option<String>) {
    let (a, b) = match tokio::net::UnixStream::pair() {
        Ok(x) => x,
        Err(e) => return (HashMap::new(), HashMap::new(), Some(format!("socketpair: {e}"))),
    };
    let (_ra, mut wa) = b2::Bearer::Unix(a).into_split();
    let (mut rb, _wb) = b2::Bearer::Unix(b).into_split();
    let total: usize = plans.iter().map(|p| p.expect).sum();
    let writer = async {
        let mut next = vec![0usize; plans.len()];
        for (k, &pi) in order.iter().enumerate() {
            let seg = &plans[pi].segments[next[pi]];
            next[pi] += 1;
            if let Err(e) = wa.write_segment(plans[pi].channel | mode_bits[k % mode_bits.len()], k as u32, seg).await {
                return Err(format!("write_segment: {e}"));
            }
        }
        Ok(())
    };
    let reader = async {
        let mut partial: HashMap<u16, Vec<u8>> = HashMap::new();
        let mut got: HashMap<u16, Vec<Got>> = HashMap::new();
        let mut n = 0usize;
        let mut segs_read = 0usize;
        while segs_read < order.len() {
            match tokio::time::timeout(Duration::from_secs(stall_s), rb.read_full_msgs::<AnyMessage>(&mut partial)).await {
                Err(_) => return (got, partial, Some("read timed out".to_string())),
                Ok(Err(e)) => return (got, partial, Some(format!("read_full_msgs: {e}"))),
                Ok(Ok(ms)) => {
                    segs_read += 1;
                    for m in ms {
                        n += 1;
                        got.entry(m.channel()).or_default().push(Got::Msg { bytes: encode_n2(&m), debug: inner_debug_v2(&m) });
                    }
                }
            }
        }
        let _ = (n, total);
        (got, partial, None)
    };
    let (w, (got, partial, rerr)) = tokio::join!(writer, reader);
    let left = partial.iter().map(|(k, v)| (*k, v.len())).collect();
    (got, left, w.err().or(rerr))
}

// ---------------------------------------------------------------------------------------
// v1 plexer pair
// ---------------------------------------------------------------------------------------

struct PlexPair {
    a: mux1::RunningPlexer,
    b: mux1::RunningPlexer,
    chan_a: mux1::AgentChannel,
    buf_b: mux1::ChannelBuffer,
}

fn new_plex_pair(channel: u16) -> Result<PlexPair, String> {
    let (sa, sb) = tokio::net::UnixStream::pair().map_err(|e| e.to_string())?;
    let mut pa = mux1::Plexer::new(mux1::Bearer::Unix(sa));
    let mut pb = mux1::Plexer::new(mux1::Bearer::Unix(sb));
    let chan_a = pa.subscribe_client(channel);
    let chan_b = pb.subscribe_server(channel);
    Ok(PlexPair { a: pa.spawn(), b: pb.spawn(), chan_a, buf_b: mux1::ChannelBuffer::new(chan_b) })
}

async fn v1_exchange<M>(pp: &mut PlexPair, segments: Vec<Vec<u8>>, expect: usize, stall_s: u64) -> (Vec<Got>, Option<String>, bool)
where
    M: Fragment + Debug,
{
    let chan_a = &mut pp.chan_a;
    let buf_b = &mut pp.buf_b;
    let lag = segments.len() > 110 && segments.len() % 3 == 0;
    let send = async {
        for s in segments {
            if let Err(e) = chan_a.enqueue_chunk(s).await {
                return Some(format!("enqueue_chunk: {e}"));
            }
        }
        None
    };
    // a reader that lags behind: with more segments than the agent's ingress queue holds (100), a third of
    // the cases start reading only after the sender had time to fill every queue on the way
    let recv = async {
        let mut out = vec![];
        if lag {
            tokio::time::sleep(Duration::from_millis(400)).await;
        }
        for _ in 0..expect {
            match tokio::time::timeout(Duration::from_secs(stall_s), buf_b.recv_full_msg::<M>()).await {
                Err(_) => {
                    out.push(Got::Stall);
                    break;
                }
                Ok(Err(e)) => {
                    out.push(Got::Error(format!("{e:?}")));
                    break;
                }
                Ok(Ok(m)) => {
                    let bytes = pv::panics::catch(|| minicbor::to_vec(&m).unwrap_or_default()).unwrap_or_default();
                    out.push(Got::Msg { bytes, debug: format!("{m:?}") });
                }
            }
        }
        out
    };
    // the sender must not outlive a receiver that gave up (the queues are bounded)
    tokio::pin!(send);
    tokio::pin!(recv);
    let mut serr = None;
    let mut send_done = false;
    let out = loop {
        tokio::select! {
            biased;
            o = &mut recv => break o,
            e = &mut send, if !send_done => {
                send_done = true;
                serr = e;
            }
        }
    };
    (out, serr, send_done)
}

async fn v1_dispatch(p: N1Proto, pp: &mut PlexPair, segments: Vec<Vec<u8>>, expect: usize, stall_s: u64) -> (Vec<Got>, Option<String>, bool) {
    match p {
        N1Proto::HandshakeN2N => v1_exchange::<n1::handshake::Message<n1::handshake::n2n::VersionData>>(pp, segments, expect, stall_s).await,
        N1Proto::HandshakeN2C => v1_exchange::<n1::handshake::Message<n1::handshake::n2c::VersionData>>(pp, segments, expect, stall_s).await,
        N1Proto::ChainSyncN2N => v1_exchange::<n1::chainsync::Message<n1::chainsync::HeaderContent>>(pp, segments, expect, stall_s).await,
        N1Proto::ChainSyncN2C => v1_exchange::<n1::chainsync::Message<n1::chainsync::BlockContent>>(pp, segments, expect, stall_s).await,
        N1Proto::BlockFetch => v1_exchange::<n1::blockfetch::Message>(pp, segments, expect, stall_s).await,
        N1Proto::TxSubmission => v1_exchange::<N1TxSub>(pp, segments, expect, stall_s).await,
        N1Proto::KeepAlive => v1_exchange::<n1::keepalive::Message>(pp, segments, expect, stall_s).await,
        N1Proto::PeerSharing => v1_exchange::<n1::peersharing::Message>(pp, segments, expect, stall_s).await,
        N1Proto::LocalState => v1_exchange::<n1::localstate::Message>(pp, segments, expect, stall_s).await,
        N1Proto::LocalTxSubmission => v1_exchange::<N1LocalTx>(pp, segments, expect, stall_s).await,
        N1Proto::TxMonitor => v1_exchange::<n1::txmonitor::Message>(pp, segments, expect, stall_s).await,
        N1Proto::LocalMsgSubmission => v1_exchange::<N1LocalMsgSub>(pp, segments, expect, stall_s).await,
        N1Proto::LocalMsgNotification => v1_exchange::<n1::localmsgnotification::Message>(pp, segments, expect, stall_s).await,
    }
}

struct V1Runner {
    rt: tokio::runtime::Runtime,
    pairs: HashMap<u16, PlexPair>,
    stalls: u32,
    disabled: BTreeSet<String>,
}

impl V1Runner {
    /// run one (stream, cuts) case through a real plexer pair; the stream is followed by an unsplit sentinel
    fn run(&mut self, ctx: &mut Ctx, p: N1Proto, stream: &Stream, sentinel: &Sent, cuts: &[usize]) -> Option<(Stream, Vec<Got>)> {
        if self.disabled.contains(p.name()) {
            ctx.count("v1_cases_skipped_after_stalls");
            return None;
        }
        let mut segments = segments_of(&stream.bytes, cuts);
        // with zero-length segments a made-up message can coincide with the next expected one and leave
        // real bytes in flight: never reuse the pair after such a case
        let has_empty = segments.iter().any(|s| s.is_empty());
        segments.push(sentinel.bytes.clone());
        let mut full = stream.clone();
        full.msgs.push(sentinel.clone());
        full.bytes.extend_from_slice(&sentinel.bytes);
        let expect = full.msgs.len();
        let ch = p.channel();
        let pairs = &mut self.pairs;
        let res = self.rt.block_on(async {
            if !pairs.contains_key(&ch) {
                match new_plex_pair(ch) {
                    Ok(pp) => {
                        pairs.insert(ch, pp);
                    }
                    Err(e) => return Err(e),
                }
            }
            let pp = pairs.get_mut(&ch).unwrap();
            Ok(v1_dispatch(p, pp, segments, expect, 20).await)
        });
        match res {
            Err(e) => {
                ctx.inconclusive(&format!("v1 plexer pair could not be created: {e}"));
                None
            }
            Ok((got, serr, send_done)) => {
                if let Some(e) = serr {
                    ctx.inconclusive(&format!("v1 sender failed: {e}"));
                    self.drop_pair(ch);
                    return None;
                }
                let clean = got.len() == expect && got.iter().zip(full.msgs.iter()).all(|(g, m)| matches!(g, Got::Msg { bytes, .. } if *bytes == m.bytes));
                if got.iter().any(|g| matches!(g, Got::Stall)) {
                    self.stalls += 1;
                    if self.stalls >= 3 {
                        self.disabled.insert(p.name().to_string());
                    }
                }
                if !clean || !send_done || has_empty {
                    self.drop_pair(ch);
                }
                Some((full, got))
            }
        }
    }
    fn drop_pair(&mut self, ch: u16) {
        if let Some(pp) = self.pairs.remove(&ch) {
            self.rt.block_on(async {
                pp.a.abort().await;
                pp.b.abort().await;
            });
        }
    }
}

fn dedup_cuts(cuts: &[usize], l: usize) -> Vec<usize> {
    let mut v = cuts.to_vec();
    v.sort();
    v.dedup();
    v.retain(|c| *c > 0 && *c < l);
    v
}

fn all_single_and_pair_cuts(l: usize) -> Vec<Vec<usize>> {
    let mut v = vec![];
    for a in 1..l {
        v.push(vec![a]);
    }
    for a in 1..l {
        for b in a + 1..l {
            v.push(vec![a, b]);
        }
    }
    v
}

fn main() {
    let mut ctx = Ctx::from_args("C21");
    let j = Judge;
    let rt = tokio::runtime::Builder::new_current_thread().enable_all().build().unwrap();
    let mut v1 = V1Runner { rt: tokio::runtime::Builder::new_current_thread().enable_all().build().unwrap(), pairs: HashMap::new(), stalls: 0, disabled: BTreeSet::new() };

    if let Some(p) = ctx.replay.clone() {
        let v: serde_json::Value = serde_json::from_slice(&std::fs::read(p).unwrap()).unwrap();
        let r = &v["replay"];
        let stream_bytes = hex::decode(r["stream"].as_str().unwrap()).unwrap();
        let lens: Vec<usize> = r["msg_lens"].as_array().unwrap().iter().map(|x| x.as_u64().unwrap() as usize).collect();
        let labels: Vec<String> = r["labels"].as_array().unwrap().iter().map(|x| x.as_str().unwrap().to_string()).collect();
        let cuts: Vec<usize> = r["cuts"].as_array().unwrap().iter().map(|x| x.as_u64().unwrap() as usize).collect();
        let stack = r["stack"].as_str().unwrap();
        let proto = r["proto"].as_str().unwrap();
        let class = r["class"].as_str().unwrap().to_string();
        let mut msgs = vec![];
        let mut pos = 0;
        if stack == "v2" {
            let p = *N2_PROTOS.iter().find(|p| p.name() == proto).unwrap();
            for (n, l) in lens.iter().zip(labels.iter()) {
                let b = stream_bytes[pos..pos + n].to_vec();
                pos += n;
                let mut pl = b.clone();
                let m = AnyMessage::from_payload(p.channel(), &mut pl).expect("stored message decodes");
                msgs.push(Sent { bytes: b, debug: inner_debug_v2(&m), label: l.clone() });
            }
            let stream = Stream { stack: "v2", proto: proto.to_string(), cmp_debug: p != N2Proto::Handshake, msgs, bytes: stream_bytes.clone() };
            let segs = segments_of(&stream.bytes, &cuts);
            let (got, left) = run_v2_direct(p.channel(), &segs);
            println!("replay v2 direct: got {} item(s), {left} bytes left", got.len());
            let it = interesting_positions(&stream.bytes);
            judge(&mut ctx, &j, &stream, "direct", &class, &cuts, &got, Some(left), &it);
        } else {
            let p = *N1_PROTOS.iter().find(|p| p.name() == proto).unwrap();
            for (n, l) in lens.iter().zip(labels.iter()) {
                let b = stream_bytes[pos..pos + n].to_vec();
                pos += n;
                let (m, _) = N1Msg::decode(p, &b).expect("stored message decodes");
                msgs.push(Sent { bytes: b, debug: m.debug(), label: l.clone() });
            }
            // the last stored message is the sentinel
            let sentinel = msgs.pop().unwrap();
            let cut_len = stream_bytes.len() - sentinel.bytes.len();
            let stream = Stream { stack: "v1", proto: proto.to_string(), cmp_debug: !proto.starts_with("handshake"), msgs, bytes: stream_bytes[..cut_len].to_vec() };
            if let Some((full, got)) = v1.run(&mut ctx, p, &stream, &sentinel, &cuts) {
                println!("replay v1 plexer: got {:?}", got.iter().map(|g| match g { Got::Msg { debug, .. } => clip(debug), o => format!("{o:?}") }).collect::<Vec<_>>());
                let it = interesting_positions(&full.bytes);
                judge(&mut ctx, &j, &full, "plexer", &class, &cuts, &got, None, &it);
            }
        }
        println!("replayed: violations={}", ctx.n_violations());
        ctx.finish();
    }

    let mut rng = ctx.rng.clone();

    if std::env::var("PV_DEBUG").is_ok() {
        eprintln!("phase 1 at {:.1}s", ctx.elapsed_s());
    }
    // ---- (1) v2 direct, exhaustive single + pair splits of short streams ----------------------
    let n_short_v2 = ctx.budget(96, 1600);
    for i in 0..n_short_v2 {
        let p = N2_PROTOS[((ctx.shard as u64 * 131 + i) % 8) as usize];
        let Some((stream, _)) = gen_stream_v2(&mut rng, p, 3, 64, &mut ctx) else { continue };
        if stream.bytes.len() < 3 {
            continue;
        }
        let it = interesting_positions(&stream.bytes);
        for cuts in all_single_and_pair_cuts(stream.bytes.len()) {
            let segs = segments_of(&stream.bytes, &cuts);
            let (got, left) = run_v2_direct(p.channel(), &segs);
            judge(&mut ctx, &j, &stream, "direct", if cuts.len() == 1 { "exhaustive-1" } else { "exhaustive-2" }, &cuts, &got, Some(left), &it);
        }
        ctx.count("short_streams_exhausted:v2");
        ctx.max("longest_exhausted_stream", stream.bytes.len() as u64);
        if i == 0 {
            ctx.sample(json!({"stack": "v2", "proto": stream.proto, "stream": hexs(&stream.bytes), "messages": stream.msgs.iter().map(|m| m.label.clone()).collect::<Vec<_>>(), "splits": "all single and all pairs"}));
        }
    }

    // ---- (1b) v2 direct, streams that end exactly on a multiple of the segment limit (65535) and are
    //      delivered in full-size segments: complete messages must come out, nothing may stay parked
    if ctx.shard % 4 == 0 {
        use pallas_network2::protocol::blockfetch::Message as Bf;
        const SEG: usize = 65535;
        let mk = |m: Bf| -> Sent {
            let any = AnyMessage::BlockFetch(m);
            Sent { bytes: encode_n2(&any), debug: inner_debug_v2(&any), label: "blockfetch".into() }
        };
        let overhead = mk(Bf::Block(vec![0u8; 70_000])).bytes.len() - 70_000;
        for k in 1..=2usize {
            for variant in 0..3 {
                let mut msgs: Vec<Sent> = vec![];
                let fixed: usize = match variant {
                    0 => 0,
                    _ => {
                        msgs.push(mk(Bf::StartBatch));
                        msgs[0].bytes.len() + mk(Bf::BatchDone).bytes.len()
                    }
                };
                let total = SEG * k;
                if variant == 2 {
                    // two blocks
                    let a = 1000 + rng.usize_below(20_000);
                    msgs.push(mk(Bf::Block(rng.bytes(a))));
                    let used: usize = msgs.iter().map(|m| m.bytes.len()).sum::<usize>() + mk(Bf::BatchDone).bytes.len();
                    // the head widths depend on the body length: adjust until the stream has the wanted length
                    let mut body = total - used - overhead;
                    for _ in 0..4 {
                        let l = mk(Bf::Block(vec![0u8; body])).bytes.len();
                        if used + l == total { break; }
                        body = (body as i64 + (total as i64 - (used + l) as i64)) as usize;
                    }
                    msgs.push(mk(Bf::Block(rng.bytes(body))));
                } else {
                    let tail = if variant == 0 { 0 } else { mk(Bf::BatchDone).bytes.len() };
                    let head: usize = msgs.iter().map(|m| m.bytes.len()).sum();
                    let mut body = total - fixed - overhead;
                    for _ in 0..4 {
                        let l = mk(Bf::Block(vec![0u8; body])).bytes.len();
                        if head + l + tail == total { break; }
                        body = (body as i64 + (total as i64 - (head + l + tail) as i64)) as usize;
                    }
                    msgs.push(mk(Bf::Block(rng.bytes(body))));
                }
                if variant != 0 {
                    msgs.push(mk(Bf::BatchDone));
                }
                let bytes: Vec<u8> = msgs.iter().flat_map(|m| m.bytes.clone()).collect();
                if bytes.len() != total {
                    ctx.count("segment_limit_aligned_skipped(length-mismatch)");
                    continue;
                }
                let stream = Stream { stack: "v2", proto: N2Proto::BlockFetch.name().to_string(), cmp_debug: true, msgs, bytes };
                let cuts: Vec<usize> = (1..k).map(|i| i * SEG).collect();
                let it = interesting_positions(&stream.bytes);
                let segs = segments_of(&stream.bytes, &cuts);
                let (got, left) = run_v2_direct(N2Proto::BlockFetch.channel(), &segs);
                judge(&mut ctx, &j, &stream, "direct", "segment-limit-aligned", &cuts, &got, Some(left), &it);
                ctx.count("segment_limit_aligned_streams");
            }
        }
    }

    if std::env::var("PV_DEBUG").is_ok() {
        eprintln!("phase 2 at {:.1}s", ctx.elapsed_s());
    }
    // ---- (2) v2 direct, random splits of longer streams ----------------------------------------
    let n_rand_v2 = ctx.budget(16_000, 1_400_000);
    for i in 0..n_rand_v2 {
        let p = *rng.pick(&N2_PROTOS);
        let Some((stream, _)) = gen_stream_v2(&mut rng, p, 6, 400_000, &mut ctx) else { continue };
        let it = interesting_positions(&stream.bytes);
        let reps = if stream.bytes.len() > 20_000 { 1 } else { 4 };
        for _ in 0..reps {
            let (cuts, class) = gen_cuts(&mut rng, &stream, &it);
            if class == "empty-segment" {
                // first the same cut set without the zero-length segments: a failure there is not about them
                let plain = dedup_cuts(&cuts, stream.bytes.len());
                let segs = segments_of(&stream.bytes, &plain);
                let (got, left) = run_v2_direct(p.channel(), &segs);
                if !judge(&mut ctx, &j, &stream, "direct", "random", &plain, &got, Some(left), &it) {
                    continue;
                }
            }
            let segs = segments_of(&stream.bytes, &cuts);
            let (got, left) = run_v2_direct(p.channel(), &segs);
            judge(&mut ctx, &j, &stream, "direct", class, &cuts, &got, Some(left), &it);
        }
        let _ = i;
    }

    if std::env::var("PV_DEBUG").is_ok() {
        eprintln!("phase 3 at {:.1}s", ctx.elapsed_s());
    }
    // ---- (3) v2 real socket pair, several channels interleaved ---------------------------------
    let n_sock = ctx.budget(2_400, 160_000);
    for i in 0..n_sock {
        let nch = 1 + rng.usize_below(4);
        let mut protos: Vec<N2Proto> = N2_PROTOS.to_vec();
        rng.shuffle(&mut protos);
        let mut streams = vec![];
        for p in protos.into_iter().take(nch) {
            if let Some((s, _)) = gen_stream_v2(&mut rng, p, 5, 150_000, &mut ctx) {
                let it = interesting_positions(&s.bytes);
                let (mut cuts, mut class) = gen_cuts(&mut rng, &s, &it);
                if class == "empty-segment" {
                    let plain = dedup_cuts(&cuts, s.bytes.len());
                    let (got, left) = run_v2_direct(p.channel(), &segments_of(&s.bytes, &plain));
                    if !judge(&mut ctx, &j, &s, "direct", "random", &plain, &got, Some(left), &it) {
                        cuts = plain;
                        class = "random";
                    }
                }
                streams.push((p, s, cuts, class, it));
            }
        }
        if streams.is_empty() {
            continue;
        }
        let plans: Vec<ChanPlan> = streams.iter().map(|(p, s, cuts, _, _)| ChanPlan { channel: p.channel(), segments: segments_of(&s.bytes, cuts), expect: s.msgs.len() }).collect();
        let mut order: Vec<usize> = vec![];
        {
            // random interleaving preserving per-channel order
            let mut remaining: Vec<usize> = plans.iter().map(|p| p.segments.len()).collect();
            loop {
                let alive: Vec<usize> = (0..plans.len()).filter(|k| remaining[*k] > 0).collect();
                if alive.is_empty() {
                    break;
                }
                let k = *rng.pick(&alive);
                let burst = 1 + rng.usize_below(3);
                for _ in 0..burst.min(remaining[k]) {
                    order.push(k);
                    remaining[k] -= 1;
                }
            }
        }
        // mode bit: constant per connection direction; rarely mixed (the reader strips it)
        let mode_bits: Vec<u16> = match rng.below(10) {
            0 => vec![0, 0x8000],
            1..=5 => vec![0x8000],
            _ => vec![0],
        };
        let mixed = mode_bits.len() > 1;
        let (got, left, err) = rt.block_on(run_v2_socket(&plans, &order, &mode_bits, 20));
        if let Some(e) = &err {
            if e.contains("timed out") {
                // all segments are read one by one; a timeout here is not an observation of the property
                ctx.inconclusive(&format!("v2 socket case: {e}"));
                continue;
            }
            ctx.inconclusive(&format!("v2 socket harness error: {e}"));
            continue;
        }
        for (p, s, cuts, class, it) in &streams {
            let g = got.get(&p.channel()).cloned().unwrap_or_default();
            let l = left.get(&p.channel()).copied().unwrap_or(0);
            let mode = if mixed { "socket-mixed-mode-bit" } else { "socket" };
            judge(&mut ctx, &j, s, mode, class, cuts, &g, Some(l), it);
        }
        ctx.max("max_channels_interleaved", streams.len() as u64);
        if i == 0 {
            ctx.sample(json!({"stack": "v2", "mode": "socket", "channels": streams.iter().map(|s| s.0.name()).collect::<Vec<_>>(), "segments": order.len()}));
        }
    }

    if std::env::var("PV_DEBUG").is_ok() {
        eprintln!("phase 4 at {:.1}s", ctx.elapsed_s());
    }
    // ---- (4) v1 plexer pair: exhaustive short streams -----------------------------------------
    let n_short_v1 = ctx.budget(32, 400);
    for i in 0..n_short_v1 {
        let p = N1_PROTOS[((ctx.shard as u64 * 7 + i) % 13) as usize];
        let Some(stream) = gen_stream_v1(&mut rng, p, 3, 64, &mut ctx) else {
            ctx.count("v1_short_stream_not_found");
            continue;
        };
        let Some(sent) = gen_stream_v1(&mut rng, p, 1, 400, &mut ctx) else { continue };
        let sentinel = sent.msgs[0].clone();
        if stream.bytes.len() < 3 {
            continue;
        }
        let mut full_bytes = stream.bytes.clone();
        full_bytes.extend_from_slice(&sentinel.bytes);
        let it = interesting_positions(&full_bytes);
        let mut completed = true;
        for cuts in all_single_and_pair_cuts(stream.bytes.len()) {
            match v1.run(&mut ctx, p, &stream, &sentinel, &cuts) {
                Some((full, got)) => {
                    let ok = judge(&mut ctx, &j, &full, "plexer", if cuts.len() == 1 { "exhaustive-1" } else { "exhaustive-2" }, &cuts, &got, None, &it);
                    if !ok && got.iter().any(|g| matches!(g, Got::Stall)) {
                        completed = false;
                        break;
                    }
                }
                None => {
                    completed = false;
                    break;
                }
            }
        }
        if completed {
            ctx.count("short_streams_exhausted:v1");
            ctx.max("longest_exhausted_stream", stream.bytes.len() as u64);
        }
        if i == 0 {
            ctx.sample(json!({"stack": "v1", "proto": stream.proto, "stream": hexs(&stream.bytes), "messages": stream.msgs.iter().map(|m| m.label.clone()).collect::<Vec<_>>(), "splits": "all single and all pairs, through a Plexer pair"}));
        }
    }

    if std::env::var("PV_DEBUG").is_ok() {
        eprintln!("phase 5 at {:.1}s", ctx.elapsed_s());
    }
    // ---- (5) v1 plexer pair: random splits ------------------------------------------------------
    let n_rand_v1 = ctx.budget(12_000, 300_000);
    for _ in 0..n_rand_v1 {
        let p = *rng.pick(&N1_PROTOS);
        let Some(stream) = gen_stream_v1(&mut rng, p, 5, 200_000, &mut ctx) else { continue };
        let Some(sent) = gen_stream_v1(&mut rng, p, 1, 2_000, &mut ctx) else { continue };
        let sentinel = sent.msgs[0].clone();
        let it = interesting_positions(&stream.bytes);
        let (cuts, class) = gen_cuts(&mut rng, &stream, &it);
        if cuts.len() > 3000 {
            continue;
        }
        if class == "empty-segment" {
            let plain = dedup_cuts(&cuts, stream.bytes.len());
            match v1.run(&mut ctx, p, &stream, &sentinel, &plain) {
                Some((full, got)) => {
                    if !judge(&mut ctx, &j, &full, "plexer", "random", &plain, &got, None, &it) {
                        continue;
                    }
                }
                None => continue,
            }
        }
        if let Some((full, got)) = v1.run(&mut ctx, p, &stream, &sentinel, &cuts) {
            judge(&mut ctx, &j, &full, "plexer", class, &cuts, &got, None, &it);
        }
    }
    ctx.note("exhaustive_short_streams", json!(ctx.stat("short_streams_exhausted:v2") > 0 && ctx.stat("short_streams_exhausted:v1") > 0));
    ctx.finish();
}
