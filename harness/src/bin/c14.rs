//! C14 — constant-time comparisons agree with ordinary comparisons.
//! Oracle: slice `==` / `Ord::cmp`. Length 1: all 2^16 pairs. Length 2: all (d0,d1) difference
//! classes (511x511) x representatives in quick, all 2^32 pairs in thorough. Random longer.
use pallas_crypto::memsec::{memcmp, memeq};
use pv::*;
use std::cmp::Ordering;

fn check(ctx: &mut Ctx, a: &[u8], b: &[u8]) {
    ctx.eval();
    let n = a.len();
    // buffers at the very end of their own allocation so an over-read leaves the allocation
    let ba: Box<[u8]> = a.into();
    let bb: Box<[u8]> = b.into();
    let r = pv::panics::catch(|| unsafe { (memeq(ba.as_ptr(), bb.as_ptr(), n), memcmp(ba.as_ptr(), bb.as_ptr(), n)) });
    match r {
        Err(p) => ctx.violation(&format!("panic:{}", p.site()), &format!("memeq/memcmp panicked on len {n}: {}", p.msg), json!({"a": hexs(a), "b": hexs(b)})),
        Ok((eq, ord)) => {
            if eq != (a == b) {
                let cls = if a == b { "equal-reported-unequal" } else { "unequal-reported-equal" };
                ctx.violation(&format!("memeq:{cls}"), &format!("memeq({},{}) = {eq}", hexs(a), hexs(b)), json!({"a": hexs(a), "b": hexs(b)}));
            }
            if ord != a.cmp(b) {
                let first_diff = a.iter().zip(b.iter()).position(|(x, y)| x != y);
                let cls = match first_diff {
                    None => "equal".to_string(),
                    Some(0) if n == 1 => "len1".to_string(),
                    Some(i) if i == n - 1 => "diff-last".to_string(),
                    Some(0) => "diff-first".to_string(),
                    Some(_) => "diff-middle".to_string(),
                };
                ctx.violation(&format!("memcmp:wrong-order:{cls}"), &format!("memcmp({},{}) = {ord:?}, expected {:?}", hexs(a), hexs(b), a.cmp(b)), json!({"a": hexs(a), "b": hexs(b)}));
            }
            ctx.count(match ord { Ordering::Less => "ord_less", Ordering::Equal => "ord_equal", Ordering::Greater => "ord_greater" });
        }
    }
}

fn main() {
    let mut ctx = Ctx::from_args("C14");
    if let Some(p) = ctx.replay.clone() {
        let v: serde_json::Value = serde_json::from_slice(&std::fs::read(p).unwrap()).unwrap();
        let a = hex::decode(v["replay"]["a"].as_str().unwrap()).unwrap();
        let b = hex::decode(v["replay"]["b"].as_str().unwrap()).unwrap();
        check(&mut ctx, &a, &b);
        println!("replayed: violations={}", ctx.n_violations());
        ctx.finish();
    }
    // length 1: exhaustive, split over shards by first byte
    for x in 0..=255u8 {
        if !ctx.owns(x as u64) { continue; }
        for y in 0..=255u8 {
            check(&mut ctx, &[x], &[y]);
            if x != y { ctx.nontrivial(fp(&[1, x, y])); }
        }
    }
    ctx.note("len1_exhaustive", json!(true));
    // length 2
    if ctx.quick() {
        // all (d0, d1) in [-255,255]^2 classes, 4 representatives each
        let mut idx = 0u64;
        for d0 in -255i32..=255 {
            for d1 in -255i32..=255 {
                idx += 1;
                if !ctx.owns(idx) { continue; }
                for _ in 0..4 {
                    let a0 = ctx.rng.range(d0.max(0) as u64, (255 + d0.min(0)) as u64) as i32;
                    let a1 = ctx.rng.range(d1.max(0) as u64, (255 + d1.min(0)) as u64) as i32;
                    let a = [a0 as u8, a1 as u8];
                    let b = [(a0 - d0) as u8, (a1 - d1) as u8];
                    check(&mut ctx, &a, &b);
                    if d1 != 0 { ctx.nontrivial(fp(&[2, a[0], a[1], b[0], b[1]])); }
                }
                ctx.count("len2_difference_classes");
            }
        }
    } else {
        // all 2^32 pairs; (a0,a1) split over shards
        for a in 0..=65535u32 {
            if !ctx.owns(a as u64) { continue; }
            let av = [(a >> 8) as u8, a as u8];
            for b in 0..=65535u32 {
                let bv = [(b >> 8) as u8, b as u8];
                // inline fast path: no catch_unwind per pair (2^32 of them); a panic aborts the shard -> harness failure -> reported
                let (eq, ord) = unsafe { (memeq(av.as_ptr(), bv.as_ptr(), 2), memcmp(av.as_ptr(), bv.as_ptr(), 2)) };
                if eq != (av == bv) || ord != av.cmp(&bv) {
                    check(&mut ctx, &av, &bv);
                }
            }
            ctx.evals(65536);
            ctx.add("len2_pairs", 65536);
            ctx.nontrivial(fp(&[3, av[0], av[1]]));
        }
        ctx.note("len2_exhaustive", json!(true));
    }
    // random longer, with long common prefixes / suffixes
    let n = ctx.budget(400_000, 40_000_000);
    for i in 0..n {
        let len = 3 + ctx.rng.usize_below(254);
        let a = ctx.rng.bytes(len);
        let mut b = a.clone();
        match ctx.rng.below(6) {
            0 => {}
            1 => { let k = ctx.rng.usize_below(len); b[k] = ctx.rng.next_u8(); }
            2 => { let k = ctx.rng.usize_below(len); b[k] = b[k].wrapping_add(1); let j = ctx.rng.usize_below(len); b[j] = b[j].wrapping_sub(1); }
            3 => { b[len - 1] ^= 1 << ctx.rng.below(8); }
            4 => { let k = ctx.rng.usize_below(len); for j in k..len { b[j] = ctx.rng.next_u8(); } }
            _ => { b = ctx.rng.bytes(len); }
        }
        check(&mut ctx, &a, &b);
        if a != b {
            let fd = a.iter().zip(b.iter()).position(|(x, y)| x != y).unwrap();
            if fd != 0 { ctx.nontrivial(fp_mix(fp(&a), fp(&b))); }
            ctx.max("longest_common_prefix", fd as u64);
        }
        if i < 2 { ctx.sample(json!({"a": hex_short(&a), "b": hex_short(&b), "expected": format!("{:?}", a.cmp(&b))})); }
    }
    ctx.finish();
}
