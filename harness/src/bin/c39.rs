//! C39 — sequence validation updates certificate state atomically.
//!
//! For a sequence of transactions, `validate_txs(seq, env, utxos, &mut state)` is compared with the reference
//! "apply `validate_tx(tx_i, i, ..)` one by one on a copy, stop at the first error":
//!   * reference fails  => validate_txs must fail and the caller's CertState must equal the snapshot taken
//!     before the call (field-wise over all nine public maps of DState / PState);
//!   * reference succeeds => validate_txs must succeed and the caller's state must equal the reference state.
//! Sequences (length 1..8) are drawn from the re-keyed Shelley / Allegra / Mary fixtures (ttl lifted so that they
//! share one environment; three of them carry certificates: pool registration, stake registration + delegation,
//! MIR), failing variants of them (bad signature, value imbalance, ttl expired, fee 0 — failing before / inside /
//! after the certificate rules) and Alonzo fixtures (wrong era for the Shelley parameters). Initial states: empty,
//! the presets of the tests, random extra entries. Certificate-dependent failures (second registration of the same
//! key, delegation to a missing pool) arise from the order.
use pallas_crypto::hash::Hash;
use pallas_primitives::alonzo::StakeCredential;
use pallas_traverse::{Era, MultiEraTx};
use pallas_validate::phase1::{validate_tx, validate_txs};
use pallas_validate::utils::{CertState, PoolParam};
use pv::cbor::Node;
use pv::fixtures::*;
use pv::*;
use std::collections::BTreeMap;

type Snap = BTreeMap<&'static str, Vec<String>>;

fn snap(cs: &CertState) -> Snap {
    let mut m: Snap = BTreeMap::new();
    let mut put = |k: &'static str, mut v: Vec<String>| {
        v.sort();
        m.insert(k, v);
    };
    let d = &cs.dstate;
    put("dstate.rewards", d.rewards.iter().map(|(k, v)| format!("{k:?} -> {v}")).collect());
    put("dstate.delegations", d.delegations.iter().map(|(k, v)| format!("{k:?} -> {v}")).collect());
    put("dstate.ptrs", d.ptrs.iter().map(|(k, v)| format!("{}/{}/{} -> {v:?}", k.slot, k.tx_ix, k.cert_ix)).collect());
    put("dstate.fut_gen_delegs", d.fut_gen_delegs.iter().map(|(k, v)| format!("{}/{:?} -> {:?}/{}", k.0, k.1, v.0, v.1)).collect());
    put("dstate.gen_delegs", d.gen_delegs.iter().map(|(k, v)| format!("{k:?} -> {:?}/{}", v.0, v.1)).collect());
    put("dstate.inst_rewards.reserves", d.inst_rewards.0.iter().map(|(k, v)| format!("{k:?} -> {v}")).collect());
    put("dstate.inst_rewards.treasury", d.inst_rewards.1.iter().map(|(k, v)| format!("{k:?} -> {v}")).collect());
    let p = &cs.pstate;
    put("pstate.pool_params", p.pool_params.iter().map(|(k, v)| format!("{k} -> {v:?}")).collect());
    put("pstate.fut_pool_params", p.fut_pool_params.iter().map(|(k, v)| format!("{k} -> {v:?}")).collect());
    put("pstate.retiring", p.retiring.iter().map(|(k, v)| format!("{k} -> {v}")).collect());
    m
}

fn first_diff(a: &Snap, b: &Snap) -> Option<&'static str> {
    a.iter().find(|(k, v)| b.get(*k) != Some(v)).map(|(k, _)| *k)
}

fn pool_param(rng: &mut Rng) -> PoolParam {
    PoolParam {
        vrf_keyhash: Hash::<32>::from(rng.array::<32>()),
        pledge: rng.below(1 << 40),
        cost: 340_000_000 + rng.below(1000),
        margin: pallas_primitives::alonzo::RationalNumber { numerator: rng.below(100), denominator: 100 },
        reward_account: { let mut v = vec![0xe1u8]; v.extend(rng.bytes(28)); v.into() },
        pool_owners: vec![Hash::<28>::from(rng.array::<28>())],
        relays: vec![],
        pool_metadata: None,
    }
}

fn cred(rng: &mut Rng) -> StakeCredential {
    if rng.chance(1, 4) {
        StakeCredential::ScriptHash(Hash::<28>::from(rng.array::<28>()))
    } else {
        StakeCredential::AddrKeyhash(Hash::<28>::from(rng.array::<28>()))
    }
}

struct Elem {
    label: String,
    era: Era,
    tx: Vec<u8>,
}

fn initial_state(rng: &mut Rng, fx: &[Fixture], label: &mut String) -> CertState {
    let mut cs = CertState::default();
    let mode = rng.below(4);
    // presets of the tests (mary2 needs its reward account registered, mary3 its pool)
    if mode >= 1 {
        for f in fx {
            if rng.bool() {
                let p = f.cert_state();
                cs.dstate.rewards.extend(p.dstate.rewards);
                cs.pstate.pool_params.extend(p.pstate.pool_params);
            }
        }
        label.push_str("presets");
    }
    if mode >= 2 {
        for _ in 0..rng.below(6) {
            cs.dstate.rewards.insert(cred(rng), rng.below(3) * rng.below(1_000_000));
        }
        for _ in 0..rng.below(4) {
            cs.dstate.delegations.insert(cred(rng), Hash::<28>::from(rng.array::<28>()));
        }
        for _ in 0..rng.below(4) {
            cs.pstate.pool_params.insert(Hash::<28>::from(rng.array::<28>()), pool_param(rng));
        }
        for _ in 0..rng.below(3) {
            cs.pstate.fut_pool_params.insert(Hash::<28>::from(rng.array::<28>()), pool_param(rng));
        }
        for _ in 0..rng.below(3) {
            cs.pstate.retiring.insert(Hash::<28>::from(rng.array::<28>()), rng.below(500));
        }
        for _ in 0..rng.below(3) {
            cs.dstate.inst_rewards.0.insert(cred(rng), rng.below(1_000_000));
            cs.dstate.inst_rewards.1.insert(cred(rng), rng.below(1_000_000));
        }
        for _ in 0..rng.below(3) {
            cs.dstate.gen_delegs.insert(rng.bytes(28).into(), (rng.bytes(28).into(), Hash::<32>::from(rng.array::<32>())));
        }
        label.push_str("+random");
    }
    if mode == 0 {
        label.push_str("empty");
    }
    cs
}

fn run_case(ctx: &mut Ctx, fx: &[Fixture], pool: &[Elem], env: &EnvSpec, seq: &[usize], init: &CertState, init_label: &str) {
    // one UTxO for all
    let mut entries: Vec<UtxoEntry> = vec![];
    for f in fx {
        entries.extend(f.utxo.iter().cloned());
    }
    let store = UtxoStore::new(&entries, OutStyle::AlonzoCompat);
    let utxos = match store.utxos() {
        Ok(u) => u,
        Err(e) => {
            ctx.inconclusive(&format!("utxo table: {e}"));
            return;
        }
    };
    let mut txs: Vec<MultiEraTx> = vec![];
    for &i in seq {
        match MultiEraTx::decode_for_era(pool[i].era, &pool[i].tx) {
            Ok(t) => txs.push(t),
            Err(e) => {
                ctx.inconclusive(&format!("{} does not decode: {e}", pool[i].label));
                return;
            }
        }
    }
    let envv = env.build();
    let labels: Vec<&str> = seq.iter().map(|i| pool[*i].label.as_str()).collect();
    let replay = json!({"sequence": labels, "initial": init_label});
    // ---- reference: one by one on a copy
    let before = snap(init);
    let mut ref_state = init.clone();
    let mut ref_err: Option<(usize, String)> = None;
    let mut changed_before_failure = false;
    let r = panics::catch(|| {
        for (i, t) in txs.iter().enumerate() {
            let pre = snap(&ref_state);
            let mut tmp = ref_state.clone();
            match validate_tx(t, i as u32, &envv, &utxos, &mut tmp) {
                Ok(()) => {
                    ref_state = tmp;
                    if snap(&ref_state) != pre {
                        changed_before_failure = true;
                    }
                }
                Err(e) => {
                    ref_err = Some((i, format!("{e:?}")));
                    break;
                }
            }
        }
    });
    if let Err(p) = r {
        ctx.violation(&format!("panic:validate_tx:{}", p.site()), &format!("validate_tx panicked ({}) in sequence {:?}", p.msg, labels), replay);
        return;
    }
    let state_changing_prefix = changed_before_failure;
    // ---- system under test
    let mut st = init.clone();
    let got = panics::catch(|| validate_txs(&txs, &envv, &utxos, &mut st).map_err(|e| format!("{e:?}")));
    ctx.eval();
    let after = snap(&st);
    ctx.max("longest_sequence", seq.len() as u64);
    let got = match got {
        Ok(g) => g,
        Err(p) => {
            ctx.violation(&format!("panic:validate_txs:{}", p.site()), &format!("validate_txs panicked ({}) in sequence {:?}", p.msg, labels), replay);
            return;
        }
    };
    match (&ref_err, &got) {
        (Some((pos, e)), Err(g)) => {
            ctx.count("sequences_failing");
            ctx.set_insert("failure_kinds", e.split('(').nth(1).unwrap_or(e).trim_end_matches(')'));
            ctx.count(&format!("failing_position_{pos}"));
            if state_changing_prefix {
                ctx.count("failing_after_state_change");
                ctx.nontrivial(fp(format!("{labels:?}|{init_label}|{}", before.values().map(|v| v.len()).sum::<usize>()).as_bytes()));
            }
            if let Some(field) = first_diff(&before, &after) {
                ctx.violation(
                    &format!("C39:err-state-changed:{}", if state_changing_prefix { "after-state-changing-prefix" } else { "by-failing-tx" }),
                    &format!("validate_txs failed ({g}) at element {pos} of {:?} (initial state: {init_label}) but the caller's CertState changed: field {field} was {:?}, is {:?}", labels, before.get(field), after.get(field)),
                    replay,
                );
            } else if g != e {
                ctx.count("error_differs_from_sequential");
            }
        }
        (None, Ok(())) => {
            ctx.count("sequences_ok");
            let want = snap(&ref_state);
            if want != before {
                ctx.count("ok_sequences_with_state_change");
                ctx.nontrivial(fp(format!("ok|{labels:?}|{init_label}").as_bytes()));
            }
            if let Some(field) = first_diff(&want, &after) {
                ctx.violation(
                    "C39:ok-state-differs-from-sequential",
                    &format!("validate_txs succeeded on {:?} (initial state: {init_label}) but field {field} is {:?}, one-by-one validate_tx gives {:?}", labels, after.get(field), want.get(field)),
                    replay,
                );
            }
        }
        (Some((pos, e)), Ok(())) => {
            ctx.violation("C39:ok-but-sequential-fails", &format!("validate_txs succeeded on {:?} although validate_tx fails at element {pos} with {e}", labels), replay);
        }
        (None, Err(g)) => {
            ctx.violation("C39:err-but-sequential-ok", &format!("validate_txs failed ({g}) on {:?} although every element validates one by one", labels), replay);
        }
    }
    if ctx.want_sample() && seq.len() > 2 {
        ctx.sample(json!({"sequence": labels, "initial": init_label, "reference": ref_err.as_ref().map(|(p, e)| format!("fails at {p}: {e}")).unwrap_or("ok".into()), "state_fields_changed_by_reference": snap(&ref_state).iter().filter(|(k, v)| before.get(*k) != Some(v)).map(|(k, _)| *k).collect::<Vec<_>>()}));
    }
}

fn build_pool(fx: &[Fixture], alonzo: &[Fixture], slot: u64) -> Vec<Elem> {
    let mut pool = vec![];
    for f in fx {
        let short = f.file;
        let base = f.tx_bytes.clone();
        pool.push(Elem { label: format!("{short}"), era: f.era, tx: base.clone() });
        // failing variants
        let ws = vkey_witnesses(&base);
        if !ws.is_empty() {
            // every witness is corrupted (a single late one would not be noticed: C35 finding)
            let mut w2 = ws.clone();
            for w in w2.iter_mut() {
                w.1[5] ^= 0x10;
            }
            pool.push(Elem { label: format!("{short}:bad-signature"), era: f.era, tx: set_vkey_witnesses(&base, &w2) });
        }
        if output_count(&base) > 0 {
            pool.push(Elem { label: format!("{short}:value+1"), era: f.era, tx: f.resign(&set_output_coin(&base, 0, output_coin(&base, 0) + 1)) });
            let fe = fee(&base);
            pool.push(Elem { label: format!("{short}:fee=0"), era: f.era, tx: f.resign(&set_output_coin(&set_fee(&base, 0), 0, output_coin(&base, 0) + fe)) });
        }
        pool.push(Elem { label: format!("{short}:ttl-expired"), era: f.era, tx: f.resign(&body_set(&base, 3, Some(Node::u(slot - 1)))) });
    }
    for f in alonzo {
        pool.push(Elem { label: format!("{}:wrong-era", f.file), era: Era::Alonzo, tx: f.tx_bytes.clone() });
    }
    pool
}

fn main() {
    let mut ctx = Ctx::from_args("C39");
    let slot = 19282133u64;
    // Shelley-MA fixtures, re-keyed, ttl lifted so that one environment fits all
    let all = usable_rekeyed();
    let mut fx: Vec<Fixture> = vec![];
    for f in all.iter().filter(|f| matches!(f.era, Era::Shelley | Era::Allegra | Era::Mary)) {
        let mut g = f.clone();
        if body_get(&g.tx_bytes, 3).and_then(|n| node_u64(&n)).map(|t| t < slot).unwrap_or(false) {
            g.tx_bytes = g.resign(&body_set(&g.tx_bytes, 3, Some(Node::u(slot + 10))));
        }
        fx.push(g);
    }
    let alonzo: Vec<Fixture> = all.iter().filter(|f| f.era == Era::Alonzo && !f.plutus).cloned().collect();
    let mut env = all.iter().find(|f| f.file == "allegra1").map(|f| f.env.clone()).unwrap_or_else(|| fx[0].env.clone());
    env.block_slot = slot;
    env.set_max_tx_size(16384);
    let pool = build_pool(&fx, &alonzo, slot);
    // which elements are valid alone (from the empty state / their preset)?
    let mut valid_alone = vec![];
    let mut cert_elems = vec![];
    for (i, e) in pool.iter().enumerate() {
        let f = fx.iter().chain(alonzo.iter()).find(|f| e.label.starts_with(f.file)).unwrap();
        let mut cs = f.cert_state();
        let b = snap(&cs);
        let v = f.validate_full(&e.tx, &f.utxo, &env, &mut cs);
        if v.accepted() {
            valid_alone.push(i);
            if snap(&cs) != b {
                cert_elems.push(i);
            }
        }
        ctx.set_insert("pool", &format!("{} -> alone: {}{}", e.label, v.label(), if v.accepted() && snap(&cs) != b { " (changes the certificate state)" } else { "" }));
    }
    if let Some(p) = ctx.replay.clone() {
        let v: serde_json::Value = serde_json::from_slice(&std::fs::read(p).unwrap()).unwrap();
        let labels: Vec<String> = v["replay"]["sequence"].as_array().unwrap().iter().map(|x| x.as_str().unwrap().to_string()).collect();
        let seq: Vec<usize> = labels.iter().map(|l| pool.iter().position(|e| e.label == *l).expect("element")).collect();
        let mut cs = CertState::default();
        if v["replay"]["initial"].as_str().unwrap_or("").contains("presets") {
            for f in &fx {
                let p = f.cert_state();
                cs.dstate.rewards.extend(p.dstate.rewards);
                cs.pstate.pool_params.extend(p.pstate.pool_params);
            }
        }
        run_case(&mut ctx, &fx, &pool, &env, &seq, &cs, "replay(all presets or empty; random extras are not reproduced)");
        println!("replayed {:?}: violations={}", labels, ctx.n_violations());
        ctx.finish();
    }
    if cert_elems.is_empty() || valid_alone.len() < 3 {
        ctx.inconclusive("no state-changing fixture is valid in the common environment");
        ctx.finish();
    }
    ctx.add("pool_elements", if ctx.shard == 0 { pool.len() as u64 } else { 0 });
    ctx.add("state_changing_elements", if ctx.shard == 0 { cert_elems.len() as u64 } else { 0 });

    // ---- systematic part: every state-changing element followed by every pool element (failing at position 1), and
    //      every failing element at every position of a fixed valid sequence ---------------------------------
    let mut idx = 0u64;
    let mut all_presets = CertState::default();
    for f in &fx {
        let p = f.cert_state();
        all_presets.dstate.rewards.extend(p.dstate.rewards);
        all_presets.pstate.pool_params.extend(p.pstate.pool_params);
    }
    for &c in &cert_elems {
        for j in 0..pool.len() {
            idx += 1;
            if !ctx.owns(idx) {
                continue;
            }
            run_case(&mut ctx, &fx, &pool, &env, &[c, j], &all_presets, "presets(all)");
            ctx.count("systematic_pairs");
        }
    }
    let mut chain: Vec<usize> = cert_elems.clone();
    for &i in &valid_alone {
        if chain.len() >= 7 {
            break;
        }
        if !chain.contains(&i) {
            chain.push(i);
        }
    }
    for j in 0..pool.len() {
        for pos in 0..=chain.len() {
            idx += 1;
            if !ctx.owns(idx) {
                continue;
            }
            let mut s = chain.clone();
            s.insert(pos, j);
            run_case(&mut ctx, &fx, &pool, &env, &s, &all_presets, "presets(all)");
            ctx.count("systematic_insertions");
        }
    }
    ctx.note("systematic_part_complete", json!(true));

    // ---- random sequences ---------------------------------------------------------------------------------
    let n = ctx.budget(5_000, 500_000);
    for _ in 0..n {
        let len = 1 + ctx.rng.usize_below(8);
        let mut seq = vec![];
        for _ in 0..len {
            let i = match ctx.rng.below(10) {
                0..=3 => *ctx.rng.pick(&cert_elems),
                4..=6 => *ctx.rng.pick(&valid_alone),
                _ => ctx.rng.usize_below(pool.len()),
            };
            seq.push(i);
        }
        // the 8 kB MIR transaction is ten times as expensive as the others: thin it out
        if seq.iter().filter(|i| pool[**i].tx.len() > 6000).count() > 2 && ctx.rng.chance(3, 4) {
            continue;
        }
        let mut label = String::new();
        let mut rng = ctx.rng.clone();
        let init = initial_state(&mut rng, &fx, &mut label);
        ctx.rng = rng;
        run_case(&mut ctx, &fx, &pool, &env, &seq, &init, &label);
        ctx.count("random_sequences");
    }
    ctx.finish();
}
