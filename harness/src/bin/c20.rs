//! C20 — the multiplexer delivers each protocol's chunks in order, exactly once.
//!
//! Deciding step: an offline-style history checker (`pv::plexhist::check`) over events
//! recorded at the client boundary (enqueue logged before the call, dequeue after the return,
//! one atomic clock). Workload: many short concurrent histories over a real socket pair.
//!   v1: two `pallas_network::multiplexer::Plexer`s, agents calling
//!       `AgentChannel::{enqueue_chunk,dequeue_chunk}` (both roles, both directions);
//!   v2: `pallas_network2::bearer::BearerWriteHalf::write_message` /
//!       `BearerReadHalf::read_full_msgs` with an own `Message` type, units of several
//!       channels interleaved (also at fragment granularity).
//! Harness deadlock freedom (bounded queues of 100 in multiplexer.rs): an agent either never
//! has more than 90 chunks destined to it in a history, or it is a pure receiver.
use futures::FutureExt;
use pallas_network::multiplexer as mx;
use pallas_network2::bearer as b2;
use pv::plexhist::*;
use pv::*;
use std::collections::{HashMap, HashSet};
use std::future::Future;
use std::sync::atomic::{AtomicBool, Ordering};
use std::sync::{Arc, Mutex};
use std::time::{Duration, Instant};
use tokio::sync::Notify;

// ---------------------------------------------------------------------------------------
// panics on any thread (tokio workers included)

static PANICS: Mutex<Vec<pv::panics::PanicInfo>> = Mutex::new(Vec::new());

fn install_global_panic_record() {
    let prev = std::panic::take_hook();
    std::panic::set_hook(Box::new(move |info| {
        prev(info);
        if let Some(p) = pv::panics::take_last() {
            if let Ok(mut g) = PANICS.lock() {
                g.push(p);
            }
        }
    }));
}

fn take_panics() -> Vec<pv::panics::PanicInfo> {
    PANICS.lock().map(|mut g| std::mem::take(&mut *g)).unwrap_or_default()
}

// ---------------------------------------------------------------------------------------
// stall monitor

const TICK: Duration = Duration::from_millis(50);
const GO_AFTER_TICKS: u32 = 4;
/// loss is declared after this many consecutive ticks without any event while all senders have
/// returned Ok: 2 s when the end-of-history probes (enqueued after every sender returned) have
/// crossed the bearer in both directions, 20 s otherwise.
const LOSS_TICKS_PROBED: u32 = 40;
const LOSS_TICKS: u32 = 400;
const HARD_WALL: Duration = Duration::from_secs(600);

/// On an overloaded machine (1-minute load average above the CPU count) all stall thresholds are
/// stretched proportionally (up to 10x), so that starvation by other processes is never read as loss.
fn load_factor() -> u32 {
    let ncpu = std::thread::available_parallelism().map(|n| n.get()).unwrap_or(1) as f64;
    let load = std::fs::read_to_string("/proc/loadavg").ok().and_then(|s| s.split_whitespace().next().and_then(|x| x.parse::<f64>().ok())).unwrap_or(0.0);
    (load / ncpu).clamp(1.0, 10.0).ceil() as u32
}
const PATIENCE: Duration = Duration::from_secs(2);

struct Mon {
    last: u64,
    stalled: u32,
    cpu0: u64,
    t0: Instant,
    start: Instant,
    factor: u32,
}

impl Mon {
    fn new(sh: &Shared) -> Mon {
        Mon { last: sh.progress(), stalled: 0, cpu0: pv::ctx::process_cpu_ms(), t0: Instant::now(), start: Instant::now(), factor: 1 }
    }
}

#[derive(Debug)]
enum Stop {
    Loss,
    Watchdog(String),
    Broken,
}

async fn watch<F: Future + Unpin>(fut: &mut F, sh: &Shared, mon: &mut Mon, go: &Notify, go_sent: &mut bool, probe_ok: &AtomicBool) -> Result<F::Output, Stop> {
    loop {
        tokio::select! {
            biased;
            out = &mut *fut => return Ok(out),
            _ = tokio::time::sleep(TICK) => {
                let c = sh.progress();
                if c != mon.last {
                    mon.last = c;
                    mon.stalled = 0;
                    mon.factor = 1;
                    mon.cpu0 = pv::ctx::process_cpu_ms();
                    mon.t0 = Instant::now();
                } else {
                    mon.stalled += 1;
                }
                if sh.broken.load(Ordering::SeqCst) {
                    return Err(Stop::Broken);
                }
                if mon.start.elapsed() > HARD_WALL {
                    return Err(Stop::Watchdog("history exceeded 600 s wall-clock".into()));
                }
                let senders_done = sh.sends_remaining.load(Ordering::SeqCst) == 0;
                if mon.stalled >= GO_AFTER_TICKS && senders_done && !*go_sent {
                    *go_sent = true;
                    go.notify_one();
                }
                let base = if probe_ok.load(Ordering::SeqCst) { LOSS_TICKS_PROBED } else { LOSS_TICKS };
                if mon.stalled >= base && mon.stalled % 20 == 0 {
                    mon.factor = mon.factor.max(load_factor());
                }
                let need = base * mon.factor;
                if mon.stalled >= need {
                    if !senders_done {
                        return Err(Stop::Watchdog("no progress for 20 s (x load factor) while some enqueue call had not returned".into()));
                    }
                    // the ticks prove the runtime was scheduled all along; additionally require the
                    // process to have been idle (nothing spinning) during the window
                    let cpu = pv::ctx::process_cpu_ms().saturating_sub(mon.cpu0);
                    let wall = mon.t0.elapsed().as_millis() as u64;
                    if cpu * 2 < wall {
                        return Err(Stop::Loss);
                    }
                    if mon.stalled >= 3 * need {
                        return Err(Stop::Watchdog("no progress for a long time but the process was busy".into()));
                    }
                }
            }
        }
    }
}

// ---------------------------------------------------------------------------------------
// shared spec pieces

#[derive(Clone, Copy, PartialEq, Debug)]
enum RtKind {
    Multi(usize),
    Current,
}
#[derive(Clone, Copy, PartialEq, Debug)]
enum BearerKind {
    Unix,
    Tcp,
}

const EDGE: [u32; 17] = [0, 1, 7, 8, 9, 15, 16, 17, 255, 256, 257, 4095, 4096, 32767, 32768, 65534, 65535];
const PROTO_POOL: [u16; 19] = [0, 1, 2, 3, 4, 5, 6, 7, 8, 9, 10, 0x7fff, 0x7ffe, 0x4000, 0x00ff, 0x0100, 0x0101, 0x1234, 0x3412];

fn pick_proto(r: &mut Rng, used: &mut HashSet<u16>) -> u16 {
    loop {
        let p = if r.chance(3, 4) { *r.pick(&PROTO_POOL) } else { (r.next_u32() & 0x7fff) as u16 };
        if used.insert(p) {
            return p;
        }
    }
}

fn log_uniform(r: &mut Rng, max: u32) -> u32 {
    let bits = 1 + r.below(32 - max.leading_zeros() as u64) as u32;
    let v = r.next_u32() >> (32 - bits);
    v.min(max)
}

fn pick_len(r: &mut Rng, profile: u64, budget: &mut i64) -> u32 {
    let l = match profile {
        0 => r.below(18) as u32,
        1 => *r.pick(&EDGE),
        2 => match r.below(8) {
            0 => 0,
            1 => 1,
            2 => 7,
            3 => 8,
            4 => 9,
            5 => 65534,
            6 => 65535,
            _ => log_uniform(r, 65535),
        },
        3 => 60000 + r.below(5536) as u32,
        _ => log_uniform(r, 4000),
    };
    let l = if (*budget) < l as i64 { l.min(r.below(48) as u32) } else { l };
    *budget -= l as i64;
    l
}

fn pick_rt(r: &mut Rng) -> RtKind {
    if r.bool() {
        RtKind::Multi(2 + r.usize_below(7))
    } else {
        RtKind::Current
    }
}

fn build_rt(k: RtKind) -> std::io::Result<tokio::runtime::Runtime> {
    match k {
        RtKind::Multi(n) => tokio::runtime::Builder::new_multi_thread().worker_threads(n).enable_all().build(),
        RtKind::Current => tokio::runtime::Builder::new_current_thread().enable_all().build(),
    }
}

#[derive(Debug)]
enum End {
    Done,
    Loss,
    Watchdog(String),
    Broken(String),
    Setup(String),
}

struct Outcome {
    end: End,
    probe_ok: bool,
}

// ---------------------------------------------------------------------------------------
// v1: Plexer pair

#[derive(Clone, Debug)]
enum Op {
    Send { seq: u32, len: u32, kind: u8 },
    /// block until this agent has received at least `k` chunks in total
    Recv(u32),
    Drain,
    Yield(u8),
    SleepUs(u32),
}

#[derive(Clone, Debug)]
struct AgentSpec {
    ep: u8,
    proto: u16,
    is_client: bool,
    out_sid: u16,
    in_sid: u16,
    n_in: usize,
    script: Vec<Op>,
}

struct V1Spec {
    nonce: u32,
    rt: RtKind,
    bearer: BearerKind,
    agents: Vec<AgentSpec>,
    streams: Vec<StreamSpec>,
    ctl_proto: u16,
    ctl_sids: [u16; 4], // A.client->B.server, (reverse slot), B.client->A.server, (reverse slot)
    total_sends: usize,
    desc: String,
}

#[derive(Clone, Copy)]
enum LinEv {
    SF,
    RF,
    SR,
    RR,
}

fn decorate(r: &mut Rng, base: Vec<Op>, py: u64, ps: u64) -> Vec<Op> {
    let mut out = Vec::with_capacity(base.len() * 2);
    for op in base {
        let op = match op {
            Op::Recv(_) if r.chance(1, 12) => Op::Drain,
            o => o,
        };
        out.push(op);
        if py > 0 && r.chance(py, 16) {
            out.push(Op::Yield(1 + r.below(3) as u8));
        }
        if ps > 0 && r.chance(ps, 256) {
            out.push(Op::SleepUs(20 + r.below(400) as u32));
        }
    }
    out
}

fn gen_v1(hseed: u64) -> V1Spec {
    let mut r = Rng::derive(hseed, "c20-v1", 0);
    let nonce = r.next_u32();
    let rt = pick_rt(&mut r);
    let bearer = if r.chance(7, 10) { BearerKind::Unix } else { BearerKind::Tcp };
    let mut used = HashSet::new();
    let nproto = 1 + r.usize_below(6);
    let mut pairs: Vec<(u16, u8)> = Vec::new();
    for _ in 0..nproto {
        let p = pick_proto(&mut r, &mut used);
        match r.below(5) {
            0 | 1 => pairs.push((p, 0)),
            2 | 3 => pairs.push((p, 1)),
            _ => {
                pairs.push((p, 0));
                pairs.push((p, 1));
            }
        }
    }
    pairs.truncate(8);
    let ctl_proto = pick_proto(&mut r, &mut used);
    let mut budget: i64 = *r.pick(&[200_000i64, 1_500_000, 6_000_000]);
    let count_scale = *r.pick(&[1usize, 1, 2, 4]); // many histories are short
    let mut agents = Vec::new();
    let mut streams = Vec::new();
    let mut total_sends = 0usize;
    let mut shapes = String::new();
    for (i, &(proto, client_ep)) in pairs.iter().enumerate() {
        let (sid_f, sid_r) = (2 * i as u16, 2 * i as u16 + 1);
        streams.push(StreamSpec { sid: sid_f, pair: i as u16, proto, dir: "c2s", from_ep: client_ep });
        streams.push(StreamSpec { sid: sid_r, pair: i as u16, proto, dir: "s2c", from_ep: 1 - client_ep });
        let uni_count = |r: &mut Rng| -> usize {
            let n = match r.below(10) {
                0..=2 => 1 + r.usize_below(10),
                3..=6 => 10 + r.usize_below(50),
                _ => 60 + r.usize_below(141),
            };
            (n / count_scale).max(1)
        };
        let (nf, nr) = match r.below(4) {
            0 => (uni_count(&mut r), 0),
            1 => (0, uni_count(&mut r)),
            _ => ((1 + r.usize_below(90) / count_scale).min(90), (1 + r.usize_below(90) / count_scale).min(90)),
        };
        // chunk lists (the last chunk of a non-empty stream is its fence)
        let mut mk = |r: &mut Rng, n: usize| -> Vec<Op> {
            let profile = r.below(5);
            let mut v = Vec::new();
            for k in 0..n {
                if k + 1 == n {
                    let len = 16 + r.below(48) as u32;
                    budget -= len as i64;
                    v.push(Op::Send { seq: k as u32, len, kind: KIND_FENCE });
                } else {
                    v.push(Op::Send { seq: k as u32, len: pick_len(r, profile, &mut budget), kind: KIND_DATA });
                }
            }
            v
        };
        let lf = mk(&mut r, nf);
        let lr = mk(&mut r, nr);
        total_sends += nf + nr;
        // linearization of (send forward, recv forward, send reverse, recv reverse)
        let style = r.below(4);
        let mut lin: Vec<LinEv> = Vec::new();
        match style {
            0 => {} // free running: sends only, receives happen in the final phase
            1 => {
                for k in 0..nf.max(nr) {
                    if k < nf {
                        lin.push(LinEv::SF);
                        lin.push(LinEv::RF);
                    }
                    if k < nr {
                        lin.push(LinEv::SR);
                        lin.push(LinEv::RR);
                    }
                }
            }
            2 => {
                let (mut sf, mut rf, mut sr, mut rr) = (0, 0, 0, 0);
                while rf < nf || rr < nr {
                    let mut en = Vec::new();
                    if sf < nf {
                        en.push(LinEv::SF);
                    }
                    if rf < sf {
                        en.push(LinEv::RF);
                    }
                    if sr < nr {
                        en.push(LinEv::SR);
                    }
                    if rr < sr {
                        en.push(LinEv::RR);
                    }
                    let e = *r.pick(&en);
                    match e {
                        LinEv::SF => sf += 1,
                        LinEv::RF => rf += 1,
                        LinEv::SR => sr += 1,
                        LinEv::RR => rr += 1,
                    }
                    lin.push(e);
                }
            }
            _ => {
                let (mut sf, mut sr) = (0, 0);
                while sf < nf || sr < nr {
                    let b = (1 + r.usize_below(10)).min(nf - sf);
                    for _ in 0..b {
                        lin.push(LinEv::SF);
                    }
                    for _ in 0..b {
                        lin.push(LinEv::RF);
                    }
                    sf += b;
                    let b = (1 + r.usize_below(10)).min(nr - sr);
                    for _ in 0..b {
                        lin.push(LinEv::SR);
                    }
                    for _ in 0..b {
                        lin.push(LinEv::RR);
                    }
                    sr += b;
                }
            }
        }
        let (mut cs, mut ss) = (Vec::new(), Vec::new());
        if style == 0 {
            cs = lf.clone();
            ss = lr.clone();
            // a pure receiver sometimes paces itself (slow consumer => queues fill up)
            if nf == 0 && r.bool() {
                cs = (1..=nr as u32).map(Op::Recv).collect();
                // rarely the receiver is away for longer than any housekeeping interval while more chunks
                // than the queues hold are on their way
                if nr >= 130 && r.chance(1, 5) {
                    cs.insert(0, Op::SleepUs(2_400_000));
                }
            }
            if nr == 0 && r.bool() {
                ss = (1..=nf as u32).map(Op::Recv).collect();
                if nf >= 130 && r.chance(1, 5) {
                    ss.insert(0, Op::SleepUs(2_400_000));
                }
            }
        } else {
            let (mut fi, mut ri) = (lf.iter(), lr.iter());
            let (mut kf, mut kr) = (0u32, 0u32);
            for e in lin {
                match e {
                    LinEv::SF => cs.push(fi.next().unwrap().clone()),
                    LinEv::RR => {
                        kr += 1;
                        cs.push(Op::Recv(kr));
                    }
                    LinEv::SR => ss.push(ri.next().unwrap().clone()),
                    LinEv::RF => {
                        kf += 1;
                        ss.push(Op::Recv(kf));
                    }
                }
            }
        }
        let py = *r.pick(&[0u64, 1, 4, 12]);
        let ps = *r.pick(&[0u64, 0, 1, 6]);
        let cs = decorate(&mut r, cs, py, ps);
        let py = *r.pick(&[0u64, 1, 4, 12]);
        let ps = *r.pick(&[0u64, 0, 1, 6]);
        let ss = decorate(&mut r, ss, py, ps);
        agents.push(AgentSpec { ep: client_ep, proto, is_client: true, out_sid: sid_f, in_sid: sid_r, n_in: nr, script: cs });
        agents.push(AgentSpec { ep: 1 - client_ep, proto, is_client: false, out_sid: sid_r, in_sid: sid_f, n_in: nf, script: ss });
        shapes.push_str(&format!(" {proto:#x}/{}:{}+{}s{}", if client_ep == 0 { "A" } else { "B" }, nf, nr, style));
    }
    let base = 2 * pairs.len() as u16;
    let ctl_sids = [base, base + 1, base + 2, base + 3];
    let np = pairs.len() as u16;
    streams.push(StreamSpec { sid: base, pair: np, proto: ctl_proto, dir: "c2s", from_ep: 0 });
    streams.push(StreamSpec { sid: base + 1, pair: np, proto: ctl_proto, dir: "s2c", from_ep: 1 });
    streams.push(StreamSpec { sid: base + 2, pair: np + 1, proto: ctl_proto, dir: "c2s", from_ep: 1 });
    streams.push(StreamSpec { sid: base + 3, pair: np + 1, proto: ctl_proto, dir: "s2c", from_ep: 0 });
    let desc = format!("v1 {rt:?} {bearer:?} pairs(proto/client:c2s+s2c,style):{shapes} ctl={ctl_proto:#x}");
    V1Spec { nonce, rt, bearer, agents, streams, ctl_proto, ctl_sids, total_sends, desc }
}

async fn run_agent(mut ch: mx::AgentChannel, spec: AgentSpec, sh: Arc<Shared>) -> mx::AgentChannel {
    let mut fence_seen = spec.n_in == 0;
    let mut closed = false;
    let mut send_failed = false;
    let mut received = 0u32;
    let mut impatient = false; // after one abandoned wait the remaining mid-script waits are skipped
    let is_own_fence = |h: Option<Hdr>, sh: &Shared| matches!(h, Some(h) if h.kind == KIND_FENCE && h.nonce == sh.nonce && h.sid as u16 == spec.in_sid);
    for op in spec.script.iter() {
        match *op {
            Op::Send { seq, len, kind } => {
                if send_failed {
                    continue;
                }
                let chunk = make_chunk(sh.nonce, spec.out_sid, seq, len as usize, kind);
                let idx = sh.enq(spec.out_sid, seq, &chunk);
                match ch.enqueue_chunk(chunk).await {
                    Ok(()) => sh.mark_ok(idx),
                    Err(e) => {
                        send_failed = true;
                        sh.set_broken(&format!("enqueue_chunk returned an error: {e}"));
                    }
                }
            }
            Op::Recv(k) => {
                while received < k && !fence_seen && !closed && !impatient {
                    match tokio::time::timeout(PATIENCE, ch.dequeue_chunk()).await {
                        Ok(Ok(c)) => {
                            received += 1;
                            let h = sh.deq(spec.in_sid, &c);
                            fence_seen |= is_own_fence(h, &sh);
                        }
                        Ok(Err(e)) => {
                            closed = true;
                            sh.set_broken(&format!("dequeue_chunk returned an error: {e}"));
                        }
                        Err(_) => {
                            // only possible when chunks went missing: give up this wait, go on with the script
                            sh.abandoned_waits.fetch_add(1, Ordering::Relaxed);
                            impatient = true;
                        }
                    }
                }
            }
            Op::Drain => {
                while !fence_seen && !closed {
                    match ch.dequeue_chunk().now_or_never() {
                        Some(Ok(c)) => {
                            received += 1;
                            let h = sh.deq(spec.in_sid, &c);
                            fence_seen |= is_own_fence(h, &sh);
                        }
                        Some(Err(_)) => closed = true,
                        None => break,
                    }
                }
            }
            Op::Yield(n) => {
                for _ in 0..n {
                    tokio::task::yield_now().await;
                }
            }
            Op::SleepUs(us) => tokio::time::sleep(Duration::from_micros(us as u64)).await,
        }
    }
    while !fence_seen && !closed {
        match ch.dequeue_chunk().await {
            Ok(c) => {
                let h = sh.deq(spec.in_sid, &c);
                fence_seen |= is_own_fence(h, &sh);
            }
            Err(e) => {
                closed = true;
                sh.set_broken(&format!("dequeue_chunk returned an error: {e}"));
            }
        }
    }
    ch
}

/// End-of-history probes: started only after every sender returned Ok, so (the bearer being
/// one FIFO pipe per direction) their arrival means nothing older is still in flight.
async fn run_probe(mut chans: [mx::AgentChannel; 4], sids: [u16; 4], go: Arc<Notify>, ok: Arc<AtomicBool>, sh: Arc<Shared>) -> [mx::AgentChannel; 4] {
    go.notified().await;
    // chans: [A.client, B.server, B.client, A.server]
    for (tx, rx, sid) in [(0usize, 1usize, sids[0]), (2, 3, sids[2])] {
        let chunk = make_chunk(sh.nonce, sid, 0, 24, KIND_PROBE);
        let idx = sh.enq(sid, 0, &chunk);
        // (not counted in sends_remaining)
        match chans[tx].enqueue_chunk(chunk).await {
            Ok(()) => {
                sh.sends_remaining.fetch_add(1, Ordering::SeqCst);
                sh.mark_ok(idx);
            }
            Err(e) => {
                sh.set_broken(&format!("enqueue_chunk (probe) returned an error: {e}"));
                return chans;
            }
        }
        let _ = rx;
    }
    for (rx, sid) in [(1usize, sids[0]), (3, sids[2])] {
        match chans[rx].dequeue_chunk().await {
            Ok(c) => {
                sh.deq(sid, &c);
            }
            Err(e) => {
                sh.set_broken(&format!("dequeue_chunk (probe) returned an error: {e}"));
                return chans;
            }
        }
    }
    ok.store(true, Ordering::SeqCst);
    chans
}

fn drain_extras(ch: &mut mx::AgentChannel, at: u16, sh: &Shared) -> u64 {
    let mut n = 0;
    loop {
        let r = {
            let fut = tokio::task::unconstrained(ch.dequeue_chunk());
            fut.now_or_never()
        };
        match r {
            Some(Ok(c)) => {
                sh.deq(at, &c);
                n += 1;
                if n > 1000 {
                    break;
                }
            }
            _ => break,
        }
    }
    n
}

async fn history_v1(spec: &V1Spec, sh: Arc<Shared>) -> Outcome {
    let (ba, bb) = match spec.bearer {
        BearerKind::Unix => match tokio::net::UnixStream::pair() {
            Ok((a, b)) => (mx::Bearer::Unix(a), mx::Bearer::Unix(b)),
            Err(e) => return Outcome { end: End::Setup(format!("UnixStream::pair: {e}")), probe_ok: false },
        },
        BearerKind::Tcp => {
            let l = match tokio::net::TcpListener::bind("127.0.0.1:0").await {
                Ok(l) => l,
                Err(e) => return Outcome { end: End::Setup(format!("tcp bind: {e}")), probe_ok: false },
            };
            let addr = l.local_addr().unwrap();
            let (c, s) = tokio::join!(mx::Bearer::connect_tcp(addr), mx::Bearer::accept_tcp(&l));
            match (c, s) {
                (Ok(c), Ok((s, _))) => (c, s),
                (c, s) => return Outcome { end: End::Setup(format!("tcp connect/accept: {:?} {:?}", c.err(), s.err().map(|e| e.to_string()))), probe_ok: false },
            }
        }
    };
    let mut pa = mx::Plexer::new(ba);
    let mut pb = mx::Plexer::new(bb);
    let mut chans = Vec::new();
    for a in &spec.agents {
        let p = if a.ep == 0 { &mut pa } else { &mut pb };
        chans.push(if a.is_client { p.subscribe_client(a.proto) } else { p.subscribe_server(a.proto) });
    }
    let ctl = [pa.subscribe_client(spec.ctl_proto), pb.subscribe_server(spec.ctl_proto), pb.subscribe_client(spec.ctl_proto), pa.subscribe_server(spec.ctl_proto)];
    let ra = pa.spawn();
    let rb = pb.spawn();

    let go = Arc::new(Notify::new());
    let probe_ok = Arc::new(AtomicBool::new(false));
    let mut handles = Vec::new();
    let mut aborts = Vec::new();
    for (a, ch) in spec.agents.iter().zip(chans.into_iter()) {
        let h = tokio::spawn(run_agent(ch, a.clone(), sh.clone()));
        aborts.push(h.abort_handle());
        handles.push(h);
    }
    let mut probe_h = tokio::spawn(run_probe(ctl, spec.ctl_sids, go.clone(), probe_ok.clone(), sh.clone()));
    aborts.push(probe_h.abort_handle());

    let mut mon = Mon::new(&sh);
    let mut go_sent = false;
    let mut all = futures::future::join_all(handles);
    let mut end = End::Done;
    let mut returned: Vec<(u16, mx::AgentChannel)> = Vec::new();
    let mut ctl_back = None;
    match watch(&mut all, &sh, &mut mon, &go, &mut go_sent, &probe_ok).await {
        Ok(rs) => {
            for (a, r) in spec.agents.iter().zip(rs.into_iter()) {
                match r {
                    Ok(ch) => returned.push((a.in_sid, ch)),
                    Err(e) => {
                        sh.set_broken(&format!("agent task failed: {e}"));
                    }
                }
            }
            if sh.broken.load(Ordering::SeqCst) {
                end = End::Broken(sh.broken_why.lock().unwrap().clone());
            } else {
                if !go_sent {
                    go_sent = true;
                    go.notify_one();
                }
                match watch(&mut probe_h, &sh, &mut mon, &go, &mut go_sent, &probe_ok).await {
                    Ok(Ok(c)) => ctl_back = Some(c),
                    Ok(Err(e)) => end = End::Broken(format!("probe task failed: {e}")),
                    Err(Stop::Loss) => end = End::Loss,
                    Err(Stop::Watchdog(w)) => end = End::Watchdog(w),
                    Err(Stop::Broken) => end = End::Broken(sh.broken_why.lock().unwrap().clone()),
                }
            }
        }
        Err(Stop::Loss) => end = End::Loss,
        Err(Stop::Watchdog(w)) => end = End::Watchdog(w),
        Err(Stop::Broken) => end = End::Broken(sh.broken_why.lock().unwrap().clone()),
    }
    if sh.broken.load(Ordering::SeqCst) && matches!(end, End::Done) {
        end = End::Broken(sh.broken_why.lock().unwrap().clone());
    }
    let pok = probe_ok.load(Ordering::SeqCst);
    if matches!(end, End::Done) && pok {
        // everything older than the probes has been demultiplexed: anything still queued is surplus
        for (at, ch) in returned.iter_mut() {
            drain_extras(ch, *at, &sh);
        }
        if let Some(c) = ctl_back.as_mut() {
            // slots: [A.client <- s2c of ctl pair 0, B.server <- c2s pair 0, B.client <- s2c pair 1, A.server <- c2s pair 1]
            let at = [spec.ctl_sids[1], spec.ctl_sids[0], spec.ctl_sids[3], spec.ctl_sids[2]];
            for (i, ch) in c.iter_mut().enumerate() {
                drain_extras(ch, at[i], &sh);
            }
        }
    }
    for a in aborts {
        a.abort();
    }
    ra.abort().await;
    rb.abort().await;
    drop(returned);
    drop(ctl_back);
    Outcome { end, probe_ok: pok }
}

// ---------------------------------------------------------------------------------------
// v2: pallas-network2 bearer halves

#[derive(Debug, Clone)]
enum TMsg {
    /// raw bytes of a piece of the unit stream of `channel` (what a caller hands to write_message)
    Frag { channel: u16, bytes: Vec<u8> },
    /// one decoded unit (what read_full_msgs hands back)
    Unit { channel: u16, body: Vec<u8> },
}

impl pallas_network2::Message for TMsg {
    fn channel(&self) -> u16 {
        match self {
            TMsg::Frag { channel, .. } | TMsg::Unit { channel, .. } => *channel,
        }
    }
    fn payload(&self) -> Vec<u8> {
        match self {
            TMsg::Frag { bytes, .. } => bytes.clone(),
            TMsg::Unit { body, .. } => enc_unit(body),
        }
    }
    fn from_payload(channel: u16, payload: &mut Vec<u8>) -> Option<Self> {
        if payload.len() < 4 {
            return None;
        }
        let n = u32::from_be_bytes([payload[0], payload[1], payload[2], payload[3]]) as usize;
        if payload.len() < 4 + n {
            return None;
        }
        let body = payload[4..4 + n].to_vec();
        payload.drain(..4 + n);
        Some(TMsg::Unit { channel, body })
    }
    fn into_payload(self) -> (u16, Vec<u8>) {
        match self {
            TMsg::Frag { channel, bytes } => (channel, bytes),
            TMsg::Unit { channel, body } => (channel, enc_unit(&body)),
        }
    }
}

fn enc_unit(body: &[u8]) -> Vec<u8> {
    let mut v = Vec::with_capacity(4 + body.len());
    v.extend_from_slice(&(body.len() as u32).to_be_bytes());
    v.extend_from_slice(body);
    v
}

enum WOp {
    /// `starts`: units whose first byte is in this fragment (logged as enqueued before the call);
    /// `ends`: units whose last byte is in this fragment (enqueue complete once the call returned Ok)
    Write { channel: u16, bytes: Vec<u8>, starts: Vec<(u16, u32, Vec<u8>)>, ends: Vec<(u16, u32)> },
    EmptySeg { channel: u16 },
    Yield(u8),
}

struct V2Dir {
    mode: u16,
    chan_sid: HashMap<u16, u16>,
    fin_sid: u16,
    script: Vec<WOp>,
}

struct V2Spec {
    nonce: u32,
    rt: RtKind,
    bearer: BearerKind,
    streams: Vec<StreamSpec>,
    dirs: Vec<V2Dir>,
    total_units: usize,
    desc: String,
}

fn gen_v2(hseed: u64) -> V2Spec {
    let mut r = Rng::derive(hseed, "c20-v2", 0);
    let nonce = r.next_u32();
    let rt = pick_rt(&mut r);
    let bearer = if r.chance(7, 10) { BearerKind::Unix } else { BearerKind::Tcp };
    let mut budget: i64 = *r.pick(&[200_000i64, 1_500_000, 6_000_000]);
    let mode_a = if r.bool() { 0u16 } else { 0x8000 };
    let mut streams = Vec::new();
    let mut dirs = Vec::new();
    let mut total_units = 0;
    let mut next_sid = 0u16;
    let mut shapes = String::new();
    for d in 0..2u8 {
        let mode = if d == 0 { mode_a } else { mode_a ^ 0x8000 };
        let dirname: &'static str = if mode == 0 { "init" } else { "resp" };
        let mut used = HashSet::new();
        let nch = if d == 1 && r.chance(1, 5) { 0 } else { 1 + r.usize_below(6) };
        let mut chan_sid = HashMap::new();
        // per channel: list of fragments
        let mut per_chan: Vec<Vec<WOp>> = Vec::new();
        for _ in 0..nch {
            let ch = pick_proto(&mut r, &mut used);
            let sid = next_sid;
            next_sid += 1;
            chan_sid.insert(ch, sid);
            streams.push(StreamSpec { sid, pair: sid, proto: ch, dir: dirname, from_ep: d });
            let n = match r.below(4) {
                0 => 1 + r.usize_below(5),
                1 | 2 => 5 + r.usize_below(30),
                _ => 30 + r.usize_below(90),
            };
            let profile = r.below(6);
            let mut bodies = Vec::new();
            for k in 0..n {
                let len = if profile == 5 {
                    // multi-segment units
                    let l = if r.chance(1, 3) { 65536 + r.below(140_000) as u32 } else { *r.pick(&[65531u32, 65532, 65535, 65536, 131066, 131070, 131071]) };
                    let l = if budget < l as i64 { r.below(64) as u32 } else { l };
                    budget -= l as i64;
                    l
                } else {
                    pick_len(&mut r, profile, &mut budget)
                };
                bodies.push(make_chunk(nonce, sid, k as u32, len as usize, KIND_DATA));
            }
            total_units += n;
            // the unit stream and where units start/end in it
            let mut bytes = Vec::new();
            let mut bounds = Vec::new(); // (start, end) exclusive end
            for b in &bodies {
                let s = bytes.len();
                bytes.extend_from_slice(&enc_unit(b));
                bounds.push((s, bytes.len()));
            }
            // cut points
            let mut cuts: Vec<usize> = Vec::new();
            let aligned = r.bool();
            if aligned {
                for (k, (_, e)) in bounds.iter().enumerate() {
                    // sometimes several units in one write
                    if k + 1 == n || !r.chance(1, 6) {
                        cuts.push(*e);
                    }
                }
            } else {
                let m = 1 + r.usize_below(2 * n + 1);
                for _ in 0..m {
                    let c = match r.below(3) {
                        0 => {
                            let (s, e) = bounds[r.usize_below(n)];
                            // around a unit boundary / inside the length prefix
                            (s + r.usize_below(6)).min(e)
                        }
                        _ => r.usize_below(bytes.len() + 1),
                    };
                    if c > 0 && c < bytes.len() {
                        cuts.push(c);
                    }
                }
                cuts.push(bytes.len());
                cuts.sort();
                cuts.dedup();
            }
            let mut frags = Vec::new();
            let mut prev = 0usize;
            for c in cuts {
                let starts: Vec<(u16, u32, Vec<u8>)> = bounds.iter().enumerate().filter(|(_, (s, _))| *s >= prev && *s < c).map(|(k, _)| (sid, k as u32, bodies[k].clone())).collect();
                let ends: Vec<(u16, u32)> = bounds.iter().enumerate().filter(|(_, (_, e))| *e > prev && *e <= c).map(|(k, _)| (sid, k as u32)).collect();
                frags.push(WOp::Write { channel: ch, bytes: bytes[prev..c].to_vec(), starts, ends });
                prev = c;
            }
            shapes.push_str(&format!(" {}{ch:#x}:{n}u/{}f", if d == 0 { "A" } else { "B" }, frags.len()));
            per_chan.push(frags);
        }
        // random merge preserving per-channel order
        let mut script = Vec::new();
        let mut iters: Vec<std::vec::IntoIter<WOp>> = per_chan.into_iter().map(|v| v.into_iter()).collect();
        let mut remaining: Vec<usize> = iters.iter().map(|i| i.len()).collect();
        let bursty = r.bool();
        let py = *r.pick(&[0u64, 1, 4]);
        loop {
            let live: Vec<usize> = (0..iters.len()).filter(|i| remaining[*i] > 0).collect();
            if live.is_empty() {
                break;
            }
            let i = *r.pick(&live);
            let take = if bursty { 1 + r.usize_below(6) } else { 1 };
            for _ in 0..take.min(remaining[i]) {
                script.push(iters[i].next().unwrap());
                remaining[i] -= 1;
                if py > 0 && r.chance(py, 16) {
                    script.push(WOp::Yield(1 + r.below(3) as u8));
                }
                if r.chance(1, 40) {
                    let ch = *r.pick(&chan_sid.keys().copied().collect::<Vec<_>>());
                    script.push(WOp::EmptySeg { channel: ch });
                }
            }
        }
        // the direction-final unit, written last on its own channel
        let fin_ch = pick_proto(&mut r, &mut used);
        let fin_sid = next_sid;
        next_sid += 1;
        chan_sid.insert(fin_ch, fin_sid);
        streams.push(StreamSpec { sid: fin_sid, pair: fin_sid, proto: fin_ch, dir: dirname, from_ep: d });
        let body = make_chunk(nonce, fin_sid, 0, 24, KIND_PROBE);
        script.push(WOp::Write { channel: fin_ch, bytes: enc_unit(&body), starts: vec![(fin_sid, 0, body)], ends: vec![(fin_sid, 0)] });
        total_units += 1;
        dirs.push(V2Dir { mode, chan_sid, fin_sid, script });
    }
    let desc = format!("v2 {rt:?} {bearer:?} modeA={mode_a:#x} channels(unit/fragment counts):{shapes}");
    V2Spec { nonce, rt, bearer, streams, dirs, total_units, desc }
}

async fn run_writer(mut w: b2::BearerWriteHalf, mode: u16, script: Vec<WOp>, sh: Arc<Shared>) -> b2::BearerWriteHalf {
    let mut idx: HashMap<(u16, u32), usize> = HashMap::new();
    let mut ts = 0u32;
    for op in script {
        ts = ts.wrapping_add(977);
        match op {
            WOp::Write { channel, bytes, starts, ends } => {
                for (sid, seq, body) in &starts {
                    idx.insert((*sid, *seq), sh.enq(*sid, *seq, body));
                }
                match w.write_message(TMsg::Frag { channel, bytes }, ts, mode).await {
                    Ok(()) => {
                        for k in ends {
                            sh.mark_ok(idx[&k]);
                        }
                    }
                    Err(e) => {
                        sh.set_broken(&format!("write_message returned an error: {e}"));
                        return w;
                    }
                }
            }
            WOp::EmptySeg { channel } => {
                if let Err(e) = w.write_segment(channel | mode, ts, &[]).await {
                    sh.set_broken(&format!("write_segment returned an error: {e}"));
                    return w;
                }
            }
            WOp::Yield(n) => {
                for _ in 0..n {
                    tokio::task::yield_now().await;
                }
            }
        }
    }
    w
}

async fn run_reader(mut rd: b2::BearerReadHalf, chan_sid: HashMap<u16, u16>, fin_sid: u16, sh: Arc<Shared>) -> (b2::BearerReadHalf, usize) {
    let mut partial: HashMap<u16, Vec<u8>> = HashMap::new();
    let mut done = false;
    while !done {
        match rd.read_full_msgs::<TMsg>(&mut partial).await {
            Ok(msgs) => {
                for m in msgs {
                    if let TMsg::Unit { channel, body } = m {
                        let at = chan_sid.get(&channel).copied().unwrap_or(NO_STREAM);
                        let h = sh.deq(at, &body);
                        if at == fin_sid && matches!(h, Some(h) if h.kind == KIND_PROBE && h.nonce == sh.nonce) {
                            done = true;
                        }
                    }
                }
            }
            Err(e) => {
                sh.set_broken(&format!("read_full_msgs returned an error: {e}"));
                break;
            }
        }
    }
    let residue = partial.values().map(|v| v.len()).sum();
    (rd, residue)
}

async fn history_v2(spec: &mut V2Spec, sh: Arc<Shared>, residue_out: &mut usize) -> Outcome {
    let (ba, bb) = match spec.bearer {
        BearerKind::Unix => match tokio::net::UnixStream::pair() {
            Ok((a, b)) => (b2::Bearer::Unix(a), b2::Bearer::Unix(b)),
            Err(e) => return Outcome { end: End::Setup(format!("UnixStream::pair: {e}")), probe_ok: false },
        },
        BearerKind::Tcp => {
            let l = match tokio::net::TcpListener::bind("127.0.0.1:0").await {
                Ok(l) => l,
                Err(e) => return Outcome { end: End::Setup(format!("tcp bind: {e}")), probe_ok: false },
            };
            let addr = l.local_addr().unwrap();
            let (c, s) = tokio::join!(b2::Bearer::connect_tcp(addr), b2::Bearer::accept_tcp(&l));
            match (c, s) {
                (Ok(c), Ok((s, _))) => (c, s),
                (c, s) => return Outcome { end: End::Setup(format!("tcp connect/accept: {:?} {:?}", c.err(), s.err().map(|e| e.to_string()))), probe_ok: false },
            }
        }
    };
    let (ra, wa) = ba.into_split();
    let (rb, wb) = bb.into_split();
    let d1 = spec.dirs.pop().unwrap();
    let d0 = spec.dirs.pop().unwrap();
    let mut aborts = Vec::new();
    let wa_h = tokio::spawn(run_writer(wa, d0.mode, d0.script, sh.clone()));
    let wb_h = tokio::spawn(run_writer(wb, d1.mode, d1.script, sh.clone()));
    let rb_h = tokio::spawn(run_reader(rb, d0.chan_sid, d0.fin_sid, sh.clone()));
    let ra_h = tokio::spawn(run_reader(ra, d1.chan_sid, d1.fin_sid, sh.clone()));
    for a in [wa_h.abort_handle(), wb_h.abort_handle(), rb_h.abort_handle(), ra_h.abort_handle()] {
        aborts.push(a);
    }
    let mut all = Box::pin(async move { tokio::join!(wa_h, wb_h, rb_h, ra_h) });
    let go = Notify::new();
    let mut go_sent = true;
    let never = AtomicBool::new(false);
    let mut mon = Mon::new(&sh);
    let end = match watch(&mut all, &sh, &mut mon, &go, &mut go_sent, &never).await {
        Ok((a, b, c, d)) => {
            let mut e = End::Done;
            if a.is_err() || b.is_err() {
                e = End::Broken("writer task failed".into());
            }
            match (c, d) {
                (Ok((_, r1)), Ok((_, r2))) => *residue_out = r1 + r2,
                _ => e = End::Broken("reader task failed".into()),
            }
            if sh.broken.load(Ordering::SeqCst) {
                e = End::Broken(sh.broken_why.lock().unwrap().clone());
            }
            e
        }
        Err(Stop::Loss) => End::Loss,
        Err(Stop::Watchdog(w)) => End::Watchdog(w),
        Err(Stop::Broken) => End::Broken(sh.broken_why.lock().unwrap().clone()),
    };
    for a in aborts {
        a.abort();
    }
    Outcome { end, probe_ok: false }
}

// ---------------------------------------------------------------------------------------
// one history: run + check + account

struct Report {
    sigs: Vec<String>,
    complete: bool,
}

fn run_history(ctx: &mut Ctx, hseed: u64, seen: &mut HashSet<u64>, verbose: bool) -> Report {
    let t_hist = Instant::now();
    let is_v2 = Rng::derive(hseed, "c20-stack", 0).chance(1, 4);
    let stack = if is_v2 { "v2" } else { "v1" };
    let _ = take_panics();
    let (streams, desc, rtk, bearer, outcome, log, residue, abandoned);
    if is_v2 {
        let mut spec = gen_v2(hseed);
        let sh = Arc::new(Shared::new(spec.nonce, spec.total_units));
        rtk = spec.rt;
        bearer = spec.bearer;
        desc = spec.desc.clone();
        let rt = match build_rt(rtk) {
            Ok(rt) => rt,
            Err(e) => {
                ctx.inconclusive(&format!("could not build a tokio runtime: {e}"));
                return Report { sigs: vec![], complete: false };
            }
        };
        let mut res = 0usize;
        outcome = rt.block_on(history_v2(&mut spec, sh.clone(), &mut res));
        rt.shutdown_background();
        residue = res;
        streams = spec.streams;
        abandoned = 0;
        log = sh.take_log();
    } else {
        let spec = gen_v1(hseed);
        let sh = Arc::new(Shared::new(spec.nonce, spec.total_sends));
        rtk = spec.rt;
        bearer = spec.bearer;
        desc = spec.desc.clone();
        let rt = match build_rt(rtk) {
            Ok(rt) => rt,
            Err(e) => {
                ctx.inconclusive(&format!("could not build a tokio runtime: {e}"));
                return Report { sigs: vec![], complete: false };
            }
        };
        outcome = rt.block_on(history_v1(&spec, sh.clone()));
        rt.shutdown_background();
        residue = 0;
        abandoned = sh.abandoned_waits.load(Ordering::Relaxed);
        streams = spec.streams;
        log = sh.take_log();
    }
    let replay = json!({"hseed": hseed.to_string(), "desc": desc});
    let mut sigs = Vec::new();
    // panics on any thread during the history
    let panics = take_panics();
    let mut pallas_panic = false;
    for p in &panics {
        if p.in_harness() {
            ctx.inconclusive(&format!("harness panic at {}:{}: {}", p.file, p.line, p.msg));
        } else {
            pallas_panic = true;
            let sig = format!("panic:{stack}-task:{}", p.site());
            ctx.violation(&sig, &format!("a task panicked during a history ({desc}): {} at {}:{}", p.msg, p.file, p.line), replay.clone());
            sigs.push(sig);
        }
    }
    let complete = match &outcome.end {
        End::Done | End::Loss => true,
        End::Watchdog(w) => {
            ctx.count("histories_watchdog");
            if !pallas_panic {
                ctx.inconclusive(&format!("watchdog ({stack}): {w}"));
            }
            false
        }
        End::Broken(w) => {
            ctx.count("histories_broken");
            if !pallas_panic {
                ctx.inconclusive(&format!("bearer/plexer task ended during a history ({stack}): {w}"));
            }
            false
        }
        End::Setup(w) => {
            ctx.count("histories_setup_failed");
            ctx.inconclusive(&format!("history setup failed: {w}"));
            return Report { sigs, complete: false };
        }
    };
    if matches!(outcome.end, End::Loss) {
        ctx.count(if outcome.probe_ok { "stalls_after_probe" } else { "stalls_20s" });
    }
    let res = check(stack, &streams, &log, complete && !pallas_panic);
    for f in &res.findings {
        let sig = format!("C20:{}", f.sig);
        ctx.violation(&sig, &format!("{} [{desc}]", f.what), replay.clone());
        sigs.push(sig);
    }
    ctx.add("chunks_enqueued", res.chunks_enqueued);
    ctx.add("chunks_dequeued", res.chunks_dequeued);
    ctx.add("chunks_matched_in_order", res.chunks_matched);
    ctx.add("streams_checked", res.streams_checked);
    ctx.add("streams_nonempty", res.streams_nonempty);
    ctx.add("delivery_stream_switches", res.switches);
    ctx.add("bytes_delivered", log.iter().filter(|e| e.kind == EvKind::Deq).map(|e| e.len as u64).sum());
    ctx.add("midscript_waits_abandoned", abandoned);
    ctx.add("v2_residue_bytes", residue as u64);
    ctx.max("max_concurrent_streams", res.max_concurrent);
    ctx.max("max_streams_in_history", res.streams_nonempty);
    for e in log.iter().filter(|e| e.kind == EvKind::Deq) {
        ctx.count(&format!("delivered_len_{}", len_class(e.len)));
    }
    if complete {
        ctx.eval();
        ctx.count(&format!("histories_{stack}"));
        ctx.count(&format!("histories_{}", match bearer {
            BearerKind::Unix => "unix",
            BearerKind::Tcp => "tcp",
        }));
        match rtk {
            RtKind::Multi(n) => {
                ctx.count("histories_multi_thread");
                ctx.set_insert("worker_counts", &n.to_string());
            }
            RtKind::Current => ctx.count("histories_current_thread"),
        }
        if res.max_concurrent >= 3 {
            ctx.count("histories_with_3plus_concurrent_streams");
            let f = fp_mix(res.interleaving_fp, if is_v2 { 2 } else { 1 });
            if seen.insert(f) {
                ctx.count("distinct_interleavings");
                ctx.nontrivial(f);
            }
        }
        if ctx.want_sample() {
            ctx.sample(json!({"history": desc, "chunks": res.chunks_enqueued, "max_concurrent_streams": res.max_concurrent, "stream_switches_at_receivers": res.switches, "interleaving_fp": format!("{:016x}", res.interleaving_fp)}));
        }
    }
    if verbose || std::env::var("PV_C20_VERBOSE").is_ok() {
        println!("history {hseed}: {:.3}s {desc}\n  end={:?} probe_ok={} enq={} deq={} matched={} max_concurrent={} switches={} abandoned={abandoned} findings={:?}", t_hist.elapsed().as_secs_f64(), outcome.end, outcome.probe_ok, res.chunks_enqueued, res.chunks_dequeued, res.chunks_matched, res.max_concurrent, res.switches, sigs);
    }
    Report { sigs, complete }
}

fn main() {
    let mut ctx = Ctx::from_args("C20");
    install_global_panic_record();
    let t_self = Instant::now();
    let st = selftest();
    if std::env::var("PV_C20_VERBOSE").is_ok() {
        println!("selftest took {:.3}s wall, thread cpu so far {} us", t_self.elapsed().as_secs_f64(), pv::ctx::thread_cpu_us());
    }
    if !st.is_empty() {
        for f in st.iter().take(5) {
            ctx.inconclusive(&format!("history-checker self-test failed: {f}"));
        }
        ctx.finish();
    }
    ctx.count("checker_selftests_passed");
    let mut seen = HashSet::new();
    if let Some(p) = ctx.replay.clone() {
        let v: serde_json::Value = serde_json::from_slice(&std::fs::read(p).unwrap()).unwrap();
        let hseed: u64 = v["replay"]["hseed"].as_str().unwrap().parse().unwrap();
        let mut hits = 0;
        for i in 0..10 {
            let r = run_history(&mut ctx, hseed, &mut seen, i == 0);
            if !r.sigs.is_empty() {
                hits += 1;
            }
        }
        println!("replayed history {hseed} 10 times: {hits} runs showed a violation; signatures so far: {}", ctx.n_violations());
        ctx.finish();
    }
    let n = ctx.budget(1000, 60_000);
    let mut stalls = 0;
    for _ in 0..n {
        let hseed = ctx.rng.next_u64();
        let r = run_history(&mut ctx, hseed, &mut seen, false);
        if !r.complete {
            stalls += 1;
        }
        // a shard that keeps timing out (only possible on a broken tree / machine) stops early
        if stalls >= 4 || ctx.stat("stalls_20s") >= 4 || ctx.stat("stalls_after_probe") >= 40 {
            ctx.note("stopped_early_after_repeated_stalls", json!(true));
            break;
        }
    }
    if std::env::var("PV_C20_VERBOSE").is_ok() {
        println!("total {:.3}s", ctx.elapsed_s());
    }
    ctx.finish();
}
