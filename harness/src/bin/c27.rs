//! C27 — peer promotion keeps the peer sets consistent and banned peers away.
//!
//! The harness plays the `Interface` of an `InitiatorBehavior` with small `PromotionConfig`
//! limits. After every step the public promotion sets are read back (pairwise disjoint, within
//! limits) and every emitted `Connect(p)` is checked against the ban history of p
//! (explicit `BanPeer`, membership in `banned_peers`). A known peer that delivers an
//! unambiguously illegal message must be in `banned_peers` after the next housekeeping pass.
//!
//! Part 1: all event sequences of length <= 8 over 3 peers (alphabet of 31 actions), executed
//! by replaying prefixes, pruned by monitor-state equivalence. Part 2: random sequences of
//! length 200 over 20 peers.
use pallas_network2::behavior::{AnyMessage, InitiatorBehavior, InitiatorCommand, InitiatorState, PromotionBehavior, PromotionConfig};
use pallas_network2::protocol as proto;
use pallas_network2::{Behavior, BehaviorOutput, InterfaceCommand, InterfaceError, InterfaceEvent, PeerId};
use pv::p2pdrive::{self, Explorer};
use pv::p2pgen;
use pv::p2pspec::{self, Agency, Proto};
use pv::*;
use serde_json::Value;
use std::collections::{BTreeSet, VecDeque};

#[derive(Clone, Debug, PartialEq)]
enum Act {
    Include(usize),
    Ban(usize),
    Demote(usize),
    Hk,
    Idle,
    Connected(usize),
    Disconnected(usize),
    Error(usize),
    /// Sent(p, Propose(default table)) whether or not it was emitted
    SentPropose(usize),
    RecvAccept(usize),
    /// an inbound message that no emitted request can have solicited
    RecvViolating(usize, u64),
    SentShareReq(usize),
    /// SharePeers naming the peers whose bit is set in the mask
    RecvSharePeers(usize, u32),
    /// confirm the oldest emitted, unconfirmed Send of p
    SentNext(usize),
    RecvKeepAliveResp(usize),
    RecvAny(usize, u64),
    SentAny(usize, u64),
}

impl Act {
    fn code(&self) -> u64 {
        let (a, p, x): (u64, usize, u64) = match self {
            Act::Include(p) => (1, *p, 0),
            Act::Ban(p) => (2, *p, 0),
            Act::Demote(p) => (3, *p, 0),
            Act::Hk => (4, 0, 0),
            Act::Idle => (5, 0, 0),
            Act::Connected(p) => (6, *p, 0),
            Act::Disconnected(p) => (7, *p, 0),
            Act::Error(p) => (8, *p, 0),
            Act::SentPropose(p) => (9, *p, 0),
            Act::RecvAccept(p) => (10, *p, 0),
            Act::RecvViolating(p, s) => (11, *p, *s),
            Act::SentShareReq(p) => (12, *p, 0),
            Act::RecvSharePeers(p, m) => (13, *p, *m as u64),
            Act::SentNext(p) => (14, *p, 0),
            Act::RecvKeepAliveResp(p) => (15, *p, 0),
            Act::RecvAny(p, s) => (16, *p, *s),
            Act::SentAny(p, s) => (17, *p, *s),
        };
        fp_mix(a * 1000 + p as u64, x)
    }
    fn kind(&self) -> &'static str {
        match self {
            Act::Include(_) => "IncludePeer",
            Act::Ban(_) => "BanPeer",
            Act::Demote(_) => "DemotePeer",
            Act::Hk => "Housekeeping",
            Act::Idle => "Idle",
            Act::Connected(_) => "Connected",
            Act::Disconnected(_) => "Disconnected",
            Act::Error(_) => "Error",
            Act::SentPropose(_) => "Sent(Propose)",
            Act::RecvAccept(_) => "Recv(Accept)",
            Act::RecvViolating(..) => "Recv(violating)",
            Act::SentShareReq(_) => "Sent(ShareRequest)",
            Act::RecvSharePeers(..) => "Recv(SharePeers)",
            Act::SentNext(_) => "Sent(next emitted)",
            Act::RecvKeepAliveResp(_) => "Recv(ResponseKeepAlive)",
            Act::RecvAny(..) => "Recv(any)",
            Act::SentAny(..) => "Sent(any)",
        }
    }
    fn to_json(&self) -> Value {
        match self {
            Act::Include(p) => json!(["Include", p]),
            Act::Ban(p) => json!(["Ban", p]),
            Act::Demote(p) => json!(["Demote", p]),
            Act::Hk => json!(["Hk"]),
            Act::Idle => json!(["Idle"]),
            Act::Connected(p) => json!(["Connected", p]),
            Act::Disconnected(p) => json!(["Disconnected", p]),
            Act::Error(p) => json!(["Error", p]),
            Act::SentPropose(p) => json!(["SentPropose", p]),
            Act::RecvAccept(p) => json!(["RecvAccept", p]),
            Act::RecvViolating(p, s) => json!(["RecvViolating", p, s.to_string()]),
            Act::SentShareReq(p) => json!(["SentShareReq", p]),
            Act::RecvSharePeers(p, m) => json!(["RecvSharePeers", p, m]),
            Act::SentNext(p) => json!(["SentNext", p]),
            Act::RecvKeepAliveResp(p) => json!(["RecvKeepAliveResp", p]),
            Act::RecvAny(p, s) => json!(["RecvAny", p, s.to_string()]),
            Act::SentAny(p, s) => json!(["SentAny", p, s.to_string()]),
        }
    }
    fn from_json(v: &Value) -> Act {
        let name = v[0].as_str().unwrap();
        let p = v.get(1).and_then(|x| x.as_u64()).unwrap_or(0) as usize;
        let s = || v[2].as_str().map(|s| s.parse::<u64>().unwrap()).or(v[2].as_u64()).unwrap_or(0);
        match name {
            "Include" => Act::Include(p),
            "Ban" => Act::Ban(p),
            "Demote" => Act::Demote(p),
            "Hk" => Act::Hk,
            "Idle" => Act::Idle,
            "Connected" => Act::Connected(p),
            "Disconnected" => Act::Disconnected(p),
            "Error" => Act::Error(p),
            "SentPropose" => Act::SentPropose(p),
            "RecvAccept" => Act::RecvAccept(p),
            "RecvViolating" => Act::RecvViolating(p, s()),
            "SentShareReq" => Act::SentShareReq(p),
            "RecvSharePeers" => Act::RecvSharePeers(p, s() as u32),
            "SentNext" => Act::SentNext(p),
            "RecvKeepAliveResp" => Act::RecvKeepAliveResp(p),
            "RecvAny" => Act::RecvAny(p, s()),
            "SentAny" => Act::SentAny(p, s()),
            other => panic!("unknown action {other}"),
        }
    }
}

#[derive(Clone, Copy, Debug)]
struct Limits {
    max_peers: usize,
    max_warm: usize,
    max_hot: usize,
    max_err: u32,
}

impl Limits {
    fn to_json(&self) -> Value {
        json!({"max_peers": self.max_peers, "max_warm_peers": self.max_warm, "max_hot_peers": self.max_hot, "max_error_count": self.max_err})
    }
    fn from_json(v: &Value) -> Limits {
        Limits {
            max_peers: v["max_peers"].as_u64().unwrap() as usize,
            max_warm: v["max_warm_peers"].as_u64().unwrap() as usize,
            max_hot: v["max_hot_peers"].as_u64().unwrap() as usize,
            max_err: v["max_error_count"].as_u64().unwrap() as u32,
        }
    }
}

struct Finding {
    sig: String,
    what: String,
}

struct Sys {
    b: InitiatorBehavior,
    ids: Vec<PeerId>,
    table_capacity: usize,
    lim: Limits,
    /// emitted Sends not yet confirmed, per peer
    pending: Vec<VecDeque<AnyMessage>>,
    connect_outstanding: Vec<u32>,
    /// confirmed requests without an answer yet (steers the orderly random profile only)
    hs_out: Vec<bool>,
    ka_out: Vec<bool>,
    share_out: Vec<bool>,
    // ---- monitor state ----
    /// Some(known) once an explicit BanPeer(p) was executed; known = p was tracked at that time
    cmd_banned: Vec<Option<bool>>,
    /// protocols with any traffic for p (Send emitted, Sent or Recv event delivered) since the
    /// behaviour last reset p's protocol state (Disconnected / IncludePeer): only a server message of
    /// an untouched protocol is unambiguously unsolicited (the initiator has agency in every initial state)
    emitted: Vec<[bool; 8]>,
    /// known peer delivered an unambiguous violation: must be listed after next housekeeping
    owes_ban: Vec<bool>,
    broken: BTreeSet<String>,
    any_ban: bool,
    hk_after_ban: bool,
    /// a SharePeers answer was consumed by discovery: the private `discovered` set is no longer
    /// a function of the observable state, so states are keyed by their full history from here
    tainted: bool,
    hist: u64,
    dead: bool,
    steps: u64,
    connects: u64,
}

fn mk_state() -> InitiatorState {
    InitiatorState::new()
}

type Table = (std::collections::HashMap<PeerId, InitiatorState>, Vec<PeerId>, usize);
thread_local! {
    /// peer tables (empty map + ids in iteration order) are reused between sequences
    static POOL: std::cell::RefCell<Vec<Table>> = const { std::cell::RefCell::new(Vec::new()) };
}

impl Drop for Sys {
    fn drop(&mut self) {
        let mut m = std::mem::take(&mut self.b.peers);
        m.clear();
        let ids = std::mem::take(&mut self.ids);
        // a table that was re-allocated may iterate in another order: do not reuse it
        if m.capacity() == self.table_capacity {
            POOL.with(|p| p.borrow_mut().push((m, ids, self.table_capacity)));
        }
    }
}

impl Sys {
    fn new(n: usize, lim: Limits, r: &mut Rng) -> Sys {
        let pooled = POOL.with(|p| {
            let mut p = p.borrow_mut();
            let i = p.iter().position(|t| t.1.len() == n);
            i.map(|i| p.swap_remove(i))
        });
        let (peers, ids, table_capacity) = match pooled {
            Some(t) => t,
            None => {
                let (m, ids) = p2pdrive::ordered_peers(n, &mk_state, r);
                let c = m.capacity();
                (m, ids, c)
            }
        };
        let b = InitiatorBehavior {
            promotion: PromotionBehavior::new(PromotionConfig { max_peers: lim.max_peers, max_warm_peers: lim.max_warm, max_hot_peers: lim.max_hot, max_error_count: lim.max_err }),
            peers,
            ..Default::default()
        };
        Sys {
            b,
            ids,
            table_capacity,
            lim,
            pending: vec![VecDeque::new(); n],
            connect_outstanding: vec![0; n],
            hs_out: vec![false; n],
            ka_out: vec![false; n],
            share_out: vec![false; n],
            cmd_banned: vec![None; n],
            emitted: vec![[false; 8]; n],
            owes_ban: vec![false; n],
            broken: BTreeSet::new(),
            any_ban: false,
            hk_after_ban: false,
            tainted: false,
            hist: p2pdrive::HASH_INIT,
            dead: false,
            steps: 0,
            connects: 0,
        }
    }

    fn idx(&self, pid: &PeerId) -> Option<usize> {
        self.ids.iter().position(|p| p == pid)
    }

    /// a server-side message of a protocol without any traffic for p since its state was last reset:
    /// the initiator has agency in the initial state of every protocol, so no conformant peer sends it
    fn violating_msg(&self, p: usize, seed: u64) -> AnyMessage {
        let mut r = Rng::new(seed);
        let free: Vec<Proto> = p2pspec::ALL_PROTOS.iter().copied().filter(|pr| !self.emitted[p][pr.index()]).collect();
        if seed == 0 {
            // canonical choice of the exhaustive part: block-fetch is never requested in this workload
            return AnyMessage::BlockFetch(proto::blockfetch::Message::BatchDone);
        }
        // every protocol already saw traffic: any server message will do (it then carries no obligation)
        let pr = if free.is_empty() { p2pspec::ALL_PROTOS[r.usize_below(8)] } else { free[r.usize_below(free.len())] };
        let ks: Vec<_> = p2pspec::kinds(pr).into_iter().filter(|(_, a)| *a == Agency::Server).map(|(k, _)| k).collect();
        let k = ks[r.usize_below(ks.len())];
        p2pgen::message(pr, k, &mut r)
    }

    fn listed(&self, p: usize) -> bool {
        self.b.promotion.banned_peers.contains(&self.ids[p])
    }

    fn step(&mut self, act: &Act, out: &mut Vec<Finding>) {
        if self.dead {
            return;
        }
        self.steps += 1;
        self.hist = fp_mix(self.hist, act.code());
        let pid = |s: &Sys, p: usize| s.ids[p].clone();
        // ---- what the harness hands to the behaviour ----
        enum In {
            Cmd(InitiatorCommand),
            Io(InterfaceEvent<AnyMessage>),
        }
        let mut expect_ban_of: Option<usize> = None;
        let mut share_from: Option<usize> = None;
        let input = match act {
            Act::Include(p) => {
                self.emitted[*p] = [false; 8];
                In::Cmd(InitiatorCommand::IncludePeer(pid(self, *p)))
            }
            Act::Ban(p) => In::Cmd(InitiatorCommand::BanPeer(pid(self, *p))),
            Act::Demote(p) => In::Cmd(InitiatorCommand::DemotePeer(pid(self, *p))),
            Act::Hk => In::Cmd(InitiatorCommand::Housekeeping),
            Act::Idle => In::Io(InterfaceEvent::Idle),
            Act::Connected(p) => {
                self.hs_out[*p] = false;
                self.ka_out[*p] = false;
                self.share_out[*p] = false;
                self.pending[*p].clear();
                self.connect_outstanding[*p] = self.connect_outstanding[*p].saturating_sub(1);
                In::Io(InterfaceEvent::Connected(pid(self, *p)))
            }
            Act::Disconnected(p) => {
                self.emitted[*p] = [false; 8];
                self.pending[*p].clear();
                In::Io(InterfaceEvent::Disconnected(pid(self, *p)))
            }
            Act::Error(p) => In::Io(InterfaceEvent::Error(pid(self, *p), InterfaceError::Other("io error".into()))),
            Act::SentPropose(p) => {
                In::Io(InterfaceEvent::Sent(pid(self, *p), p2pdrive::propose_msg(&[13])))
            }
            Act::RecvAccept(p) => {
                self.hs_out[*p] = false;
                In::Io(InterfaceEvent::Recv(pid(self, *p), vec![p2pdrive::accept_msg(13)]))
            }
            Act::RecvViolating(p, seed) => {
                let m = self.violating_msg(*p, *seed);
                if self.b.peers.contains_key(&self.ids[*p]) && !self.emitted[*p][p2pspec::kind_of(&m).0.index()] {
                    expect_ban_of = Some(*p);
                }
                In::Io(InterfaceEvent::Recv(pid(self, *p), vec![m]))
            }
            Act::SentShareReq(p) => {
                In::Io(InterfaceEvent::Sent(pid(self, *p), AnyMessage::PeerSharing(proto::peersharing::Message::ShareRequest(10))))
            }
            Act::RecvSharePeers(p, mask) => {
                self.share_out[*p] = false;
                share_from = Some(*p);
                let addrs = self.ids.iter().enumerate().filter(|(i, _)| mask & (1 << i) != 0).map(|(_, q)| p2pdrive::pid_address(q)).collect();
                In::Io(InterfaceEvent::Recv(pid(self, *p), vec![AnyMessage::PeerSharing(proto::peersharing::Message::SharePeers(addrs))]))
            }
            Act::SentNext(p) => match self.pending[*p].pop_front() {
                Some(m) => {
                    match p2pspec::kind_of(&m) {
                        (Proto::Handshake, _) => self.hs_out[*p] = true,
                        (Proto::KeepAlive, _) => self.ka_out[*p] = true,
                        (Proto::PeerSharing, _) => self.share_out[*p] = true,
                        _ => {}
                    }
                    In::Io(InterfaceEvent::Sent(pid(self, *p), m))
                }
                None => return,
            },
            Act::RecvKeepAliveResp(p) => {
                self.ka_out[*p] = false;
                In::Io(InterfaceEvent::Recv(pid(self, *p), vec![AnyMessage::KeepAlive(proto::keepalive::Message::ResponseKeepAlive(u16::MAX))]))
            }
            Act::RecvAny(p, seed) => In::Io(InterfaceEvent::Recv(pid(self, *p), vec![p2pgen::msg_from_seed(*seed)])),
            Act::SentAny(p, seed) => {
                let m = p2pgen::msg_from_seed(*seed);
                In::Io(InterfaceEvent::Sent(pid(self, *p), m))
            }
        };
        // any traffic of a protocol (either direction) makes later messages of it ambiguous
        match &input {
            In::Io(InterfaceEvent::Sent(q, m)) if self.b.peers.contains_key(q) => {
                if let Some(qi) = self.idx(q) {
                    self.emitted[qi][p2pspec::kind_of(m).0.index()] = true;
                }
            }
            In::Io(InterfaceEvent::Recv(q, ms)) if self.b.peers.contains_key(q) => {
                if let Some(qi) = self.idx(q) {
                    for m in ms {
                        self.emitted[qi][p2pspec::kind_of(m).0.index()] = true;
                    }
                }
            }
            _ => {}
        }
        let ban_known = if let Act::Ban(p) = act { Some(self.b.peers.contains_key(&self.ids[*p])) } else { None };
        let share_state_before = share_from.map(|p| self.b.peers.get(&self.ids[p]).map(|s| format!("{:?}", s)).unwrap_or_default());

        // ---- run the step ----
        let is_cmd = matches!(input, In::Cmd(_));
        let entry = || if is_cmd { format!("execute({})", act.kind()) } else { format!("handle_io({})", act.kind()) };
        let b = &mut self.b;
        let r = pv::panics::catch(move || match input {
            In::Cmd(c) => b.execute(c),
            In::Io(e) => b.handle_io(e),
        });
        if let Err(p) = r {
            out.push(Finding { sig: format!("panic:{}:{}", entry(), p.site()), what: format!("{} panicked: {}", entry(), p.msg) });
            self.dead = true;
            return;
        }
        let b = &mut self.b;
        let outputs = match pv::panics::catch(move || p2pdrive::drain(b)) {
            Ok(o) => o,
            Err(p) => {
                out.push(Finding { sig: format!("panic:poll_next after {}:{}", entry(), p.site()), what: format!("polling the output stream panicked: {}", p.msg) });
                self.dead = true;
                return;
            }
        };

        // ---- bookkeeping that precedes the checks ----
        if let (Act::Ban(p), Some(known)) = (act, ban_known) {
            if self.cmd_banned[*p].is_none() {
                self.cmd_banned[*p] = Some(known);
            }
        }
        if let (Some(p), Some(before)) = (share_from, share_state_before) {
            // discovery consumed the answer iff the peer-sharing state went to Done in this step
            let after = self.b.peers.get(&self.ids[p]).map(|s| format!("{:?}", s)).unwrap_or_default();
            if !before.contains("peersharing: Done") && after.contains("peersharing: Done") {
                self.tainted = true;
            }
        }

        // ---- history rule over the emitted commands ----
        for o in &outputs {
            match o {
                BehaviorOutput::InterfaceCommand(InterfaceCommand::Connect(q)) => {
                    self.connects += 1;
                    if let Some(qi) = self.idx(q) {
                        self.connect_outstanding[qi] += 1;
                        let listed = self.listed(qi);
                        if listed {
                            out.push(Finding {
                                sig: "C27:connect-after-ban:ban=listed".into(),
                                what: format!("Connect({q}) emitted by {} although the peer is in promotion.banned_peers", act.kind()),
                            });
                        } else if let Some(known) = self.cmd_banned[qi] {
                            let k = if known { "peer_known" } else { "peer_unknown" };
                            out.push(Finding {
                                sig: format!("C27:connect-after-ban:ban=command:{k}"),
                                what: format!(
                                    "Connect(peer {qi}) emitted by {} after an explicit BanPeer(peer {qi}) ({}); banned_peers does not contain it",
                                    act.kind(),
                                    if known { "the peer was tracked when it was banned" } else { "the peer was not yet tracked when it was banned" }
                                ),
                            });
                        }
                    }
                }
                BehaviorOutput::InterfaceCommand(InterfaceCommand::Send(q, m)) => {
                    if let Some(qi) = self.idx(q) {
                        let (pr, _) = p2pspec::kind_of(m);
                        self.emitted[qi][pr.index()] = true;
                        if self.pending[qi].len() < 64 {
                            self.pending[qi].push_back(m.clone());
                        }
                    }
                }
                _ => {}
            }
        }

        // ---- invariant at the quiescent point ----
        let pr = &self.b.promotion;
        let sets = [("cold", &pr.cold_peers), ("warm", &pr.warm_peers), ("hot", &pr.hot_peers), ("banned", &pr.banned_peers)];
        let mut now: BTreeSet<String> = BTreeSet::new();
        let mut detail: Vec<(String, String)> = vec![];
        for i in 0..4 {
            for j in i + 1..4 {
                if let Some(p) = sets[i].1.intersection(sets[j].1).next() {
                    let id = format!("overlap:{}+{}", sets[i].0, sets[j].0);
                    detail.push((id.clone(), format!("peer {} ({p}) is in {}_peers and in {}_peers", self.idx(p).map(|x| x.to_string()).unwrap_or("?".into()), sets[i].0, sets[j].0)));
                    now.insert(id);
                }
            }
        }
        if pr.warm_peers.len() > self.lim.max_warm {
            now.insert("limit:warm".into());
            detail.push(("limit:warm".into(), format!("{} warm peers, max_warm_peers = {}", pr.warm_peers.len(), self.lim.max_warm)));
        }
        if pr.hot_peers.len() > self.lim.max_hot {
            now.insert("limit:hot".into());
            detail.push(("limit:hot".into(), format!("{} hot peers, max_hot_peers = {}", pr.hot_peers.len(), self.lim.max_hot)));
        }
        let total_distinct = {
            let mut all: std::collections::HashSet<&PeerId> = std::collections::HashSet::new();
            all.extend(pr.cold_peers.iter());
            all.extend(pr.warm_peers.iter());
            all.extend(pr.hot_peers.iter());
            all.len()
        };
        if total_distinct > self.lim.max_peers {
            now.insert("limit:total".into());
            detail.push(("limit:total".into(), format!("{total_distinct} distinct peers in cold+warm+hot, max_peers = {}", self.lim.max_peers)));
        }
        let had_overlap = self.broken.iter().any(|b| b.starts_with("overlap"));
        let had_limit = self.broken.iter().any(|b| b.starts_with("limit"));
        for (id, d) in detail {
            // once an invariant of a family is broken, further breakage of the same family in the same
            // run is a consequence (e.g. a peer that is in cold and warm later moves to warm and hot)
            let secondary = if id.starts_with("overlap") { had_overlap } else { had_limit };
            if !self.broken.contains(&id) && !secondary {
                out.push(Finding { sig: format!("C27:{id}:by={}", act.kind()), what: format!("after {}: {d}", act.kind()) });
            }
        }
        self.broken = now;

        // ---- violators must be listed after the next housekeeping pass ----
        if let Some(p) = expect_ban_of {
            self.owes_ban[p] = true;
        }
        for p in 0..self.ids.len() {
            // banned_peers only grows: a listed peer has met the obligation
            if self.owes_ban[p] && self.listed(p) {
                self.owes_ban[p] = false;
            }
        }
        let any_listed = !self.b.promotion.banned_peers.is_empty() || self.cmd_banned.iter().any(|c| c.is_some());
        if matches!(act, Act::Hk | Act::Idle) {
            for p in 0..self.ids.len() {
                if self.owes_ban[p] {
                    self.owes_ban[p] = false;
                    if !self.listed(p) {
                        out.push(Finding {
                            sig: "C27:violator-not-banned".into(),
                            what: format!("peer {p} delivered an unsolicited server message while tracked, but is not in banned_peers after the next housekeeping pass"),
                        });
                    }
                }
            }
            if self.any_ban {
                self.hk_after_ban = true;
            }
        }
        if any_listed {
            self.any_ban = true;
        }
    }

    /// everything that can influence future behaviour or future verdicts in the exhaustive part
    /// (`pending` / `connect_outstanding` only steer the random generator and are left out)
    fn key(&self) -> u64 {
        if self.dead {
            return 0xdead;
        }
        let mut s = String::with_capacity(2048);
        use std::fmt::Write;
        let pr = &self.b.promotion;
        for (i, p) in self.ids.iter().enumerate() {
            match self.b.peers.get(p) {
                Some(st) => write!(s, "{:?}", st).unwrap(),
                None => s.push('-'),
            }
            write!(
                s,
                "|{}{}{}{}|{}|{}|{};",
                pr.cold_peers.contains(p) as u8,
                pr.warm_peers.contains(p) as u8,
                pr.hot_peers.contains(p) as u8,
                pr.banned_peers.contains(p) as u8,
                self.cmd_banned[i].is_some() as u8,
                (self.emitted[i][Proto::BlockFetch.index()] && !pr.banned_peers.contains(p)) as u8,
                self.owes_ban[i] as u8,
            )
            .unwrap();
        }
        // the behaviour only ever compares error_count with max_error_count: saturate it
        let mut out = String::with_capacity(s.len());
        let mut rest = s.as_str();
        while let Some(i) = rest.find("error_count: ") {
            let j = i + "error_count: ".len();
            out.push_str(&rest[..j]);
            let digits: String = rest[j..].chars().take_while(|c| c.is_ascii_digit()).collect();
            let v: u64 = digits.parse().unwrap_or(0);
            write!(out, "{}", v.min(self.lim.max_err as u64 + 1)).unwrap();
            rest = &rest[j + digits.len()..];
        }
        out.push_str(rest);
        let mut s = out;
        // peer names differ from run to run (they are chosen to fit the map's hasher)
        for (i, p) in self.ids.iter().enumerate() {
            let name = format!("{}, {}", p.host, p.port);
            if s.contains(&name) {
                s = s.replace(&name, &format!("P{i}"));
            }
        }
        let s = p2pdrive::canon_version_tables(&s);
        let mut k = fp(s.as_bytes());
        if self.tainted {
            k = fp_mix(k, self.hist);
        }
        k
    }

    fn nontrivial(&self) -> bool {
        self.any_ban && self.hk_after_ban
    }
}

fn alphabet(n: usize) -> Vec<Act> {
    let mut v = vec![Act::Hk];
    let all = (1u32 << n) - 1;
    for p in 0..n {
        v.extend([
            Act::Include(p),
            Act::Ban(p),
            Act::Demote(p),
            Act::Connected(p),
            Act::Disconnected(p),
            Act::Error(p),
            Act::SentPropose(p),
            Act::RecvAccept(p),
            Act::RecvViolating(p, 0),
            Act::RecvSharePeers(p, all),
        ]);
    }
    v
}

fn replay_json(mode: &str, n: usize, lim: &Limits, seq: &[Act]) -> Value {
    json!({"mode": mode, "peers": n, "limits": lim.to_json(), "actions": seq.iter().map(|a| a.to_json()).collect::<Vec<_>>()})
}

fn report(ctx: &mut Ctx, fs: Vec<Finding>, mode: &str, n: usize, lim: &Limits, seq: &[Act]) {
    for f in fs {
        let what = format!("[{mode}, {n} peers, limits {}] after {} steps: {}", lim.to_json(), seq.len(), f.what);
        ctx.violation(&f.sig, &what, replay_json(mode, n, lim, seq));
    }
}

/// `strict`: only actions that a well-behaved interface / peer would produce in the current
/// situation (None when the drawn action has no such instance); otherwise any peer may be hit.
fn random_action(sys: &Sys, r: &mut Rng, w: &[u64], strict: bool) -> Option<Act> {
    let n = sys.ids.len();
    let total: u64 = w.iter().sum();
    let mut x = r.below(total);
    let mut k = 0;
    while x >= w[k] {
        x -= w[k];
        k += 1;
    }
    let any = r.usize_below(n);
    // prefer peers for which the action means something
    let with = |r: &mut Rng, f: &dyn Fn(usize) -> bool| -> Option<usize> {
        let c: Vec<usize> = (0..n).filter(|i| f(*i)).collect();
        if c.is_empty() {
            if strict {
                None
            } else {
                Some(any)
            }
        } else if !strict && r.chance(1, 5) {
            Some(any)
        } else {
            Some(c[r.usize_below(c.len())])
        }
    };
    let tracked = |i: usize| sys.b.peers.contains_key(&sys.ids[i]);
    let inited = |i: usize| sys.b.peers.get(&sys.ids[i]).map(|s| s.is_initialized()).unwrap_or(false);
    Some(match k {
        0 => Act::Include(with(r, &|i| !tracked(i))?),
        1 => Act::Ban(with(r, &tracked)?),
        2 => Act::Demote(with(r, &tracked)?),
        3 => Act::Hk,
        4 => Act::Connected(with(r, &|i| sys.connect_outstanding[i] > 0)?),
        5 => Act::Disconnected(with(r, &tracked)?),
        6 => Act::Error(with(r, &tracked)?),
        7 => Act::SentNext(with(r, &|i| !sys.pending[i].is_empty())?),
        8 => Act::SentPropose(with(r, &|i| tracked(i) && !strict)?),
        9 => Act::RecvAccept(with(r, &|i| if strict { sys.hs_out[i] } else { tracked(i) && !inited(i) })?),
        10 => Act::RecvViolating(with(r, &tracked)?, 1 + r.next_u64() / 2),
        11 => Act::SentShareReq(with(r, &|i| inited(i) && !strict)?),
        12 => Act::RecvSharePeers(
            with(r, &|i| if strict { sys.share_out[i] } else { inited(i) })?,
            r.next_u32() & ((1u32 << n) - 1) & if r.bool() { r.next_u32() } else { u32::MAX },
        ),
        13 => Act::RecvAny(with(r, &|i| tracked(i) && !strict)?, r.next_u64()),
        14 => Act::SentAny(with(r, &|i| tracked(i) && !strict)?, r.next_u64()),
        15 => Act::Idle,
        _ => Act::RecvKeepAliveResp(with(r, &|i| if strict { sys.ka_out[i] } else { inited(i) })?),
    })
}

const BASE_WEIGHTS: [u64; 17] = [10, 3, 2, 14, 10, 3, 4, 14, 2, 10, 3, 2, 4, 3, 2, 1, 4];

fn main() {
    let mut ctx = Ctx::from_args("C27");
    for b in p2pspec::self_check() {
        ctx.inconclusive(&format!("protocol tables inconsistent: {b}"));
    }
    if let Some(p) = ctx.replay.clone() {
        let v: Value = serde_json::from_slice(&std::fs::read(p).unwrap()).unwrap();
        let rp = &v["replay"];
        let n = rp["peers"].as_u64().unwrap() as usize;
        let lim = Limits::from_json(&rp["limits"]);
        let seq: Vec<Act> = rp["actions"].as_array().unwrap().iter().map(Act::from_json).collect();
        let mut r = Rng::new(1);
        let mut sys = Sys::new(n, lim, &mut r);
        for (i, a) in seq.iter().enumerate() {
            let mut fs = vec![];
            sys.step(a, &mut fs);
            let pr = &sys.b.promotion;
            let names = |s: &std::collections::HashSet<PeerId>| {
                let mut v: Vec<usize> = s.iter().filter_map(|p| sys.idx(p)).collect();
                v.sort();
                v
            };
            println!("step {i}: {:?}  -> cold={:?} warm={:?} hot={:?} banned={:?}", a, names(&pr.cold_peers), names(&pr.warm_peers), names(&pr.hot_peers), names(&pr.banned_peers));
            for f in fs {
                println!("   VIOLATION {} :: {}", f.sig, f.what);
                ctx.violation(&f.sig, &f.what, json!(null));
            }
        }
        println!("replayed: violations={}", ctx.n_violations());
        ctx.finish();
    }

    // ---------------- part 1: bounded-exhaustive exploration, 3 peers ----------------
    let n = 3;
    // the property's bound is 8; the thorough tier goes one step further
    let depth = std::env::var("C27_DEPTH").ok().and_then(|s| s.parse().ok()).unwrap_or(if ctx.quick() { 8usize } else { 9 });
    let configs = [
        Limits { max_peers: 3, max_warm: 2, max_hot: 1, max_err: 1 },
        Limits { max_peers: 2, max_warm: 1, max_hot: 1, max_err: 0 },
    ];
    let alpha = alphabet(n);
    ctx.note("exhaustive_alphabet", json!(alpha.iter().map(|a| format!("{:?}", a)).collect::<Vec<_>>()));
    let mut complete = true;
    let cap = if ctx.quick() { 3_000_000 } else { 20_000_000 };
    for (ci, lim) in configs.iter().enumerate() {
        // roots: all sequences of length 2, dealt to the shards
        let mut roots: Vec<Vec<Act>> = vec![];
        let mut idx = 0u64;
        for a in &alpha {
            for b in &alpha {
                if ctx.owns(idx) {
                    roots.push(vec![a.clone(), b.clone()]);
                }
                idx += 1;
            }
        }
        let lim = *lim;
        let mut mk_rng = ctx.sub_rng("c27-exh", ci as u64);
        let nontriv = std::cell::RefCell::new(Vec::<u64>::new());
        let live_steps = std::cell::Cell::new(0u64);
        let order_bad = std::cell::Cell::new(0u64);
        let stats = {
            let ctx_cell = std::cell::RefCell::new(&mut ctx);
            let mut fresh = || Sys::new(n, lim, &mut mk_rng);
            let enabled = |s: &Sys| if s.dead { vec![] } else { alpha.clone() };
            let mut apply = |s: &mut Sys, a: &Act, live: bool, prefix: &[Act]| {
                let mut fs = vec![];
                s.step(a, &mut fs);
                if live {
                    live_steps.set(live_steps.get() + 1);
                    if !p2pdrive::order_is_canonical(&s.b.peers, &s.ids) {
                        order_bad.set(order_bad.get() + 1);
                    }
                    if !fs.is_empty() {
                        let mut seq = prefix.to_vec();
                        seq.push(a.clone());
                        report(&mut ctx_cell.borrow_mut(), fs, "exhaustive", n, &lim, &seq);
                    }
                    if s.nontrivial() {
                        let mut v = nontriv.borrow_mut();
                        if v.len() < 4000 {
                            v.push(fp_mix(s.hist, ci as u64));
                        }
                    }
                }
            };
            let key = |s: &Sys| s.key();
            let mut ex = Explorer { fresh: &mut fresh, enabled: &enabled, apply: &mut apply, key: &key };
            let (st, div) = ex.run_collect(roots, depth, cap);
            for d in div {
                eprintln!("DIVERGED: {:?}", d);
            }
            st
        };
        ctx.evals(live_steps.get());
        for f in nontriv.borrow().iter() {
            ctx.nontrivial(*f);
        }
        ctx.add("exh_sequences_executed", stats.sequences_executed);
        ctx.add("exh_steps_executed_incl_replays", stats.steps_executed);
        ctx.add("exh_pruned_by_state_equivalence", stats.pruned);
        ctx.add("exh_replay_divergences", stats.replay_divergences);
        ctx.add("exh_iteration_order_anomalies", order_bad.get());
        for (d, c) in stats.new_states_per_depth.iter().enumerate() {
            ctx.add(&format!("exh_cfg{ci}_new_states_depth{d}"), *c);
        }
        if stats.truncated || stats.max_depth_reached < depth {
            complete = false;
            ctx.inconclusive(&format!("exhaustive part truncated by the state cap in config {ci} (depth reached {})", stats.max_depth_reached));
        }
        if stats.replay_divergences > 0 || order_bad.get() > 0 {
            complete = false;
        }
    }
    ctx.note("exhaustive", json!(complete));
    ctx.note(
        "exhaustive_bound",
        json!(format!(
            "all action sequences of length <= {depth} over {n} peers from the empty behaviour, alphabet of {} actions, for {} limit configurations; a sequence is not extended when it reaches a monitor state (full Debug state of every peer + promotion sets + monitor history flags) already expanded at the same or a smaller depth",
            alpha.len(),
            configs.len()
        )),
    );
    ctx.note("exhaustive_limit_configs", json!(configs.iter().map(|l| l.to_json()).collect::<Vec<_>>()));

    // ---------------- part 2: random sequences, 20 peers, length 200 ----------------
    let cases = ctx.budget(2_000, 200_000);
    let n = 20;
    for case in 0..cases {
        let mut r = ctx.sub_rng("c27-rand", case);
        let lim = Limits { max_peers: 1 + r.usize_below(20), max_warm: r.usize_below(9), max_hot: r.usize_below(5), max_err: r.below(4) as u32 };
        // profile 0: orderly interface and peers, commands interleaved (bans by command / error threshold);
        // profile 1: orderly with occasional hostile events; profile 2: arbitrary events
        let profile = r.below(3);
        let mut w = BASE_WEIGHTS;
        if profile == 2 {
            for x in w.iter_mut() {
                *x = match r.below(6) {
                    0 => 0,
                    1 => *x * 3,
                    _ => *x,
                };
            }
        } else {
            // Ban, Demote, Disconnected, Error, Recv(violating) stay rare
            w[1] = r.below(3);
            w[2] = r.below(3);
            w[5] = r.below(3);
            w[6] = r.below(4);
            w[10] = r.below(2);
        }
        w[0] = w[0].max(4);
        w[3] = w[3].max(6);
        let mut sys = Sys::new(n, lim, &mut r);
        let mut seq: Vec<Act> = Vec::with_capacity(200);
        let mut fs = vec![];
        for _ in 0..200 {
            let strict = profile == 0 || (profile == 1 && !r.chance(1, 12));
            let mut a = None;
            for _ in 0..8 {
                a = random_action(&sys, &mut r, &w, strict);
                if a.is_some() {
                    break;
                }
            }
            let a = a.unwrap_or(Act::Hk);
            sys.step(&a, &mut fs);
            seq.push(a);
            ctx.eval();
            if !fs.is_empty() {
                report(&mut ctx, std::mem::take(&mut fs), "random", n, &lim, &seq);
            }
            if sys.dead {
                break;
            }
        }
        ctx.count("random_sequences");
        ctx.count(&format!("random_sequences_profile{profile}"));
        ctx.add("random_steps", sys.steps);
        ctx.add("random_connects_emitted", sys.connects);
        let pr = &sys.b.promotion;
        ctx.max("random_max_banned", pr.banned_peers.len() as u64);
        ctx.max("random_max_hot", pr.hot_peers.len() as u64);
        ctx.max("random_max_warm", pr.warm_peers.len() as u64);
        if pr.hot_peers.len() == lim.max_hot && lim.max_hot > 0 {
            ctx.count("random_hot_limit_reached");
        }
        if pr.warm_peers.len() == lim.max_warm && lim.max_warm > 0 {
            ctx.count("random_warm_limit_reached");
        }
        if pr.cold_peers.len() + pr.warm_peers.len() + pr.hot_peers.len() >= lim.max_peers {
            ctx.count("random_total_limit_reached");
        }
        if !pr.banned_peers.is_empty() {
            ctx.count("random_sequences_with_listed_ban");
        }
        if sys.tainted {
            ctx.count("random_sequences_with_discovery");
        }
        if !p2pdrive::order_is_canonical(&sys.b.peers, &sys.ids) {
            ctx.count("random_iteration_order_anomalies");
        }
        if sys.nontrivial() {
            ctx.nontrivial(sys.hist);
        }
        if case < 2 {
            ctx.sample(json!({"limits": lim.to_json(), "first_actions": seq.iter().take(25).map(|a| format!("{:?}", a)).collect::<Vec<_>>(), "banned_at_end": pr.banned_peers.len(), "hot_at_end": pr.hot_peers.len()}));
        }
    }
    ctx.finish();
}
