//! C22 — every mini-protocol message (and every payload type with its own codec) of both stacks
//! encodes to exactly one well-formed CBOR item and decodes back to an equal value.
//!
//! Oracle: own strict RFC 8949 walker (`pv::cbor::strict_check`) + round trip (decode consumes all
//! bytes; Debug form and re-encoding equal; handshake tables compared as maps).
//!
//! Workload: `pv::netgen::registry()` — every codec type bottom-up, every variant forced in turn.
//! Phase A (identical in all shards, seed-derived): find the atoms (`Type::Variant`) whose own codec
//! is broken, testing each atom with children restricted to atoms not yet found broken, so that a
//! defect is attributed to the innermost type that has it.  Phase B (sharded): many instances of every
//! atom, children again restricted to clean atoms.
use pv::netgen::*;
use pv::*;
use std::collections::{BTreeMap, BTreeSet};

const DISCOVERY_K: u64 = 24;

fn case_seed(seed: u64, phase: u64, entry: usize, variant: usize, k: u64) -> u64 {
    fp_mix(fp_mix(seed ^ 0xC22, phase), fp_mix((entry as u64) << 16 | variant as u64, k))
}

struct CaseResult {
    blocked: bool,
    checked: Option<Checked>,
    trace: Vec<String>,
}

fn run_case(e: &TypeEntry, variant: usize, cseed: u64, avoid: &BTreeSet<String>) -> CaseResult {
    let mut rng = Rng::new(cseed);
    let mut g = G::new(&mut rng);
    g.avoid = avoid.clone();
    // a few attempts: optional children that need an avoided atom make the value "blocked"
    for _ in 0..6 {
        g.reset();
        g.force = Some((e.ty.name, variant));
        let c = (e.run)(&mut g);
        if !g.blocked {
            return CaseResult { blocked: false, checked: Some(c), trace: g.trace.clone() };
        }
    }
    CaseResult { blocked: true, checked: None, trace: vec![] }
}

fn sig_of(e: &TypeEntry, variant: usize, rule: &str) -> String {
    let atom = e.ty.atom(variant);
    let atom = atom.strip_prefix("v2:").unwrap_or(&atom).to_string();
    format!("C22:{}:{}:{}", e.stack, atom, rule)
}

fn nested(bytes: &[u8]) -> bool {
    match cbor::parse_prefix(bytes) {
        Ok(it) => it.children.iter().any(|c| matches!(c.major, 4 | 5 | 6)),
        Err(_) => false,
    }
}

fn report(ctx: &mut Ctx, sig_for: &BTreeMap<String, String>, e: &TypeEntry, variant: usize, cseed: u64, avoid: &BTreeSet<String>, c: &Checked) {
    let rule = c.outcome.rule();
    let sig = match sig_for.get(&e.ty.atom(variant)) {
        // same atom, same rule as in discovery: same signature; a different rule is a different finding
        Some(s) if s.ends_with(&format!(":{rule}")) => s.clone(),
        _ => sig_of(e, variant, rule),
    };
    let bytes = c.bytes.as_ref().map(|b| hex_short(b)).unwrap_or_else(|| "-".into());
    let what = format!(
        "{} {} value {} encodes to {} : {:?} (property: one well-formed item that decodes back to an equal value)",
        e.stack,
        e.ty.atom(variant),
        c.debug,
        bytes,
        c.outcome
    );
    ctx.violation(
        &sig,
        &what,
        json!({"entry": e.ty.name, "variant": variant, "case_seed": cseed, "avoid": avoid.iter().collect::<Vec<_>>(), "bytes": c.bytes.as_ref().map(|b| hexs(b))}),
    );
}

fn main() {
    let mut ctx = Ctx::from_args("C22");
    let reg = registry();
    if let Some(p) = ctx.replay.clone() {
        let v: serde_json::Value = serde_json::from_slice(&std::fs::read(p).unwrap()).unwrap();
        let r = &v["replay"];
        let name = r["entry"].as_str().unwrap();
        let variant = r["variant"].as_u64().unwrap() as usize;
        let cseed = r["case_seed"].as_u64().unwrap();
        let avoid: BTreeSet<String> = r["avoid"].as_array().map(|a| a.iter().map(|x| x.as_str().unwrap().to_string()).collect()).unwrap_or_default();
        let e = reg.iter().find(|e| e.ty.name == name).expect("entry");
        let res = run_case(e, variant, cseed, &avoid);
        match res.checked {
            Some(c) => {
                println!("replayed {}: value {} bytes {} -> {:?}", e.ty.atom(variant), c.debug, c.bytes.as_ref().map(|b| hex_short(b)).unwrap_or_default(), c.outcome);
                if c.outcome != Outcome::Ok {
                    report(&mut ctx, &BTreeMap::new(), e, variant, cseed, &avoid, &c);
                }
            }
            None => println!("replayed {}: blocked", e.ty.atom(variant)),
        }
        println!("replayed: violations={}", ctx.n_violations());
        ctx.finish();
    }

    // ---- phase A: discovery of atoms with a broken codec of their own --------------------
    let mut broken: BTreeSet<String> = BTreeSet::new();
    let mut blocked_atoms: BTreeSet<String> = BTreeSet::new();
    // atom -> signature to use for it (variants of one type that all fail by the same rule share one)
    let mut sig_for: BTreeMap<String, String> = BTreeMap::new();
    for (ei, e) in reg.iter().enumerate() {
        // judge all variants of the type against (broken so far + own variants judged broken in the
        // previous round); repeat until stable (matters for recursive types only)
        let mut own_prev: BTreeSet<String> = BTreeSet::new();
        let mut found: Vec<(usize, u64, BTreeSet<String>, Checked)> = vec![];
        let mut blocked_here: BTreeSet<String> = BTreeSet::new();
        let mut ran = 0u64;
        for _round in 0..4 {
            let avoid: BTreeSet<String> = broken.union(&own_prev).cloned().collect();
            let mut own: BTreeSet<String> = BTreeSet::new();
            found.clear();
            blocked_here.clear();
            ran = 0;
            for variant in 0..e.ty.variants.len() {
                let atom = e.ty.atom(variant);
                let mut av = avoid.clone();
                av.remove(&atom); // the forced top-level pick ignores it anyway; inner occurrences may use it
                av.extend(own.iter().cloned());
                let mut any_run = false;
                for k in 0..DISCOVERY_K {
                    let cs = case_seed(ctx.seed, 1, ei, variant, k);
                    let res = run_case(e, variant, cs, &av);
                    if res.blocked {
                        continue;
                    }
                    any_run = true;
                    ran += 1;
                    let c = res.checked.unwrap();
                    if c.outcome != Outcome::Ok {
                        own.insert(atom.clone());
                        found.push((variant, cs, av.clone(), c));
                        break;
                    }
                }
                if !any_run {
                    blocked_here.insert(atom);
                }
            }
            if own == own_prev {
                break;
            }
            own_prev = own;
        }
        if ctx.shard == 0 {
            ctx.evals(ran); // instances checked in the final round
        }
        let rules: BTreeSet<&str> = found.iter().map(|f| f.3.outcome.rule()).collect();
        let collapse = e.ty.variants.len() >= 2 && found.len() == e.ty.variants.len() && rules.len() == 1;
        for (variant, cs, av, c) in &found {
            let atom = e.ty.atom(*variant);
            let sig = if collapse {
                let n = e.ty.name.strip_prefix("v2:").unwrap_or(e.ty.name);
                format!("C22:{}:{}::*:{}", e.stack, n, c.outcome.rule())
            } else {
                sig_of(e, *variant, c.outcome.rule())
            };
            sig_for.insert(atom.clone(), sig);
            report(&mut ctx, &sig_for, e, *variant, *cs, av, c);
            broken.insert(atom);
        }
        blocked_atoms.extend(blocked_here);
    }
    for a in &broken {
        ctx.set_insert("atoms_with_broken_codec", a);
    }
    for a in &blocked_atoms {
        ctx.set_insert("atoms_not_testable_without_a_broken_component", a);
    }

    // ---- phase B: sharded bulk ------------------------------------------------------------
    let n_atoms: u64 = reg.iter().map(|e| e.ty.variants.len() as u64).sum();
    let per_atom_total = ctx.budget(100_000, 5_000_000) as f64 / n_atoms as f64; // per shard already
    let mut checked_atoms: BTreeMap<String, u64> = BTreeMap::new();
    for (ei, e) in reg.iter().enumerate() {
        for variant in 0..e.ty.variants.len() {
            let atom = e.ty.atom(variant);
            let is_broken = broken.contains(&atom);
            // messages get three times the share of component types
            let w = if e.is_message { 2.2 } else { 0.8 };
            let mut n = (per_atom_total * w).ceil() as u64;
            if is_broken {
                n = n.min(3);
            }
            if blocked_atoms.contains(&atom) {
                n = n.min(2);
            }
            n = n.max(1);
            for k in 0..n {
                let cs = case_seed(ctx.seed, 2 + ctx.shard as u64, ei, variant, k);
                let res = run_case(e, variant, cs, &broken);
                if res.blocked {
                    ctx.count("instances_discarded_need_broken_component");
                    continue;
                }
                let c = res.checked.unwrap();
                ctx.eval();
                *checked_atoms.entry(atom.clone()).or_insert(0) += 1;
                let set = format!("variants_seen:{}:{}", e.stack, e.group);
                for a in &res.trace {
                    ctx.set_insert(&set, a);
                }
                if e.is_message {
                    ctx.count(&format!("messages:{}:{}", e.stack, e.group));
                    // generator self-check: the Debug form must name the variant the label claims
                    let vn = e.ty.variants[variant].split('(').next().unwrap();
                    if !c.debug.starts_with(vn) {
                        ctx.inconclusive(&format!("generator label {atom} does not match value {}", c.debug));
                    }
                }
                if let Some(b) = &c.bytes {
                    ctx.max("longest_encoding", b.len() as u64);
                    if nested(b) {
                        ctx.nontrivial(fp(b));
                        ctx.count("nontrivial_nested");
                    }
                }
                if c.outcome != Outcome::Ok {
                    report(&mut ctx, &sig_for, e, variant, cs, &broken, &c);
                } else {
                    ctx.count("roundtrip_ok");
                    if ctx.want_sample() && e.is_message && k == 1 && variant % 3 == 2 {
                        ctx.sample(json!({"type": atom, "value": c.debug, "bytes": hex_short(c.bytes.as_ref().unwrap())}));
                    }
                }
            }
        }
    }
    // every variant of every type must have been checked (or be provably untestable in isolation)
    let mut missing = vec![];
    for e in reg.iter() {
        for variant in 0..e.ty.variants.len() {
            let atom = e.ty.atom(variant);
            if !checked_atoms.contains_key(&atom) && !blocked_atoms.contains(&atom) {
                missing.push(atom);
            }
        }
    }
    ctx.add("atoms_total", 0);
    ctx.note("atoms_total", json!(n_atoms));
    ctx.note("atoms_checked", json!(checked_atoms.len()));
    ctx.note("all_variants_checked", json!(missing.is_empty()));
    if !missing.is_empty() {
        ctx.inconclusive(&format!("variants never checked: {:?}", &missing[..missing.len().min(8)]));
    }
    ctx.finish();
}
