//! C11 — Ed25519 signing and verification agree with RFC 8032.
//!
//! Code under test: pallas_crypto::key::ed25519 (backend: cryptoxide). Oracle: ed25519-dalek 2.2
//! (SigningKey / hazmat::ExpandedSecretKey + raw_sign / VerifyingKey::verify), pinned at start-up to the
//! RFC 8032 section 7.1 vectors (a failed pin makes the run inconclusive, never a violation).
//! Per key: public key and signature must equal the reference byte for byte, the own signature must
//! verify, and for EVERY single-bit tampering of the public key (256) and of the signature (512) and 64
//! random single-bit tamperings of the message the verdict of PublicKey::verify must equal the reference
//! verdict. SecretKeyExtended::from_bytes is checked on all 32 combinations of the five clamping bits.
use ed25519_dalek as dalek;
use dalek::hazmat::{raw_sign, ExpandedSecretKey};
use dalek::{Signer, Verifier};
use pallas_crypto::key::ed25519::{PublicKey, SecretKey, SecretKeyExtended, Signature};
use pv::*;
use sha2::{Digest, Sha512};
use std::convert::TryFrom;
use std::io::Write as _;

const RFC: [(&str, &str, &str, &str); 3] = [
    (
        "9d61b19deffd5a60ba844af492ec2cc44449c5697b326919703bac031cae7f60",
        "d75a980182b10ab7d54bfed3c964073a0ee172f3daa62325af021a68f707511a",
        "",
        "e5564300c360ac729086e2cc806e828a84877f1eb8e5d974d873e065224901555fb8821590a33bacc61e39701cf9b46bd25bf5f0595bbe24655141438e7a100b",
    ),
    (
        "4ccd089b28ff96da9db6c346ec114e0f5b8a319f35aba624da8cf6ed4fb8a6fb",
        "3d4017c3e843895a92b70aa74d1b7ebc9c982ccf2ec4968cc0cd55f12af4660c",
        "72",
        "92a009a9f0d4cab8720e820b5f642540a2b27b5416503f8fb3762223ebdb69da085ac1e43e15996e458f3613d0f11d8c387b2eaeb4302aeeb00d291612bb0c00",
    ),
    (
        "c5aa8df43f9f837bedb7442f31dcb7b166d38535076f094b85ce3a2e0b4458f7",
        "fc51cd8e6218a1a38da47ed00230f0580816ed13ba3303ac5deb911548908025",
        "af82",
        "6291d657deec24024827e69c3abe01a30ce548a284743a445e3680d7db5ac3ac18ff9b538d16f290ae67f760984dc6594a7c15e9716ed28dc027beceea1ec40a",
    ),
];

fn ref_std(seed: &[u8; 32], msg: &[u8]) -> ([u8; 32], [u8; 64]) {
    let sk = dalek::SigningKey::from_bytes(seed);
    (sk.verifying_key().to_bytes(), sk.sign(msg).to_bytes())
}

fn ref_ext(ext: &[u8; 64], msg: &[u8]) -> ([u8; 32], [u8; 64]) {
    let esk = ExpandedSecretKey::from_bytes(ext);
    let vk = dalek::VerifyingKey::from(&esk);
    (vk.to_bytes(), raw_sign::<Sha512>(&esk, msg, &vk).to_bytes())
}

fn ref_verify(pk: &[u8; 32], msg: &[u8], sig: &[u8; 64]) -> bool {
    let Ok(vk) = dalek::VerifyingKey::from_bytes(pk) else { return false };
    vk.verify(msg, &dalek::Signature::from_bytes(sig)).is_ok()
}

fn pin_oracle() -> Result<u32, String> {
    let mut n = 0;
    for (sk, pk, msg, sig) in RFC {
        let seed: [u8; 32] = hex::decode(sk).unwrap().try_into().unwrap();
        let msg = hex::decode(msg).unwrap();
        let (rpk, rsig) = ref_std(&seed, &msg);
        if hexs(&rpk) != pk || hexs(&rsig) != sig {
            return Err(format!("ed25519-dalek does not reproduce the RFC 8032 vector with secret key {sk}"));
        }
        if !ref_verify(&rpk, &msg, &rsig) {
            return Err("ed25519-dalek rejects an RFC 8032 vector".into());
        }
        // the extended-key path of the oracle: SHA-512 expansion of the RFC seed must give the same key and signature
        let h = Sha512::digest(seed);
        let mut ext = [0u8; 64];
        ext.copy_from_slice(&h);
        ext[0] &= 248;
        ext[31] &= 63;
        ext[31] |= 64;
        let (epk, esig) = ref_ext(&ext, &msg);
        if hexs(&epk) != pk || hexs(&esig) != sig {
            return Err("hazmat::raw_sign on the expanded RFC 8032 key does not reproduce the RFC signature".into());
        }
        n += 1;
    }
    Ok(n)
}

#[derive(Clone, Copy, PartialEq)]
enum Kind {
    Std,
    Ext,
}

impl Kind {
    fn s(self) -> &'static str {
        match self {
            Kind::Std => "standard",
            Kind::Ext => "extended",
        }
    }
}

fn gen_msg(rng: &mut Rng) -> Vec<u8> {
    let n = match rng.below(8) {
        0 => *rng.pick(&[0usize, 1, 2, 63, 64, 65, 111, 112, 113, 127, 128, 129, 1023, 1024]),
        1 | 2 => rng.usize_below(40),
        _ => rng.usize_below(1025),
    };
    rng.bytes(n)
}

fn clamp(mut b: [u8; 64]) -> [u8; 64] {
    b[0] &= 0b1111_1000;
    b[31] &= 0b0011_1111;
    b[31] |= 0b0100_0000;
    b
}

struct Tamper {
    field: &'static str,
    bit: usize,
    pallas: bool,
    reference: bool,
}

/// one key: derive, sign, verify, tamper. Returns what the offline sample needs.
fn key_case(ctx: &mut Ctx, kind: Kind, secret: &[u8], msg: &[u8], full_tamper: bool, log: Option<&mut Vec<serde_json::Value>>) {
    let replay = json!({"kind": kind.s(), "secret": hexs(secret), "msg": hexs(msg)});
    let (rpk, rsig) = match kind {
        Kind::Std => ref_std(secret.try_into().unwrap(), msg),
        Kind::Ext => ref_ext(secret.try_into().unwrap(), msg),
    };
    let r = pv::panics::catch(|| match kind {
        Kind::Std => {
            let a: [u8; 32] = secret.try_into().unwrap();
            let sk = SecretKey::from(a);
            let pk = sk.public_key();
            let sig = sk.sign(msg);
            Ok((pk, sig))
        }
        Kind::Ext => {
            let a: [u8; 64] = secret.try_into().unwrap();
            let sk = SecretKeyExtended::from_bytes(a).map_err(|e| e.to_string())?;
            let pk = sk.public_key();
            let sig = sk.sign(msg);
            Ok((pk, sig))
        }
    });
    ctx.eval();
    ctx.count(if kind == Kind::Std { "standard_keys" } else { "extended_keys" });
    let (pk, sig) = match r {
        Err(p) => {
            ctx.violation(&format!("panic:{}:sign:{}", kind.s(), p.site()), &p.msg, replay);
            return;
        }
        Ok(Err(e)) => {
            let e: String = e;
            ctx.violation("C11:extended:from_bytes-rejects-clamped-key", &format!("SecretKeyExtended::from_bytes({}) failed: {e}", hexs(secret)), replay);
            return;
        }
        Ok(Ok(x)) => x,
    };
    let pkb: [u8; 32] = pk.as_ref().try_into().unwrap();
    let sigb: [u8; 64] = sig.as_ref().try_into().unwrap();
    if pkb != rpk {
        ctx.violation(&format!("C11:{}:public-key-differs", kind.s()), &format!("{} secret {}: public_key() = {}, RFC 8032 reference = {}", kind.s(), hexs(secret), hexs(&pkb), hexs(&rpk)), replay.clone());
    }
    if sigb != rsig {
        ctx.violation(&format!("C11:{}:signature-differs", kind.s()), &format!("{} secret {} msg {}: sign() = {}, RFC 8032 reference = {}", kind.s(), hexs(secret), hex_short(msg), hexs(&sigb), hexs(&rsig)), replay.clone());
    }
    // own signature under own key
    let own = pv::panics::catch(|| pk.verify(msg, &sig));
    ctx.eval();
    match own {
        Err(p) => {
            ctx.violation(&format!("panic:verify:{}", p.site()), &p.msg, replay);
            return;
        }
        Ok(ok) => {
            let rv = ref_verify(&pkb, msg, &sigb);
            if !ok {
                ctx.violation(&format!("C11:{}:own-signature-rejected", kind.s()), &format!("{} secret {} msg {}: verify of the key's own signature returned false (reference: {rv})", kind.s(), hexs(secret), hex_short(msg)), replay.clone());
            } else if !rv {
                ctx.violation(&format!("C11:{}:own-signature-rejected-by-reference", kind.s()), &format!("{} secret {} msg {}: the reference rejects pallas' signature {}", kind.s(), hexs(secret), hex_short(msg), hexs(&sigb)), replay.clone());
            } else {
                ctx.count("own_signatures_verified");
            }
        }
    }
    if kind == Kind::Ext {
        ctx.nontrivial(fp_mix(fp(secret), fp(msg)));
    }
    // ---- single-bit tamperings
    let mut sample: Vec<Tamper> = vec![];
    let mut check = |ctx: &mut Ctx, field: &'static str, bit: usize, tpk: &[u8; 32], tmsg: &[u8], tsig: &[u8; 64]| {
        let p = PublicKey::from(*tpk);
        let s = Signature::from(*tsig);
        let got = pv::panics::catch(|| p.verify(tmsg, &s));
        let want = ref_verify(tpk, tmsg, tsig);
        ctx.eval();
        ctx.count(match field {
            "public-key" => "tampered_public_key_bits",
            "signature-R" => "tampered_signature_R_bits",
            "signature-S" => "tampered_signature_S_bits",
            _ => "tampered_message_bits",
        });
        let replay = json!({"kind": "verify", "pk": hexs(tpk), "msg": hexs(tmsg), "sig": hexs(tsig)});
        match got {
            Err(p) => ctx.violation(&format!("panic:verify:tampered-{field}:{}", p.site()), &p.msg, replay),
            Ok(g) => {
                if g != want {
                    ctx.violation(
                        &format!("C11:verify:tampered-{field}:pallas={}:reference={}", if g { "accept" } else { "reject" }, if want { "accept" } else { "reject" }),
                        &format!("bit {bit} of the {field} flipped: pk {} msg {} sig {} -> pallas verify = {g}, reference = {want}", hexs(tpk), hex_short(tmsg), hexs(tsig)),
                        replay,
                    );
                }
                if want {
                    ctx.count("tampered_but_accepted_by_reference");
                } else {
                    ctx.count("tampered_rejected_by_both");
                }
                ctx.nontrivial(fp_mix(fp_mix(fp(tpk), fp(tsig)), fp(tmsg)));
                if sample.len() < 6 && (bit % 97 == 3 || field == "message") {
                    sample.push(Tamper { field, bit, pallas: g, reference: want });
                }
            }
        }
    };
    let pk_bits: Vec<usize> = if full_tamper { (0..256).collect() } else { (0..8).map(|_| ctx.rng.usize_below(256)).collect() };
    for bit in pk_bits {
        let mut t = pkb;
        t[bit / 8] ^= 1 << (bit % 8);
        check(ctx, "public-key", bit, &t, msg, &sigb);
    }
    let sig_bits: Vec<usize> = if full_tamper { (0..512).collect() } else { (0..16).map(|_| ctx.rng.usize_below(512)).collect() };
    for bit in sig_bits {
        let mut t = sigb;
        t[bit / 8] ^= 1 << (bit % 8);
        check(ctx, if bit < 256 { "signature-R" } else { "signature-S" }, bit, &pkb, msg, &t);
    }
    if !msg.is_empty() {
        let nflip = if full_tamper { 64 } else { 4 };
        for _ in 0..nflip {
            let bit = ctx.rng.usize_below(msg.len() * 8);
            let mut t = msg.to_vec();
            t[bit / 8] ^= 1 << (bit % 8);
            check(ctx, "message", bit, &pkb, &t, &sigb);
        }
    }
    if ctx.want_sample() && !msg.is_empty() && msg.len() < 48 {
        ctx.sample(json!({"kind": kind.s(), "secret": hexs(secret), "msg": hexs(msg), "public_key": hexs(&pkb), "signature": hexs(&sigb),
            "checked": "pk and signature compared with the reference; own signature verified; single-bit tamperings of pk, signature and message: pallas verdict compared with the reference verdict"}));
    }
    if let Some(log) = log {
        log.push(json!({"kind": kind.s(), "secret": hexs(secret), "msg": hexs(msg), "pk": hexs(&pkb), "sig": hexs(&sigb),
            "tampers": sample.iter().map(|t| json!({"field": t.field, "bit": t.bit, "pallas": t.pallas, "reference": t.reference})).collect::<Vec<_>>()}));
    }
}

/// all 32 combinations of the five clamping bits
fn clamping_round(ctx: &mut Ctx) {
    for combo in 0u8..32 {
        let low3 = combo & 7;
        let hi2 = combo >> 3; // bit1 -> bit 7 of byte 31, bit0 -> bit 6
        let mut b: [u8; 64] = ctx.rng.array();
        if ctx.rng.chance(1, 8) {
            // sparse keys: everything but the clamping bits zero / one
            let fill = if ctx.rng.bool() { 0u8 } else { 0xff };
            b = [fill; 64];
        }
        b[0] = (b[0] & 0xf8) | low3;
        b[31] = (b[31] & 0x3f) | (hi2 << 6);
        let expect = low3 == 0 && hi2 == 0b01;
        let r = pv::panics::catch(|| (SecretKeyExtended::from_bytes(b).map(|k| k.public_key()), SecretKeyExtended::try_from(b).is_ok()));
        ctx.evals(2);
        ctx.count("clamping_cases");
        ctx.set_insert("clamping_combinations_seen", &format!("low3={low3:03b},bit7={},bit6={}", hi2 >> 1, hi2 & 1));
        let replay = json!({"kind": "clamp", "secret": hexs(&b)});
        let cls = format!("low3={}:bit7={}:bit6={}", if low3 == 0 { "clear" } else { "set" }, hi2 >> 1, hi2 & 1);
        match r {
            Err(p) => ctx.violation(&format!("panic:SecretKeyExtended::from_bytes:{}", p.site()), &p.msg, replay),
            Ok((fb, tf)) => {
                if fb.is_ok() != expect {
                    ctx.violation(
                        &format!("C11:extended:clamping:{cls}:expected={}:got={}", if expect { "accept" } else { "reject" }, if fb.is_ok() { "accept" } else { "reject" }),
                        &format!("SecretKeyExtended::from_bytes({}) (byte0 low bits {low3:03b}, byte31 top bits {hi2:02b}) -> {}", hexs(&b), if fb.is_ok() { "Ok" } else { "Err" }),
                        replay.clone(),
                    );
                }
                if tf != fb.is_ok() {
                    ctx.violation(&format!("C11:extended:clamping:try_from-disagrees-with-from_bytes:{cls}"), &format!("TryFrom and from_bytes disagree on {}", hexs(&b)), replay.clone());
                }
                if expect {
                    ctx.count("clamping_accepted");
                    if let Ok(pk) = fb {
                        let (rpk, _) = ref_ext(&b, b"");
                        if pk.as_ref() != &rpk[..] {
                            ctx.violation("C11:extended:public-key-differs", &format!("extended secret {}: public_key() = {pk}, reference = {}", hexs(&b), hexs(&rpk)), replay);
                        }
                    }
                } else {
                    ctx.count("clamping_rejected");
                }
                ctx.nontrivial(fp_mix(fp(&b), 0xC1A));
            }
        }
    }
}

fn main() {
    let mut ctx = Ctx::from_args("C11");
    match pin_oracle() {
        Ok(n) => ctx.note("oracle_pinned_to_rfc8032_vectors", json!(n)),
        Err(e) => {
            ctx.inconclusive(&format!("reference implementation could not be pinned to RFC 8032: {e}"));
            ctx.finish();
        }
    }
    if let Some(p) = ctx.replay.clone() {
        let v: serde_json::Value = serde_json::from_slice(&std::fs::read(p).unwrap()).unwrap();
        let r = &v["replay"];
        let msg = hex::decode(r["msg"].as_str().unwrap_or("")).unwrap();
        match r["kind"].as_str().unwrap_or("") {
            "standard" => key_case(&mut ctx, Kind::Std, &hex::decode(r["secret"].as_str().unwrap()).unwrap(), &msg, true, None),
            "extended" => key_case(&mut ctx, Kind::Ext, &hex::decode(r["secret"].as_str().unwrap()).unwrap(), &msg, true, None),
            "verify" => {
                let pk: [u8; 32] = hex::decode(r["pk"].as_str().unwrap()).unwrap().try_into().unwrap();
                let sig: [u8; 64] = hex::decode(r["sig"].as_str().unwrap()).unwrap().try_into().unwrap();
                let g = PublicKey::from(pk).verify(&msg, &Signature::from(sig));
                println!("pallas verify = {g}, reference verify = {}", ref_verify(&pk, &msg, &sig));
            }
            "clamp" => {
                let b: [u8; 64] = hex::decode(r["secret"].as_str().unwrap()).unwrap().try_into().unwrap();
                println!("from_bytes -> {}", if SecretKeyExtended::from_bytes(b).is_ok() { "Ok" } else { "Err" });
            }
            k => println!("unknown replay kind {k}"),
        }
        println!("replayed: violations={}", ctx.n_violations());
        ctx.finish();
    }
    // ---- clamping: all 32 combinations, several rounds per shard
    let rounds = ctx.budget(16 * 8, 16 * 400);
    for _ in 0..rounds {
        clamping_round(&mut ctx);
    }
    ctx.note("all_32_clamping_combinations_per_round", json!(true));
    // ---- keys with the full single-bit tampering sweep
    let nfull = ctx.budget(208, 10_000);
    let mut sample_log: Vec<serde_json::Value> = vec![];
    for i in 0..nfull {
        let msg = gen_msg(&mut ctx.rng);
        let want_log = sample_log.len() < 13;
        if i % 2 == 0 {
            let seed: [u8; 32] = ctx.rng.array();
            key_case(&mut ctx, Kind::Std, &seed, &msg, true, if want_log { Some(&mut sample_log) } else { None });
        } else {
            let ext = clamp(ctx.rng.array());
            key_case(&mut ctx, Kind::Ext, &ext, &msg, true, if want_log { Some(&mut sample_log) } else { None });
        }
    }
    // ---- many more keys with a light tampering sample (key derivation / signing agreement is the point)
    let nlight = ctx.budget(4_000, 250_000);
    for i in 0..nlight {
        let msg = gen_msg(&mut ctx.rng);
        if i % 2 == 0 {
            let mut seed: [u8; 32] = ctx.rng.array();
            if ctx.rng.chance(1, 50) {
                seed = [if ctx.rng.bool() { 0 } else { 0xff }; 32];
            }
            key_case(&mut ctx, Kind::Std, &seed, &msg, false, None);
        } else {
            let mut ext = clamp(ctx.rng.array());
            if ctx.rng.chance(1, 50) {
                ext = clamp([if ctx.rng.bool() { 0 } else { 0xff }; 64]);
            }
            key_case(&mut ctx, Kind::Ext, &ext, &msg, false, None);
        }
    }
    // ---- sample for the pure-python RFC 8032 replay
    let path = ctx.out.join(format!("events-{}.jsonl", ctx.shard));
    match std::fs::File::create(&path) {
        Ok(mut f) => {
            for e in &sample_log {
                let _ = writeln!(f, "{}", serde_json::to_string(e).unwrap());
            }
            ctx.add("tuples_logged_for_offline_oracle", sample_log.len() as u64);
        }
        Err(_) => ctx.inconclusive("could not create the event log for the offline oracle"),
    }
    ctx.finish();
}
