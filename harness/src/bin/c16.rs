//! C16 — bounded exp comparison never reaches a wrong conclusion.
//!
//! The shard generates (x, compare, bound, max_n), calls `FixedDecimal::exp_cmp` and logs
//! (approx, estimation, iterations). The offline oracle (`oracles/nonintegral_ref.py --prop C16`)
//! (1) recomputes the triple with the reference algorithm on python ints (exact equality) and
//! (2) judges GT / LT against e^x from mpmath outside the quantisation band.
use num_bigint::BigInt;
use pallas_math::math::{ExpOrdering, FixedDecimal, FixedPrecision};
use pv::fixgen::*;
use pv::*;
use serde_json::Value;

fn fd(v: &BigInt) -> FixedDecimal {
    FixedDecimal::from_str(&v.to_string(), 34).expect("from_str on a decimal integer")
}

fn one() -> BigInt {
    pow10(34)
}

fn observe(x: &BigInt, c: &BigInt, max_n: u64, bound: i64, kind: &str) -> Value {
    let r = pv::panics::catch(|| {
        let r = fd(x).exp_cmp(max_n, bound, &fd(c));
        let est = match r.estimation {
            ExpOrdering::GT => "GT",
            ExpOrdering::LT => "LT",
            ExpOrdering::UNKNOWN => "UNKNOWN",
        };
        (r.approx.to_string(), est, r.iterations)
    });
    let args = vec![x.to_string(), c.to_string()];
    match r {
        Ok((approx, est, it)) => json!({"op": "exp_cmp", "args": args, "result": approx, "panic": Value::Null,
            "extra": {"max_n": max_n, "bound": bound, "iterations": it, "estimation": est, "kind": kind}}),
        Err(p) => json!({"op": "exp_cmp", "args": args, "result": Value::Null, "panic": p.site(),
            "extra": {"max_n": max_n, "bound": bound, "kind": kind}}),
    }
}

/// e^x as pallas computes it (only used to place `compare` near the interesting region; the
/// oracle judges against mpmath)
fn exp_of(x: &BigInt) -> Option<BigInt> {
    pv::panics::catch(|| fd(x).exp().to_string()).ok().map(|s| unprint(&s))
}

fn gen_x(rng: &mut Rng) -> (BigInt, &'static str) {
    match rng.below(100) {
        // leader-check range, dense
        0..=44 => (uniform_below(rng, &(BigInt::from(12u32) * pow10(33))), "x-in-0-1.2"),
        // round values of the leader range
        45..=54 => (BigInt::from(rng.range(0, 120)) * pow10(32) + BigInt::from(rng.irange(-1, 1)), "x-round"),
        55..=69 => {
            let ip = BigInt::from(rng.range(1, 19)) * one();
            (ip + uniform_below(rng, &(one() - 1)), "x-up-to-20")
        }
        70..=84 => {
            let v = if rng.bool() { uniform_below(rng, &(BigInt::from(12u32) * pow10(33))) } else { uniform_below(rng, &(BigInt::from(20u32) * one())) };
            (-v - 1, "x-negative")
        }
        85..=92 => {
            let v = log_uniform(rng, -30, -3);
            (if rng.chance(30, 100) { -v } else { v }, "x-tiny")
        }
        // around the 1e-24 termination threshold, and zero
        93..=96 => (pow10(10) + BigInt::from(rng.irange(-3, 3)), "x-at-eps"),
        _ => (BigInt::from(rng.irange(-1, 1)), "x-zero"),
    }
}

fn gen_compare(rng: &mut Rng, ex: &BigInt) -> (BigInt, &'static str) {
    match rng.below(100) {
        // e^x (1 +- delta), delta = 10^-k with k in 0..=33 plus random fill below it
        0..=69 => {
            let k = rng.range(0, 33) as u32;
            let mut d = ex / pow10(k);
            if rng.bool() {
                // not exactly a power of ten: 1..9.99 x 10^-k
                d = &d * BigInt::from(rng.range(10, 99)) / 10;
            }
            if d.sign() == num_bigint::Sign::NoSign {
                d = BigInt::from(1);
            }
            if rng.bool() {
                (ex + d, "near-above")
            } else {
                (ex - d, "near-below")
            }
        }
        // within a few ulp of pallas' own e^x
        70..=79 => (ex + BigInt::from(rng.irange(-40, 40)), "few-ulp"),
        80..=84 => (ex * 2, "double"),
        85..=89 => (ex / 2, "half"),
        90..=93 => (uniform_below(rng, &(ex * 3)), "random"),
        94..=95 => (BigInt::from(0), "zero"),
        96..=97 => (-uniform_below(rng, &(ex * 2)) - 1, "negative"),
        _ => (ex * BigInt::from(rng.range(3, 1_000_000)), "huge"),
    }
}

fn gen_bound(rng: &mut Rng, x: &BigInt) -> i64 {
    let ax = approx_f64(x).abs();
    let need = if ax.is_finite() { ax.exp().ceil() as i64 } else { 1 };
    let need = need.max(1);
    match rng.below(100) {
        0..=39 => 3.max(need),                                     // the ledger's bound for x in [0, 1.09..]
        40..=54 => need,                                           // tight: ceil(e^|x|)
        55..=64 => need + 1,
        65..=89 => {
            let hi = (need.saturating_mul(2)).max(1000);
            rng.irange(need, hi)
        }
        // deliberately too small (precondition of the property not met: only the triple is checked)
        _ => rng.irange(1, need.max(2) - 1).max(1),
    }
}

fn gen_max_n(rng: &mut Rng) -> u64 {
    match rng.below(10) {
        0..=3 => 1000,
        4..=6 => rng.range(1, 10),
        7 => rng.range(10, 40),
        _ => {
            // log-uniform 1..1000
            let e = rng.below(3);
            let lo = 10u64.pow(e as u32);
            rng.range(lo, lo * 10)
        }
    }
}

fn main() {
    let mut ctx = Ctx::from_args("C16");
    if let Some(p) = ctx.replay.clone() {
        let v: Value = serde_json::from_slice(&std::fs::read(p).unwrap()).unwrap();
        let old = &v["replay"];
        let x = big(old["args"][0].as_str().unwrap());
        let c = big(old["args"][1].as_str().unwrap());
        let max_n = old["extra"]["max_n"].as_u64().unwrap();
        let bound = old["extra"]["bound"].as_i64().unwrap();
        let ev = observe(&x, &c, max_n, bound, "replay");
        println!("replayed exp_cmp(x={x}, max_n={max_n}, bound={bound}, compare={c}) -> approx={} extra={} panic={}", ev["result"], ev["extra"], ev["panic"]);
        replay_with_oracle(&ctx.out, "oracles/nonintegral_ref.py", "C16", &ev);
        ctx.finish();
    }
    let mut log = EventLog::create(&ctx.out, ctx.shard);
    let n = ctx.budget(20_000, 500_000);
    for _ in 0..n {
        let (x, xkind) = gen_x(&mut ctx.rng);
        let ex = match exp_of(&x) {
            Some(v) => v,
            None => {
                ctx.count("exp_panicked_while_generating");
                one()
            }
        };
        let (c, ckind) = gen_compare(&mut ctx.rng, &ex);
        let bound = gen_bound(&mut ctx.rng, &x);
        let max_n = gen_max_n(&mut ctx.rng);
        let ev = observe(&x, &c, max_n, bound, &format!("{xkind}/{ckind}"));
        ctx.count(&format!("gen_{xkind}"));
        ctx.count(&format!("gen_compare_{ckind}"));
        if !ev["panic"].is_null() {
            ctx.count("panics_observed");
        }
        log.log(&ev);
    }
    let written = log.close();
    ctx.add("events_logged", written);
    ctx.finish();
}
